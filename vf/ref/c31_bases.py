"""Independent exact definitions of the flavour / evolution bases (C31, C32, C33, C46).

Everything here is typed from the documentation of the bases (doc/source/theory/FlavorSpace.rst:
"QCD Evolution Basis", "Intrinsic QCD Evolution Bases", "Unified Evolution Basis", "Intrinsic
Unified Evolution Basis") and from the PDG numbering scheme - never from eko's arrays.  A
distribution is a dict {pid: Fraction}; vectors are produced in whatever pid order the caller
hands in (the order table of eko is itself one of the things under test).

Arithmetic is exact (fractions.Fraction); floats coming out of eko are turned into the unique
small-denominator rational next to them by `rat` (two different rationals with denominators
<= 10^4 are >= 1e-8 apart, the accepted rounding residue is 1e-12).
"""

from fractions import Fraction as F

# --------------------------------------------------------------------------- PDG numbering
PDG = {
    "ph": 22,
    "g": 21,
    "d": 1,
    "u": 2,
    "s": 3,
    "c": 4,
    "b": 5,
    "t": 6,
    "dbar": -1,
    "ubar": -2,
    "sbar": -3,
    "cbar": -4,
    "bbar": -5,
    "tbar": -6,
}
ALL_PIDS = sorted(PDG.values())
QUARK_OF_PID = {1: "d", 2: "u", 3: "s", 4: "c", 5: "b", 6: "t"}
# order in which the flavours enter the SU(n) generators T3, T8, T15, ...: u, d, s, c, b, t
GEN_ORDER = [2, 1, 3, 4, 5, 6]
UPS = [2, 4, 6]
DOWNS = [1, 3, 5]

# pid conventions of the evolution bases (docstrings of eko.basis_rotation: S=100, V=200,
# T_k = 100+k, V_k = 200+k; unified: Sdelta=101, Vdelta=201, pid_ns(u)=pid_ns+1, pid_ns(d)=pid_ns+2)
EVOL_PID = {"ph": 22, "S": 100, "g": 21, "V": 200}
for _k in (3, 8, 15, 24, 35):
    EVOL_PID[f"T{_k}"] = 100 + _k
    EVOL_PID[f"V{_k}"] = 200 + _k
UNI_PID = {
    "g": 21,
    "ph": 22,
    "S": 100,
    "Sdelta": 101,
    "V": 200,
    "Vdelta": 201,
    "Tu3": 104,
    "Vu3": 204,
    "Td3": 105,
    "Vd3": 205,
    "Tu8": 109,
    "Vu8": 209,
    "Td8": 110,
    "Vd8": 210,
}


# --------------------------------------------------------------------------- distributions
def _add(acc, pid, w):
    acc[pid] = acc.get(pid, F(0)) + F(w)


def qpm(q, sgn, w=1):
    """w * (q + sgn * qbar)"""
    return {q: F(w), -q: F(w) * sgn}


def comb(*terms):
    acc = {}
    for t in terms:
        for p, w in t.items():
            _add(acc, p, w)
    return {p: w for p, w in acc.items() if w != 0}


def restrict(dist, nf):
    """Drop the quarks heavier than nf (gluon and photon stay)."""
    return {p: w for p, w in dist.items() if abs(p) > 6 or abs(p) <= nf}


def _sgn(label):
    """+1 for the singlet-like (S, T..) distributions, -1 for the valence-like ones (V..)."""
    return -1 if label[0] == "V" else 1


def evol_def(label):
    """QCD evolution basis, nf=6 (FlavorSpace.rst, 'QCD Evolution Basis')."""
    if label == "ph":
        return {22: F(1)}
    if label == "g":
        return {21: F(1)}
    s = _sgn(label)
    if label in ("S", "V"):
        return comb(*[qpm(q, s) for q in range(1, 7)])
    k2 = int(label[1:])
    n = {3: 2, 8: 3, 15: 4, 24: 5, 35: 6}[k2]
    terms = [qpm(GEN_ORDER[j], s) for j in range(n - 1)]
    terms.append(qpm(GEN_ORDER[n - 1], s, -(n - 1)))
    return comb(*terms)


def uni_def(label):
    """Unified evolution basis, nf=6 (FlavorSpace.rst, 'Unified Evolution Basis')."""
    if label in ("ph", "g", "S", "V"):
        return evol_def(label)
    s = _sgn(label)
    if label[1:] == "delta":
        return comb(*[qpm(q, s) for q in UPS], *[qpm(q, s, -1) for q in DOWNS])
    fam = {"u": UPS, "d": DOWNS}[label[1]]
    if label[2] == "3":
        return comb(qpm(fam[0], s), qpm(fam[1], s, -1))
    if label[2] == "8":
        return comb(qpm(fam[0], s), qpm(fam[1], s), qpm(fam[2], s, -2))
    raise KeyError(label)


EVOL_LABELS = ["ph", "S", "g", "V"] + [f"V{k}" for k in (3, 8, 15, 24, 35)] + [f"T{k}" for k in (3, 8, 15, 24, 35)]
UNI_LABELS = ["g", "ph", "S", "Sdelta", "V", "Vdelta", "Td3", "Vd3", "Tu3", "Vu3", "Td8", "Vd8", "Tu8", "Vu8"]

# the coefficient of the up-like flavours in Sigma_Delta,(nf) / V_Delta,(nf), typed from
# 'Intrinsic Unified Evolution Basis' (2 u+ - d+ - s+ ; u+ + c+ - d+ - s+ ; 3/2 ... ; 1)
DELTA_UP_COEFF = {3: F(2), 4: F(1), 5: F(3, 2), 6: F(1)}
# first nf at which a non-singlet distribution is active
NS_ACTIVE_QCD = {3: 2, 8: 3, 15: 4, 24: 5, 35: 6}
NS_ACTIVE_UNI = {"d3": 3, "u3": 4, "d8": 5, "u8": 6}


def heavy_labels(nf):
    out = []
    for q in range(nf + 1, 7):
        out += [f"{QUARK_OF_PID[q]}+", f"{QUARK_OF_PID[q]}-"]
    return out


def pm_def(label):
    q = PDG[label[0]]
    return qpm(q, 1 if label[1] == "+" else -1)


def is_active(label, nf, qed):
    """Is the evolution label one of the evolving distributions with nf light flavours?"""
    if label in ("g", "S", "V"):
        return True
    if label == "ph":
        return bool(qed)
    if qed:
        if label in ("Sdelta", "Vdelta"):
            return True
        return label[1:] in NS_ACTIVE_UNI and NS_ACTIVE_UNI[label[1:]] <= nf
    return label[0] in "TV" and int(label[1:]) in NS_ACTIVE_QCD and NS_ACTIVE_QCD[int(label[1:])] <= nf


def intrinsic_labels(nf, qed):
    """The 14 labels of the intrinsic (unified) evolution basis with nf light flavours."""
    if not qed:
        labs = ["ph", "g", "S", "V"]
        labs += [l for l in EVOL_LABELS if l[0] in "TV" and l not in ("V",) and l[1:].isdigit() and is_active(l, nf, False)]
    else:
        labs = ["ph", "g", "S", "V", "Sdelta", "Vdelta"]
        labs += [l for l in UNI_LABELS if l[1:] in NS_ACTIVE_UNI and is_active(l, nf, True)]
    return labs + heavy_labels(nf)


def intrinsic_def(label, nf, qed, delta="doc"):
    """Flavour content of a label of the intrinsic basis with nf light flavours.

    delta="doc":   Sigma_Delta,(nf) as documented (nd/nu * sum(up) - sum(down), i.e. orthogonal to Sigma_(nf))
    delta="table": the nf=6 combination restricted to the active flavours (what a cut of the table gives)
    """
    if len(label) == 2 and label[1] in "+-" and label[0] in PDG:
        return pm_def(label)
    if not qed:
        return restrict(evol_def(label), nf)
    if label[1:] == "delta" and delta == "doc":
        s = _sgn(label)
        ups = [q for q in UPS if q <= nf]
        dns = [q for q in DOWNS if q <= nf]
        return comb(*[qpm(q, s, DELTA_UP_COEFF[nf]) for q in ups], *[qpm(q, s, -1) for q in dns])
    return restrict(uni_def(label), nf)


def vec(dist, pid_order):
    return [F(dist.get(int(p), 0)) for p in pid_order]


def basis_matrix(nf, qed, pid_order, delta="doc"):
    labs = intrinsic_labels(nf, qed)
    return labs, [vec(intrinsic_def(l, nf, qed, delta), pid_order) for l in labs]


# --------------------------------------------------------------------------- sectors
# anomalous-dimension sectors of the two bases: label -> list of (source, target) members,
# typed from the structure of the DGLAP system (singlet 2x2 / 4x4, valence 1x1 / 2x2,
# non-singlet families).  pid codes of the labels: eko.basis_rotation docstrings / comments
# (ns- 10201, ns+ 10101, nsV 10200, ns-u 10202, ns-d 10203, ns+u 10102, ns+d 10103, Vdelta 10204).
def qcd_sectors():
    sec = {}
    names = {100: "S", 21: "g"}
    for a in (100, 21):
        for b in (100, 21):
            sec[(a, b)] = [(names[a], names[b])]
    sec[(10200, 0)] = [("V", "V")]
    sec[(10101, 0)] = [(f"T{k}", f"T{k}") for k in (3, 8, 15, 24, 35)]
    sec[(10201, 0)] = [(f"V{k}", f"V{k}") for k in (3, 8, 15, 24, 35)]
    return sec


def qed_sectors():
    sec = {}
    names = {21: "g", 22: "ph", 100: "S", 101: "Sdelta"}
    for a in names:
        for b in names:
            sec[(a, b)] = [(names[a], names[b])]
    vn = {10200: "V", 10204: "Vdelta"}
    for a in vn:
        for b in vn:
            sec[(a, b)] = [(vn[a], vn[b])]
    sec[(10102, 0)] = [("Tu3", "Tu3"), ("Tu8", "Tu8")]
    sec[(10103, 0)] = [("Td3", "Td3"), ("Td8", "Td8")]
    sec[(10202, 0)] = [("Vu3", "Vu3"), ("Vu8", "Vu8")]
    sec[(10203, 0)] = [("Vd3", "Vd3"), ("Vd8", "Vd8")]
    return sec


def sectors(qed):
    return qed_sectors() if qed else qcd_sectors()


def is_diagonal(members):
    return all(a == b for a, b in members)


# --------------------------------------------------------------------------- exact linear algebra
def rat(x, maxden=10000, tol=1e-12):
    """The unique small-denominator rational next to the float x; (Fraction, residue)."""
    x = float(x)
    if x != x or x in (float("inf"), float("-inf")):
        raise ValueError(f"non-finite value {x}")
    fr = F(x).limit_denominator(maxden)
    res = abs(float(fr) - x)
    if res > tol * max(1.0, abs(x)):
        raise ValueError(f"{x!r} is not within {tol} of a rational with denominator <= {maxden}")
    return fr, res


def rat_matrix(a):
    """2-d float array -> (list of lists of Fraction, max residue)."""
    out, worst = [], 0.0
    for row in a:
        r = []
        for x in row:
            fr, res = rat(x)
            worst = max(worst, res)
            r.append(fr)
        out.append(r)
    return out, worst


def matmul(a, b):
    bt = list(zip(*b))
    return [[sum((x * y for x, y in zip(r, c) if x and y), F(0)) for c in bt] for r in a]


def vecmat(v, m):
    return [sum((x * row[j] for x, row in zip(v, m) if x), F(0)) for j in range(len(m[0]))]


def dot(a, b):
    return sum((x * y for x, y in zip(a, b) if x and y), F(0))


def transpose(a):
    return [list(r) for r in zip(*a)]


def identity(n):
    return [[F(int(i == j)) for j in range(n)] for i in range(n)]


def inverse(a):
    """Gauss-Jordan over the rationals; None if singular."""
    n = len(a)
    m = [list(map(F, r)) + [F(int(i == j)) for j in range(n)] for i, r in enumerate(a)]
    for c in range(n):
        piv = next((r for r in range(c, n) if m[r][c] != 0), None)
        if piv is None:
            return None
        m[c], m[piv] = m[piv], m[c]
        p = m[c][c]
        m[c] = [x / p for x in m[c]]
        for r in range(n):
            if r != c and m[r][c] != 0:
                f = m[r][c]
                m[r] = [x - f * y for x, y in zip(m[r], m[c])]
    return [r[n:] for r in m]


def rank(a):
    m = [list(map(F, r)) for r in a]
    rk, rows, cols = 0, len(m), len(m[0]) if m else 0
    for c in range(cols):
        piv = next((r for r in range(rk, rows) if m[r][c] != 0), None)
        if piv is None:
            continue
        m[rk], m[piv] = m[piv], m[rk]
        for r in range(rows):
            if r != rk and m[r][c] != 0:
                f = m[r][c] / m[rk][c]
                m[r] = [x - f * y for x, y in zip(m[r], m[rk])]
        rk += 1
    return rk


def fmt(v):
    return "[" + ",".join(str(x) for x in v) + "]"


def show(dist_vec, pid_order):
    """Readable flavour content of a vector."""
    parts = []
    for p, w in zip(pid_order, dist_vec):
        if w:
            parts.append(f"{w}*({int(p)})")
    return " + ".join(parts) if parts else "0"


def _selfcheck():
    """Typos of mine abort the check instead of raising an alarm."""
    for nf in (3, 4, 5, 6):
        for qed in (False, True):
            labs, b = basis_matrix(nf, qed, ALL_PIDS)
            assert len(labs) == 14 and len(set(labs)) == 14, (nf, qed, labs)
            assert rank(b) == 14, (nf, qed)
            g = matmul(b, transpose(b))
            assert all(g[i][j] == 0 for i in range(14) for j in range(14) if i != j), (nf, qed)
    # documented special cases, typed a second time
    assert intrinsic_def("Sdelta", 3, True) == comb(qpm(2, 1, 2), qpm(1, 1, -1), qpm(3, 1, -1))
    assert intrinsic_def("Vdelta", 5, True) == comb(
        qpm(2, -1, F(3, 2)), qpm(4, -1, F(3, 2)), qpm(1, -1, -1), qpm(3, -1, -1), qpm(5, -1, -1)
    )
    assert evol_def("T15") == comb(qpm(2, 1), qpm(1, 1), qpm(3, 1), qpm(4, 1, -3))
    assert evol_def("V3") == comb(qpm(2, -1), qpm(1, -1, -1))
    assert uni_def("Td8") == comb(qpm(1, 1), qpm(3, 1), qpm(5, 1, -2))
    assert uni_def("Vu3") == comb(qpm(2, -1), qpm(4, -1, -1))
    assert len(qcd_sectors()) == 7 and len(qed_sectors()) == 24


_selfcheck()
