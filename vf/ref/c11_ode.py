"""Independent references for the kernel properties C11-C14: path-ordered solution of
dE/da = M(a) E by mpmath's Taylor-series ODE solver (30 digits), and the plain midpoint product.

Nothing here imports eko.
"""

from __future__ import annotations

import numpy as np


def path_ordered(M, a0, a1, dim, tol=1e-18, dps=30):
    """E(a1 <- a0) with dE/da = M(a) E, E(a0) = 1.

    M(a) -> list of lists (dim x dim) of mpmath numbers.  Integrated in s in [0, 1] with
    a = a0 (a1/a0)^s, so both directions of evolution are a forward integration.
    """
    import mpmath as mp

    with mp.workdps(dps):
        A0, A1 = mp.mpf(a0), mp.mpf(a1)
        if A0 == A1:
            return np.eye(dim, dtype=complex)
        lr = mp.log(A1 / A0)

        def f(s, y):
            a = A0 * mp.exp(lr * s)
            m = M(a)
            jac = a * lr
            out = []
            for i in range(dim):
                for j in range(dim):
                    out.append(jac * sum(m[i][k] * y[k * dim + j] for k in range(dim)))
            return out

        y0 = [mp.mpf(1) if i == j else mp.mpf(0) for i in range(dim) for j in range(dim)]
        sol = mp.odefun(f, 0, y0, tol=mp.mpf(tol))
        y = sol(1)
        return np.array([[complex(y[i * dim + j]) for j in range(dim)] for i in range(dim)])


def qcd_generator(gammas, betas):
    """M(a) = sum_i gamma_i a^i / sum_i beta_i a^(i+1)  (i < len(betas)); gammas: list of dim x dim."""
    import mpmath as mp

    n = len(betas)
    dim = len(gammas[0])
    G = [[[mp.mpc(complex(gammas[k][i][j])) for j in range(dim)] for i in range(dim)] for k in range(n)]
    B = [mp.mpf(b) for b in betas]

    def M(a):
        den = sum(B[k] * a ** (k + 1) for k in range(n))
        return [[sum(G[k][i][j] * a**k for k in range(n)) / den for j in range(dim)] for i in range(dim)]

    return M


def qed_generator(gamma_grid, beta_grid, aem_of_a):
    """M(a) = sum_ij gamma[i][j] a^i e^j / sum_ij beta[i][j] a^(i+1) e^j with e = aem_of_a(a)."""
    import mpmath as mp

    n0, n1 = len(gamma_grid), len(gamma_grid[0])
    dim = len(gamma_grid[0][0])
    G = [
        [[[mp.mpc(complex(gamma_grid[p][q][i][j])) for j in range(dim)] for i in range(dim)] for q in range(n1)]
        for p in range(n0)
    ]
    B = [[mp.mpf(float(beta_grid[p][q])) for q in range(n1)] for p in range(n0)]

    def M(a):
        e = aem_of_a(a)
        den = sum(B[p][q] * a ** (p + 1) * e**q for p in range(n0) for q in range(n1))
        return [
            [sum(G[p][q][i][j] * a**p * e**q for p in range(n0) for q in range(n1)) / den for j in range(dim)]
            for i in range(dim)
        ]

    return M


def expm_small(A):
    """Matrix exponential of a small complex matrix in double precision by scaling and squaring
    with a Taylor series (independent of any eigen-decomposition)."""
    A = np.asarray(A, dtype=complex)
    nrm = np.abs(A).sum(axis=1).max()
    s = max(0, int(np.ceil(np.log2(max(nrm, 1e-300)))) + 4) if nrm > 0 else 0
    B = A / (2.0**s)
    term = np.eye(A.shape[0], dtype=complex)
    out = term.copy()
    for k in range(1, 30):
        term = term @ B / k
        out = out + term
    for _ in range(s):
        out = out @ out
    return out
