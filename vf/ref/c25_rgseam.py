"""Helpers of C29 (renormalisation-group structure of the matching elements).

Two independent formulations of the same requirement
    f^(nf+1)(mu) = A(L, a_s^(nf+1)(mu)) f^(nf)(mu),   L = ln(mu^2/m_h^2),
    d f^(n)/d ln mu^2 = - gamma^(n)(a_s^(n)) f^(n):

(1) `seam_*`: the physical operator  E^(nf+1)(Q <- mu_m) R A(ln k) E^(nf)(mu_m <- Q0)  built from the
    real eko kernels (eko.kernels.singlet / non_singlet), the real `Couplings` (threshold ratio k)
    and the real `build_ome`; its dependence on k has to be of higher order.
(2) `rg_required_derivatives`: order by order,
        dA1/dL = g0 - g0'
        dA2/dL = b0' A1 + g1 - g1' + d1 g0 - g0' A1 + A1 g0
        dA3/dL = 2 b0' A2 + b1' A1 + g2 - g2' + 2 d1 g1 + d2 g0 - g1' A1 - g0' A2 + A1 g1 + d1 A1 g0 + A2 g0
    (primes = nf+1 flavours, a^(nf) = a' (1 + d1 a' + d2 a'^2), matrices in the (g, q, H) basis of the
    matching elements, H static below the threshold).  Derived here from the two evolution equations;
    nothing is taken from the matching-element sources.

The only flavour algebra used is the rotation documented in doc/source/theory/Matching.rst:
(g, q, H) -> (Sigma = q + H, g, T = q - nf H).
"""

import functools
import math

import numpy as np

V0 = (0,) * 7
KINDS = ("us", "ps", "ut")


# ------------------------------------------------------------------ eko entry points (the code under test)
@functools.lru_cache(maxsize=4096)
def gammas(kind, order, N, nf, mode=10101, fhmruvv=True):
    """(gamma_singlet tower, gamma_ns tower) of the given kind (memoised: treat the arrays as read-only)."""
    if kind == "us":
        import ekore.anomalous_dimensions.unpolarized.space_like as ad

        return ad.gamma_singlet(order, N, nf, V0, fhmruvv), ad.gamma_ns(order, mode, N, nf, V0, fhmruvv)
    if kind == "ut":
        import ekore.anomalous_dimensions.unpolarized.time_like as ad
    elif kind == "ps":
        import ekore.anomalous_dimensions.polarized.space_like as ad
    else:
        raise ValueError(kind)
    return ad.gamma_singlet(order, N, nf), ad.gamma_ns(order, mode, N, nf)


@functools.lru_cache(maxsize=4096)
def omes(kind, mo, N, nf, L, is_msbar=False):
    """(A_singlet tower in basis (g,q,H), A_non_singlet tower in basis (q,H)); mo = matching order
    (memoised: treat the arrays as read-only)."""
    if kind == "us":
        import ekore.operator_matrix_elements.unpolarized.space_like as om

        return om.A_singlet(mo, N, nf, L, is_msbar), om.A_non_singlet(mo, N, nf, L)
    if kind == "ut":
        import ekore.operator_matrix_elements.unpolarized.time_like as om

        return om.A_singlet(mo, N, L), om.A_non_singlet(mo, N, L)
    if kind == "ps":
        import ekore.operator_matrix_elements.polarized.space_like as om

        return om.A_singlet(mo, N, nf, L), om.A_non_singlet(mo, N, L)
    raise ValueError(kind)


# ------------------------------------------------------------------ flavour embedding
def rot(nf):
    """(g, q, H) -> (Sigma, g, T_new) for nf light flavours."""
    return np.array([[0, 1, 1], [1, 0, 0], [0, 1, -nf]], dtype=complex)


def embed_low(mS):
    """2x2 matrix acting on (Sigma, g) of the nf-scheme -> 3x3 on (g, q, H), H inert."""
    G = np.zeros((3, 3), complex)
    G[0, 0], G[0, 1], G[1, 0], G[1, 1] = mS[1, 1], mS[1, 0], mS[0, 1], mS[0, 0]
    return G


def embed_high(mS, mns, nf):
    """(nf+1)-scheme: 2x2 singlet on (Sigma, g) + ns+ on T_new -> 3x3 on (g, q, H)."""
    R = rot(nf)
    D = np.zeros((3, 3), complex)
    D[:2, :2] = mS
    D[2, 2] = mns
    return np.linalg.inv(R) @ D @ R


# ------------------------------------------------------------------ (2) algebraic identity
_BETA0 = lambda nf: 11.0 - 2.0 * nf / 3.0
_BETA1 = lambda nf: 102.0 - 38.0 * nf / 3.0


def decoupling_down(scheme, nf, L):
    """d1, d2 of a^(nf) = a'(1 + d1 a' + d2 a'^2) from eko's upward coefficients (the 'given' relation)."""
    from eko.couplings import compute_matching_coeffs_up

    m = compute_matching_coeffs_up(scheme, nf)
    c1 = sum(m[1, l] * L**l for l in range(4))
    c2 = sum(m[2, l] * L**l for l in range(4))
    return -c1, 2 * c1 * c1 - c2


def dL5(f, L, h=0.5):
    """five-point derivative, exact for polynomials of degree <= 4 in L."""
    return (f(L - 2 * h) - 8 * f(L - h) + 8 * f(L + h) - f(L + 2 * h)) / (12 * h)


def rg_required_derivatives(A, g, gp, nfp, d1, d2, upto):
    """Required dA_k/dL (k=1..upto) and a magnitude matrix (sum of |terms|) for each.

    A  : list of A_k(L) (k=1..) as square matrices,  g / gp : lists of gamma^(k) (nf / nf+1) embedded in
    the same space.  Returns [(required, magnitude), ...].
    """
    b0p, b1p = _BETA0(nfp), _BETA1(nfp)
    ab = np.abs
    out = []
    A1 = A[0]
    t = [g[0], -gp[0]]
    out.append((sum(t), sum(ab(x) for x in t)))
    if upto >= 2:
        t = [b0p * A1, g[1], -gp[1], d1 * g[0], -gp[0] @ A1, A1 @ g[0]]
        m = [ab(b0p * A1), ab(g[1]), ab(gp[1]), ab(d1 * g[0]), ab(gp[0]) @ ab(A1), ab(A1) @ ab(g[0])]
        out.append((sum(t), sum(m)))
    if upto >= 3:
        A2 = A[1]
        t = [
            2 * b0p * A2,
            b1p * A1,
            g[2],
            -gp[2],
            2 * d1 * g[1],
            d2 * g[0],
            -gp[1] @ A1,
            -gp[0] @ A2,
            A1 @ g[1],
            d1 * (A1 @ g[0]),
            A2 @ g[0],
        ]
        m = [
            ab(2 * b0p * A2),
            ab(b1p * A1),
            ab(g[2]),
            ab(gp[2]),
            ab(2 * d1 * g[1]),
            ab(d2 * g[0]),
            ab(gp[1]) @ ab(A1),
            ab(gp[0]) @ ab(A2),
            ab(A1) @ ab(g[1]),
            abs(d1) * (ab(A1) @ ab(g[0])),
            ab(A2) @ ab(g[0]),
        ]
        out.append((sum(t), sum(m)))
    return out


# ------------------------------------------------------------------ (1) physical seam
def _couplings(n, nf, k, lam, scheme, m2, ref):
    from eko import couplings as ec
    from eko.quantities.couplings import CouplingEvolutionMethod, CouplingsInfo
    from eko.quantities.heavy_quarks import QuarkMassScheme

    masses, ratios = [], []
    for i in range(3):  # heavy quarks number 4,5,6
        if i < nf - 3:
            masses.append(1e-6 * (i + 1))
            ratios.append(1.0)
        elif i == nf - 3:
            masses.append(m2)
            ratios.append(k)
        else:
            masses.append(1e12 * (i + 1))
            ratios.append(1.0)
    ci = CouplingsInfo(alphas=0.35 * lam, alphaem=0.007496, ref=(math.sqrt(ref[0]), ref[1]))
    return ec.Couplings(
        ci, (n, 0), CouplingEvolutionMethod("expanded"), masses, QuarkMassScheme[scheme], ratios
    )


def seam(kind, n, nf, k, lam, N, direction="forward", scheme="POLE", method="iterate-exact",
         m2=100.0, q0=1.5, q1=1.0e4, fhmruvv=True, remove_known_ps_hg=False):
    """The matched operator across one threshold for matching scale mu_m^2 = k m2.

    remove_known_ps_hg: evaluate with the recorded defect of the polarised A_Hg^(2) taken out (its single-log
    coefficient is off by -gamma_qg^(1),pol(N, nf=1): the element is corrected by + L gamma_qg^(1),pol(N, 1)),
    so that everything else in the polarised light columns stays decided by the scaling oracle.

    forward : returns (S, NS): S 3x3 rows (Sigma, g, T_new)^(nf+1)(q1) <- columns (g, q, H)^(nf)(q0);
              NS dict mode -> scalar for a light non-singlet combination.
    backward-exact / backward-expanded: S 3x3 rows (g, q, H)^(nf)(q0) <- columns (Sigma, g, T_new)^(nf+1)(q1).
    """
    from eko.evolution_operator.quad_ker import MatchingMethods, build_ome
    from eko.kernels import EvoMethods
    from eko.kernels import non_singlet as kns
    from eko.kernels import singlet as ks

    order, mo = (n, 0), (n - 1, 0)
    meth = EvoMethods[method.upper().replace("-", "_")]
    fwd = direction == "forward"
    sc = _couplings(n, nf, k, lam, scheme, m2, (q0, nf) if fwd else (q1, nf + 1))
    mum2 = k * m2
    a0, a1 = sc.a_s(q0, nf_to=nf), sc.a_s(mum2, nf_to=nf)
    a1p, a2 = sc.a_s(mum2, nf_to=nf + 1), sc.a_s(q1, nf_to=nf + 1)
    L = math.log(k)
    is_msbar = scheme == "MSBAR"
    gS, _ = gammas(kind, order, N, nf, 10101, fhmruvv)
    gSp, gNp = gammas(kind, order, N, nf + 1, 10101, fhmruvv)
    if mo[0] > 0:
        AS, ANS = omes(kind, mo, N, nf, L, is_msbar)
        if remove_known_ps_hg and kind == "ps" and mo[0] >= 2:
            AS = AS.copy()  # the memoised array is shared
            AS[1][2, 0] += L * gammas("ps", (2, 0), N, 1)[0][1][0, 1]
    else:
        AS, ANS = np.zeros((1, 3, 3), complex), np.zeros((1, 2, 2), complex)
    bm = {
        "forward": MatchingMethods.FORWARD,
        "backward-exact": MatchingMethods.BACKWARD_EXACT,
        "backward-expanded": MatchingMethods.BACKWARD_EXPANDED,
    }[direction]
    MS = build_ome(AS, mo, a1p, bm)
    MNS = build_ome(ANS, mo, a1p, bm)
    R = rot(nf)
    ns = {}
    if fwd:
        Elo = ks.dispatcher(order, meth, gS, a1, a0, nf, 10, (10, 0))
        Ehi = ks.dispatcher(order, meth, gSp, a2, a1p, nf + 1, 10, (10, 0))
        Ens = kns.dispatcher(order, meth, gNp, a2, a1p, nf + 1)
        B = embed_low(Elo)
        B[2, 2] = 1.0
        U = np.zeros((3, 3), complex)
        U[:2, :2] = Ehi
        U[2, 2] = Ens
        S = U @ R @ MS @ B
        for mode in (10101, 10201, 10200):
            gl = gammas(kind, order, N, nf, mode, fhmruvv)[1]
            gh = gammas(kind, order, N, nf + 1, mode, fhmruvv)[1]
            ns[mode] = kns.dispatcher(order, meth, gh, a2, a1p, nf + 1) * MNS[0, 0] * kns.dispatcher(
                order, meth, gl, a1, a0, nf
            )
    else:
        Ehi = ks.dispatcher(order, meth, gSp, a1p, a2, nf + 1, 10, (10, 0))
        Ens = kns.dispatcher(order, meth, gNp, a1p, a2, nf + 1)
        Elo = ks.dispatcher(order, meth, gS, a0, a1, nf, 10, (10, 0))
        U = np.zeros((3, 3), complex)
        U[:2, :2] = Ehi
        U[2, 2] = Ens
        B = embed_low(Elo)
        B[2, 2] = 1.0
        S = B @ MS @ np.linalg.inv(R) @ U
        for mode in (10101, 10201, 10200):
            gl = gammas(kind, order, N, nf, mode, fhmruvv)[1]
            gh = gammas(kind, order, N, nf + 1, mode, fhmruvv)[1]
            ns[mode] = kns.dispatcher(order, meth, gl, a0, a1, nf) * MNS[0, 0] * kns.dispatcher(
                order, meth, gh, a1p, a2, nf + 1
            )
    return S, ns


def local_exponents(resid, lams):
    """log2 R(lam_i)/R(lam_{i+1}) for a ladder with ratio 2; None where a residual is below the floor."""
    out = []
    for i in range(len(lams) - 1):
        r0, r1 = resid[i], resid[i + 1]
        if r0 < 1e-13 or r1 < 1e-13:
            out.append(None)
        else:
            out.append(math.log(r0 / r1) / math.log(lams[i] / lams[i + 1]))
    return out
