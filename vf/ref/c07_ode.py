"""Independent references for the evolution-kernel properties C07-C10.

Nothing here is taken from /repo.  Conventions (a = alpha_s/(4 pi)):

    beta(a)  = sum_{k<n} beta_k a^(k+2)          (d a / d ln mu^2 = -beta(a))
    gamma(a) = sum_{k<n} gamma_k a^(k+1)         (d f / d ln mu^2 = -gamma(a) f)
    =>  dE/da = gamma(a)/beta(a) E ,  E(a0) = 1   (n = requested perturbative order 1..4)

* `BETA` : QCD beta coefficients typed as rational polynomials in nf (Herzog et al. 2017 / van Ritbergen
  et al. 1997) and, a second time, as the decimal numbers printed in the literature; `selfcheck()`
  (run at import) aborts the harness if the two transcriptions disagree.
* `solve_linear_ode` : the solution of  D(a) E'(a) = N(a) E(a)  (N matrix polynomial, D scalar polynomial)
  by Taylor series with a short exact recurrence, re-expanded along [a0, a1] in steps of a quarter of the
  distance to the nearest singularity (a = 0 and the roots of D), 40 digits.  Works for scalars
  (non-singlet) and 2x2 matrices (path-ordered singlet solution) alike.
* `ns_exact_quad` : exp( int_{a0}^{a1} gamma/beta da ) by mpmath quadrature, used as a cross-check of the
  Taylor solver (two independent routes to the same number).
"""

from fractions import Fraction as F

import mpmath as mp

DPS = 40
mp.mp.dps = DPS

# ------------------------------------------------------------------------------------------- tables
# (A) exact, polynomial in nf:  coefficient = sum_i (rat_i + z3_i * zeta3) nf^i
_BETA_EXACT = {
    0: [(F(11), 0), (F(-2, 3), 0)],
    1: [(F(102), 0), (F(-38, 3), 0)],
    2: [(F(2857, 2), 0), (F(-5033, 18), 0), (F(325, 54), 0)],
    3: [
        (F(149753, 6), F(3564)),
        (F(-1078361, 162), F(-6508, 27)),
        (F(50065, 162), F(6472, 81)),
        (F(1093, 729), 0),
    ],
}
# (B) the same numbers as printed in decimal form (van Ritbergen, Vermaseren, Larin, PLB 400 (1997) 379,
# numerical SU(3) form, a = alpha_s/(4 pi)), typed independently of (A)
_BETA_DECIMAL = {
    0: [11.0, -0.666667],
    1: [102.0, -12.6667],
    2: [1428.5, -279.611, 6.01852],
    3: [29243.0, -6946.30, 405.089, 1.49931],
}
# mixed QCDxQED coefficient beta^(2,1) = -4 T_R sum_q e_q^2 = -2 (n_u 4/9 + n_d 1/9)
_NU = {3: 1, 4: 2, 5: 2, 6: 3}  # u | u c | u c | u c t
_BETA21_EXACT = {nf: -2 * (F(4, 9) * _NU[nf] + F(1, 9) * (nf - _NU[nf])) for nf in (3, 4, 5, 6)}
_BETA21_DECIMAL = {3: -1.333333, 4: -2.222222, 5: -2.444444, 6: -3.333333}


def _fr(x):
    x = F(x)
    return mp.mpf(x.numerator) / x.denominator


def beta_coeff(k, nf):
    """beta_k(nf), k = 0..3, as mpf."""
    z3 = mp.zeta(3)
    return sum((_fr(r) + _fr(z) * z3) * nf**i for i, (r, z) in enumerate(_BETA_EXACT[k]))


def beta_list(order, nf, aem=None):
    """[beta_0 .. beta_{order-1}]; with aem: beta_0 -> beta_0 + aem * beta^(2,1) (fixed alpha_em)."""
    b = [beta_coeff(k, nf) for k in range(order)]
    if aem is not None:
        b[0] = b[0] + mp.mpf(aem) * _fr(_BETA21_EXACT[nf])
    return b


def selfcheck():
    for k, dec in _BETA_DECIMAL.items():
        z3 = mp.zeta(3)
        for i, d in enumerate(dec):
            r, z = _BETA_EXACT[k][i]
            v = _fr(r) + _fr(z) * z3
            if abs(v - d) > 6e-6 * max(1, abs(d)):
                raise AssertionError(f"beta table transcription mismatch: beta_{k} nf^{i}: {v} vs {d}")
    for nf, d in _BETA21_DECIMAL.items():
        if abs(_fr(_BETA21_EXACT[nf]) - d) > 1e-6:
            raise AssertionError(f"beta21 table mismatch nf={nf}")
    # known integers: beta0(nf=3)=9, beta0(6)=7, beta1(3)=64, beta1(6)=26
    assert beta_coeff(0, 3) == 9 and beta_coeff(0, 6) == 7
    assert beta_coeff(1, 3) == 64 and beta_coeff(1, 6) == 26
    # the Taylor solver against a closed form it does not know:  a E' = c E  ->  (a1/a0)^c
    c = mp.mpc("0.3", "-0.7")
    e = solve_linear_ode([[c]], [0, 1], "0.002", "0.05", dim=1)[0]
    if abs(e - mp.power(mp.mpf("0.05") / mp.mpf("0.002"), c)) > mp.mpf(10) ** (-30):
        raise AssertionError("Taylor ODE solver self-test failed")


# ------------------------------------------------------------------------------- polynomial helpers
def _shift_poly(coeffs, c, mul, add):
    """Coefficients of p(c + x) in x, for p(a) = sum coeffs[k] a^k (Horner-free binomial expansion)."""
    n = len(coeffs)
    out = [None] * n
    for j in range(n):
        acc = None
        for k in range(j, n):
            t = mul(coeffs[k], mp.binomial(k, j) * c ** (k - j))
            acc = t if acc is None else add(acc, t)
        out[j] = acc
    return out


# 2x2 matrices are 4-tuples (m00, m01, m10, m11); scalars are 1-tuples.
def _mm(a, b):
    if len(a) == 1:
        return (a[0] * b[0],)
    return (
        a[0] * b[0] + a[1] * b[2],
        a[0] * b[1] + a[1] * b[3],
        a[2] * b[0] + a[3] * b[2],
        a[2] * b[1] + a[3] * b[3],
    )


def _ms(a, s):
    return tuple(x * s for x in a)


def _ma(a, b):
    return tuple(x + y for x, y in zip(a, b))


def _ident(dim):
    return (mp.mpc(1),) if dim == 1 else (mp.mpc(1), mp.mpc(0), mp.mpc(0), mp.mpc(1))


def _norm(a):
    # magnitude only steers the stopping rule: double precision is enough (range 1e-308 suffices)
    return max(abs(complex(x)) for x in a)


def solve_linear_ode(num, den, a0, a1, dim, tol_exp=32, ratio=4):
    """E(a1) for  den(a) E'(a) = num(a) E(a),  E(a0) = identity.

    num : list over powers of a of matrices (flat tuples/lists of dim*dim entries)
    den : list over powers of a of scalars
    Singularities of num/den are the roots of den; each step expands around its starting point c and
    advances by at most dist(c, roots)/ratio, so the series converges like ratio^-k.
    """
    mp.mp.dps = DPS
    a0 = mp.mpf(a0)
    a1 = mp.mpf(a1)
    num = [tuple(mp.mpmathify(x) for x in m) for m in num]
    den = [mp.mpmathify(x) for x in den]
    # strip vanishing leading coefficients for the root finder
    dd = list(den)
    while dd and dd[-1] == 0:
        dd.pop()
    roots = []
    if len(dd) > 1:
        # roots of sum dd[k] a^k ; mp.polyroots wants highest power first
        lo = 0
        while dd[lo] == 0:
            lo += 1
        if lo:
            roots.append(mp.mpf(0))
        rest = dd[lo:]
        if len(rest) > 1:
            roots += list(mp.polyroots(rest[::-1], maxsteps=200, extraprec=200))
    E = _ident(dim)
    tol = mp.mpf(10) ** (-tol_exp)
    c = a0
    nsteps = 0
    while c != a1:
        rho = min([abs(c - r) for r in roots] or [abs(a1 - c) * ratio])
        if rho == 0:
            raise ZeroDivisionError("ODE reference: start point on a singularity")
        h = a1 - c
        if abs(h) > rho / ratio:
            h = mp.sign(h) * rho / ratio
            nxt = c + h
        else:
            nxt = a1
        N = _shift_poly(num, c, _ms, _ma)
        D = _shift_poly(den, c, lambda x, y: x * y, lambda x, y: x + y)
        # D(x) E'(x) = N(x) E(x):  D0 (m+1) E_{m+1} = sum_j N_j E_{m-j} - sum_{j>=1} D_j (m+1-j) E_{m+1-j}
        coef = [_ident(dim)]
        val = coef[0]
        hp = mp.mpf(1)
        small = 0
        nent = dim * dim
        for m in range(0, 400):
            # one exact-accumulation dot product per matrix entry
            inv = 1 / (D[0] * (m + 1))
            nxtc = []
            for ent in range(nent):
                r, cidx = divmod(ent, dim)
                pairs = []
                for j, Nj in enumerate(N):
                    if m - j < 0:
                        break
                    Cm = coef[m - j]
                    for k in range(dim):
                        pairs.append((Nj[r * dim + k], Cm[k * dim + cidx]))
                for j in range(1, len(D)):
                    idx = m + 1 - j
                    if idx < 1:
                        break
                    pairs.append((-D[j] * idx, coef[idx][ent]))
                nxtc.append(mp.fdot(pairs) * inv)
            nxtc = tuple(nxtc)
            coef.append(nxtc)
            hp *= h
            term = _ms(nxtc, hp)
            val = _ma(val, term)
            if _norm(term) < tol * max(1, _norm(val)):
                small += 1
                if small >= len(D) + 2:
                    break
            else:
                small = 0
        else:
            raise ArithmeticError("ODE reference: Taylor series did not converge")
        E = _mm(val, E)
        c = nxt
        nsteps += 1
        if nsteps > 2000:
            raise ArithmeticError("ODE reference: too many steps")
    return E


# ------------------------------------------------------------------------------ DGLAP references
def _c(z):
    """JSON complex ([re, im] or number) -> mpc, exactly (floats are binary-exact)."""
    if isinstance(z, (list, tuple)):
        return mp.mpc(mp.mpf(z[0]), mp.mpf(z[1]))
    if isinstance(z, complex):
        return mp.mpc(mp.mpf(z.real), mp.mpf(z.imag))
    return mp.mpc(mp.mpf(z))


def dglap_ref(gammas, betas, a0, a1, dim):
    """Solution at a1 of dE/da = (sum_k gammas[k] a^(k+1)) / (sum_k betas[k] a^(k+2)) E, E(a0)=1.

    gammas: list of flat matrices (dim*dim mpc entries each), betas: list of mpf.  Returns flat tuple.
    The common factor a is cancelled: den(a) = a * sum beta_k a^k, num(a) = sum gamma_k a^k.
    """
    num = [tuple(g) for g in gammas]
    den = [mp.mpf(0)] + [mp.mpf(b) for b in betas]
    if mp.mpf(a0) == mp.mpf(a1):
        return _ident(dim)
    return solve_linear_ode(num, den, a0, a1, dim)


def ns_exact_ode(gamma, order, nf, a0, a1, aem=None):
    """Non-singlet exact solution (scalar) with truncated gamma and beta, via the ODE."""
    g = [(_c(x),) for x in gamma[:order]]
    return dglap_ref(g, beta_list(order, nf, aem), a0, a1, 1)[0]


def ns_exact_quad(gamma, order, nf, a0, a1, aem=None):
    """The same number as exp of a quadrature of gamma/beta."""
    mp.mp.dps = DPS
    g = [_c(x) for x in gamma[:order]]
    b = beta_list(order, nf, aem)

    def f(a):
        return sum(gk * a**k for k, gk in enumerate(g)) / (a * sum(bk * a**k for k, bk in enumerate(b)))

    a0 = mp.mpf(a0)
    a1 = mp.mpf(a1)
    if a0 == a1:
        return mp.mpc(1)
    # split geometrically: the integrand is ~ 1/a
    n = max(1, int(mp.ceil(abs(mp.log(a1 / a0)) / mp.log(2))))
    pts = [a0 * (a1 / a0) ** (mp.mpf(i) / n) for i in range(n + 1)]
    return mp.exp(mp.quad(f, pts))


def singlet_exact_ode(gammas2x2, order, nf, a0, a1):
    """Path-ordered singlet solution; gammas2x2[k] = [[g00,g01],[g10,g11]] of JSON complex."""
    g = [tuple(_c(x) for row in m for x in row) for m in gammas2x2[:order]]
    e = dglap_ref(g, beta_list(order, nf), a0, a1, 2)
    return [[e[0], e[1]], [e[2], e[3]]]


def to_c(z):
    """JSON complex -> python complex."""
    if isinstance(z, (list, tuple)):
        return complex(z[0], z[1])
    return complex(z)


selfcheck()
