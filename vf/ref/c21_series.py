"""Truncated power-series algebra over a free (non-commutative) algebra with exact rationals.

Written from the definitions only (no formula of eko is used):

  RGE          d a / d ln mu^2 = - sum_k beta_k a^(k+2)
  DGLAP        d f / d ln mu^2 = - gamma(a) f ,   gamma(a) = sum_k gamma_k a^(k+1)

An element is a dict  {(p, q, word): Fraction}  standing for  sum coeff * A^p * s^q * word  where
A is the expansion parameter (the coupling at the *shifted* scale), s a logarithm and ``word`` a tuple
of generator indices: the ordered (non-commuting) product gamma_{w0} gamma_{w1} ...; () is the unit.
All series are truncated at A^n.
"""

from fractions import Fraction as Fr


# ------------------------------------------------------------------ independent beta tables
# Typed from the literature (van Ritbergen, Vermaseren, Larin, hep-ph/9701390, eq. (8)-(9) with
# a = alpha_s/(4 pi), SU(3): beta0 = 11 - 2/3 nf, beta1 = 102 - 38/3 nf,
# beta2 = 2857/2 - 5033/18 nf + 325/54 nf^2), normalisation d a/d ln mu^2 = -beta0 a^2 - ...
def beta_qcd_rational(nf):
    nf = Fr(nf)
    return [
        Fr(11) - Fr(2, 3) * nf,
        Fr(102) - Fr(38, 3) * nf,
        Fr(2857, 2) - Fr(5033, 18) * nf + Fr(325, 54) * nf * nf,
    ]


# second entry: the same numbers in the colour-factor form (CA=3, CF=4/3, TF=nf/2), Tarasov-Vladimirov-
# Zharkov / Larin-Vermaseren form; cross-checked against the table above at import time so that a typo
# of mine aborts instead of raising an alarm.
def _beta_qcd_colour(nf):
    CA, CF, TF = Fr(3), Fr(4, 3), Fr(nf, 2)
    b0 = Fr(11, 3) * CA - Fr(4, 3) * TF
    b1 = Fr(34, 3) * CA**2 - Fr(20, 3) * CA * TF - 4 * CF * TF
    b2 = (
        Fr(2857, 54) * CA**3
        - Fr(1415, 27) * CA**2 * TF
        - Fr(205, 9) * CF * CA * TF
        + 2 * CF**2 * TF
        + Fr(44, 9) * CF * TF**2
        + Fr(158, 27) * CA * TF**2
    )
    return [b0, b1, b2]


# published decimals (alpha_s/(4pi) normalisation) for nf = 3..6, third witness
_BETA_DECIMALS = {
    3: (9.0, 64.0, 643.8333333333334),
    4: (8.333333333333334, 51.333333333333336, 406.35185185185185),
    5: (7.666666666666667, 38.666666666666664, 180.90740740740742),
    6: (7.0, 26.0, -32.5),
}
for _nf in range(0, 8):
    assert beta_qcd_rational(_nf) == _beta_qcd_colour(_nf), "beta table typo"
for _nf, _dec in _BETA_DECIMALS.items():
    for _x, _y in zip(beta_qcd_rational(_nf), _dec):
        assert abs(float(_x) - _y) < 1e-12 * max(1.0, abs(_y)), "beta decimal typo"


def beta0_qed_rational(nf, nl):
    """Lowest-order QED beta coefficient for a_em = alpha/(4 pi): d a_em/d ln mu^2 = -beta0 a_em^2 with
    beta0 = -4/3 (nl + Nc sum_q e_q^2); quark content u,d,s | c | b | t."""
    charges2 = [Fr(4, 9), Fr(1, 9), Fr(1, 9), Fr(4, 9), Fr(1, 9), Fr(4, 9)]  # u d s c b t
    return -Fr(4, 3) * (Fr(nl) + 3 * sum(charges2[:nf]))


assert beta0_qed_rational(5, 3) == -Fr(4, 3) * (3 + Fr(11, 3))  # sum e_q^2 (5 fl) = 11/9
assert beta0_qed_rational(3, 2) == -Fr(4, 3) * (2 + 2)


# ------------------------------------------------------------------ the algebra
def s_add(x, y, fy=1):
    out = dict(x)
    for k, v in y.items():
        nv = out.get(k, 0) + fy * v
        if nv == 0:
            out.pop(k, None)
        else:
            out[k] = nv
    return out


def s_mul(x, y, n):
    """Ordered product x*y truncated at A^n."""
    out = {}
    for (p1, q1, w1), c1 in x.items():
        for (p2, q2, w2), c2 in y.items():
            p = p1 + p2
            if p > n:
                continue
            k = (p, q1 + q2, w1 + w2)
            nv = out.get(k, 0) + c1 * c2
            if nv == 0:
                out.pop(k, None)
            else:
                out[k] = nv
    return out


def s_scale(x, f):
    return {k: v * f for k, v in x.items() if v * f != 0}


def s_int(x):
    """Integral over s from 0 to s."""
    return {(p, q + 1, w): c / (q + 1) for (p, q, w), c in x.items()}


def s_pow(x, k, n):
    out = {(0, 0, ()): Fr(1)}
    for _ in range(k):
        out = s_mul(out, x, n)
    return out


ONE = {(0, 0, ()): Fr(1)}
A = {(1, 0, ()): Fr(1)}


def coupling_backward(betas, n):
    """a(t - s) as a series in A = a(t) through A^n, from d a(t-s)/ds = + sum_k beta_k a^(k+2).

    Picard iteration of the integral equation a = A + int_0^s beta(a); every iteration fixes one
    more power of A, n iterations are enough (one more is made and required to be a fixed point).
    """
    betas = [Fr(b) for b in betas]
    a = dict(A)
    for _ in range(n + 1):
        prev = a
        rhs = {}
        for k, b in enumerate(betas):
            if k + 2 > n:
                break
            rhs = s_add(rhs, s_scale(s_pow(a, k + 2, n), b))
        a = s_add(A, s_int(rhs))
    assert a == prev, "Picard iteration did not converge"
    return a


def gamma_of_a(a, ngam, n):
    """sum_{k<ngam} g_k a^(k+1) truncated at A^n (a is scalar, so the position of g_k is immaterial)."""
    out = {}
    for k in range(ngam):
        if k + 1 > n:
            break
        gk = {(0, 0, (k,)): Fr(1)}
        out = s_add(out, s_mul(gk, s_pow(a, k + 1, n), n))
    return out


def reexpanded_gamma(betas, n):
    """Exponentiated prescription, from its definition.

    gamma(a(Q^2)) = sum_j gbar_j(L) A^(j+1) + O(A^(n+1)),  A = a(rho Q^2), L = ln rho.
    Returns list over j < n of {(q, k): coeff}:  gbar_j = sum coeff L^q gamma_k.
    """
    a = coupling_backward(betas, n)
    g = gamma_of_a(a, n, n)
    out = [dict() for _ in range(n)]
    for (p, q, w), c in g.items():
        assert len(w) == 1 and 1 <= p <= n
        out[p - 1][(q, w[0])] = c
    return out


def dyson_kernel(betas, n):
    """Expanded prescription, from its definition.

    K = E(Q^2 <- rho Q^2) = P exp( int_0^L gamma(a(t - s)) ds ),  t = ln(rho Q^2),  i.e. the solution of
    dG/ds = gamma(a(t-s)) G, G(0) = 1 (from df/dt = -gamma f), expanded in A = a(rho Q^2) through A^n
    with the matrices kept in order.  Returns list over j <= n of {(q, word): coeff}.
    """
    a = coupling_backward(betas, max(n, 1))
    gam = gamma_of_a(a, n, n)
    G = dict(ONE)
    for _ in range(n + 1):
        prev = G
        G = s_add(ONE, s_int(s_mul(gam, G, n)))
    assert G == prev, "Dyson iteration did not converge"
    out = [dict() for _ in range(n + 1)]
    for (p, q, w), c in G.items():
        out[p][(q, w)] = c
    return out


def series_inverse_noncomm(n):
    """Coefficients B_k of (1 + sum_{j>=1} a^j X_j)^(-1) = sum_k a^k B_k through a^n in the free algebra,
    from the recursion sum_{j=0}^k X_j B_{k-j} = 0 (X_0 = 1).  Returns list of {word: coeff} with
    word over indices j-1 (X_j <-> generator j-1)."""
    B = [{(): Fr(1)}]
    for k in range(1, n + 1):
        acc = {}
        for j in range(1, k + 1):
            for w, c in B[k - j].items():
                key = (j - 1,) + w
                acc[key] = acc.get(key, 0) - c
        B.append({w: c for w, c in acc.items() if c != 0})
    return B


# ------------------------------------------------------------------ commutative series in one variable
def poly_compose_trunc(f, g, n):
    """f(g(a)) through a^n for f, g lists of coefficients (index = power of a) whose entries are
    polynomials in L given as dicts {power: Fraction}."""

    def pmul(x, y):
        out = {}
        for i, c in x.items():
            for j, d in y.items():
                out[i + j] = out.get(i + j, 0) + c * d
        return {k: v for k, v in out.items() if v != 0}

    def padd(x, y):
        out = dict(x)
        for k, v in y.items():
            out[k] = out.get(k, 0) + v
        return {k: v for k, v in out.items() if v != 0}

    def smul(x, y):
        out = [dict() for _ in range(n + 1)]
        for i, ci in enumerate(x):
            if not ci:
                continue
            for j, dj in enumerate(y):
                if i + j > n or not dj:
                    continue
                out[i + j] = padd(out[i + j], pmul(ci, dj))
        return out

    g = (list(g) + [dict()] * (n + 1))[: n + 1]
    res = [dict() for _ in range(n + 1)]
    gp = [{0: Fr(1)}] + [dict() for _ in range(n)]  # g^0
    for k, fk in enumerate(f):
        if k > 0:
            gp = smul(gp, g)
        if not fk:
            continue
        for p in range(n + 1):
            if gp[p]:
                res[p] = padd(res[p], pmul(fk, gp[p]))
    return res
