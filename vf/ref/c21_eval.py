"""Numeric evaluation of the exact series tables of c21_series on lattices (vectorised oracle side)."""

import functools
from fractions import Fraction as Fr

import numpy as np

from vf.ref import c21_series as S


@functools.lru_cache(maxsize=None)
def qcd_betas(nf):
    return tuple(S.beta_qcd_rational(nf))


@functools.lru_cache(maxsize=None)
def reexp_table(betas, n):
    """tuple over j<n of tuple of (q, k, coeff Fraction): gbar_j = sum coeff L^q gamma_k."""
    tab = S.reexpanded_gamma(list(betas), n) if n > 0 else []
    return tuple(tuple((q, k, c) for (q, k), c in sorted(d.items())) for d in tab)


@functools.lru_cache(maxsize=None)
def dyson_table(betas, n):
    """tuple over j<=n of tuple of (q, word, coeff Fraction): K_j = sum coeff L^q word."""
    tab = S.dyson_kernel(list(betas), n)
    return tuple(tuple((q, w, c) for (q, w), c in sorted(d.items())) for d in tab)


def reexp_eval(betas, n, gam, L):
    """Oracle rows gbar_0..gbar_{n-1} and their absolute scale for gam (n, ...) complex, L float."""
    gam = np.asarray(gam, dtype=np.complex128)
    out = np.zeros_like(gam)
    scale = np.zeros(gam.shape, dtype=float)
    for j, row in enumerate(reexp_table(tuple(betas), n)):
        for q, k, c in row:
            f = float(c) * L**q
            out[j] = out[j] + f * gam[k]
            scale[j] = scale[j] + abs(f) * np.abs(gam[k])
    return out, scale


def _wordprod(word, gam, absval):
    M = None
    for k in word:
        g = np.abs(gam[k]) if absval else gam[k]
        M = g if M is None else M @ g
    return M


def dyson_terms(betas, n, gam, dim):
    """T[j][q] = sum_words coeff * product(word) for j<=n (arrays broadcastable to (B,dim,dim)), and the
    same with absolute values everywhere (scale of the rounding error)."""
    eye = np.eye(dim, dtype=np.complex128)
    T, Tabs = [], []
    for row in dyson_table(tuple(betas), n):
        tj, tja = {}, {}
        for q, w, c in row:
            M = eye if not w else _wordprod(w, gam, False)
            Ma = np.abs(eye) if not w else _wordprod(w, gam, True)
            tj[q] = tj.get(q, 0) + float(c) * M
            tja[q] = tja.get(q, 0) + abs(float(c)) * Ma
        T.append(tj)
        Tabs.append(tja)
    return T, Tabs


def dyson_term_value(Tj, a, L, j):
    """a^j * sum_q L^q T[j][q]."""
    acc = 0
    for q, M in Tj.items():
        acc = acc + (L**q) * M
    return (a**j) * acc


def frac(x):
    return Fr(x)
