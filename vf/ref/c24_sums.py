"""Independent references for C24 (harmonic sums, g-functions, logarithmic Mellin transforms).

Nothing here imports eko/ekore.  Three kinds of reference:

* exact rational nested sums  S_{a,b,..}(N) = sum_{j=1}^N sign(a)^j / j^|a| * S_{b,..}(j)   (Fraction)
* simple sums at complex argument from mpmath special functions (digamma / Hurwitz zeta / Lerch
  transcendent), used only for the right-hand side "term(N+1)" of recurrences and for the
  half-argument cache slots
* defining Mellin integrals by mpmath quadrature in t = -ln x
"""

from __future__ import annotations

import functools
import sys
from fractions import Fraction

import mpmath as mp

sys.setrecursionlimit(max(sys.getrecursionlimit(), 20000))

DPS = 25

# index tuples of all sums eko implements, by their name in ekore.harmonics
SUMS = {
    "S1": (1,),
    "S2": (2,),
    "S3": (3,),
    "S4": (4,),
    "S5": (5,),
    "Sm1": (-1,),
    "Sm2": (-2,),
    "Sm3": (-3,),
    "Sm4": (-4,),
    "Sm5": (-5,),
    "S21": (2, 1),
    "S2m1": (2, -1),
    "Sm21": (-2, 1),
    "Sm2m1": (-2, -1),
    "S31": (3, 1),
    "Sm31": (-3, 1),
    "Sm22": (-2, 2),
    "S211": (2, 1, 1),
    "Sm211": (-2, 1, 1),
}


@functools.lru_cache(maxsize=None)
def nested(idx: tuple, N: int) -> Fraction:
    """Exact nested harmonic sum from its definition."""
    if not idx:
        return Fraction(1)
    if N <= 0:
        return Fraction(0)
    a = idx[0]
    sign = 1 if a > 0 or N % 2 == 0 else -1
    return nested(idx, N - 1) + Fraction(sign, N ** abs(a)) * nested(idx[1:], N)


def fr2mp(q: Fraction):
    return mp.mpf(q.numerator) / mp.mpf(q.denominator)


# ------------------------------------------------------------------ simple sums, complex argument
def S(k: int, z):
    """S_k(z) = sum_{j>=1} (1/j^k - 1/(j+z)^k): digamma for k=1, Hurwitz zeta otherwise."""
    z = mp.mpmathify(z)
    if k == 1:
        return mp.digamma(z + 1) + mp.euler
    return mp.zeta(k) - mp.zeta(k, z + 1)


def Sm(k: int, z, eta: int):
    """S_{-k} continued from even (eta=+1) or odd (eta=-1) integers.

    sum_{j=1}^N (-1)^j/j^k = -eta_D(k) + (-1)^N * sum_{m>=0} (-1)^m/(N+1+m)^k
    """
    z = mp.mpmathify(z)
    return -mp.altzeta(k) + eta * _lerch(k, z + 1, mp.mp.prec)


@functools.lru_cache(maxsize=4096)
def _lerch(k, z, prec):
    """Phi(-1, k, z) (mpmath evaluates it by quadrature: ~0.3 s); independent of the parity, so both
    parities and the cache-slot references of one lattice point share it.  ``prec`` keys the working precision."""
    return mp.lerchphi(-1, k, z)


def S11(z):
    """S_{1,1}(z) = (S_1^2 + S_2)/2 (symmetric-sum identity, exact at integers)."""
    return (S(1, z) ** 2 + S(2, z)) / 2


def term(idx: tuple, z, eta: int):
    """Summand of S_idx at (continued) index z, parity eta = (-1)^z."""
    z = mp.mpmathify(z)
    a = idx[0]
    pref = (1 if a > 0 else eta) / z ** abs(a)
    rest = idx[1:]
    if not rest:
        inner = 1
    elif rest == (1,):
        inner = S(1, z)
    elif rest == (2,):
        inner = S(2, z)
    elif rest == (-1,):
        inner = Sm(1, z, eta)
    elif rest == (1, 1):
        inner = S11(z)
    else:  # pragma: no cover
        raise KeyError(rest)
    return pref * inner


# ------------------------------------------------------------------ defining integrals
def _S12(x):
    # Nielsen polylogarithm S_{1,2}(x) = 1/2 int_0^x ln^2(1-t)/t dt
    return (
        -mp.polylog(3, 1 - x)
        + mp.log(1 - x) * mp.polylog(2, 1 - x)
        + mp.log(x) * mp.log(1 - x) ** 2 / 2
        + mp.zeta(3)
    )


def _S12_quad(x):
    return mp.quad(lambda t: mp.log(1 - t) ** 2 / t, [0, x]) / 2


# name -> (x-space function, power convention p: transform is int_0^1 x^(N-1+p) f(x) dx)
G_DEF = {
    "g3": (lambda x: mp.polylog(2, x) / (1 + x), 0),
    "g4": (lambda x: mp.polylog(2, -x) / (1 + x), 1),
    "g5": (lambda x: mp.polylog(2, x) * mp.log(x) / (1 + x), 1),
    "g6": (lambda x: mp.polylog(3, x) / (1 + x), 1),
    "g8": (lambda x: _S12(x) / (1 + x), 1),
    "g18": (lambda x: -(mp.polylog(2, x) - mp.zeta(2)) / (1 - x), 1),
    "g19": (lambda x: -(mp.polylog(2, -x) + mp.zeta(2) / 2) / (1 - x), 1),
    "g21": (lambda x: -(_S12(x) - mp.zeta(3)) / (1 - x), 1),
    "g22": (lambda x: -(mp.polylog(2, x) * mp.log(x)) / (1 - x), 1),
}


def mellin_t(f, N, p=0, dps=DPS):
    """int_0^1 x^(N-1+p) f(x) dx = int_0^oo exp(-(N+p) t) f(exp(-t)) dt, panels follow the oscillation."""
    with mp.workdps(dps):
        N = mp.mpmathify(N) + p
        re, im = float(N.real), abs(float(N.imag))
        T = (2.4 * dps + 5) / re  # exp(-re*T) < 10^-dps
        # panels: fine near t=0 (end-point log singularities), then at most ~1.5 oscillations each
        w = min(1.0, 1.0 / re) if im == 0 else min(1.0, 1.0 / re, 9.0 / im)
        pts = [mp.mpf(0), mp.mpf(w) / 8, mp.mpf(w) / 2]
        t = w
        while t < T:
            pts.append(mp.mpf(t))
            t += w if t < 8 * w or im > 0 else 2 * w
        pts.append(mp.mpf(T))
        g = lambda t: mp.exp(-N * t) * f(mp.exp(-t))  # noqa: E731
        return mp.quad(g, pts)


def g_integral(name, N, dps=DPS):
    f, p = G_DEF[name]
    return mellin_t(f, N, p, dps)


def log_integral(k: int, a: int, N, dps=DPS):
    """int_0^1 x^(N-1) (1-x)^a ln^k(1-x) dx by tanh-sinh quadrature in x (end-point singularities)."""
    with mp.workdps(dps):
        N = mp.mpmathify(N)
        im = abs(float(N.imag))
        f = lambda x: x ** (N - 1) * (1 - x) ** a * mp.log(1 - x) ** k  # noqa: E731
        pts = [mp.mpf(0)]
        if im > 0:
            # x^(i im) = exp(i im ln x): split at x = exp(-2 pi j / im) down to where x^(Re N) is negligible
            cut = []
            j = 1
            while True:
                x = mp.e ** (-2 * mp.pi * j / im)
                if float(N.real) * float(-mp.log(x)) > 2.4 * dps + 5 or j > 400:
                    break
                cut.append(x)
                j += 1
            pts += sorted(cut)
        pts += [mp.mpf(1) / 2, mp.mpf(1)] if not pts[1:] or pts[-1] < 0.5 else [mp.mpf(1)]
        pts = sorted(set(pts))
        return mp.quad(f, pts)


def log_beta(k: int, a: int, N, dps=DPS):
    """Same integral as d^k/de^k B(N, 1+a+e) at e=0 (cross-check of the quadrature)."""
    with mp.workdps(dps + 10):
        N = mp.mpmathify(N)
        return mp.diff(lambda e: mp.beta(N, 1 + a + e), 0, k)
