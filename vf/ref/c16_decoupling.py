"""Decoupling relations for alpha_s and for the MSbar quark masses: literature + RG derivation.

Conventions (those of eko): a = alpha_s/(4 pi); nl = number of flavours of the lower patch;
L = ln(mu^2 / m_h^2) with m_h the pole mass (POLE) or the running mass m_h(mu) (MSBAR).

    up relation     a^(nl+1) = a^(nl) * (1 + sum_{n=1..3} sum_{k=0..n} c[n][k] (a^(nl))^n L^k)
    mass, up        m^(nl+1) = m^(nl) * (1 + sum_{n=2..3} sum_k cm[n][k] (a^(nl+1))^n L^k)

Two independent entries, cross-checked at import (a typo of mine aborts):
  (A) the published downward relations, typed in alpha_s/pi units including all logarithms
      - Chetyrkin, Kniehl, Steinhauser, PRL 79 (1997) 2184 / NPB 510 (1998) 61 (hep-ph/9706430, hep-ph/9708255),
        as collected in RunDec (hep-ph/0004189) eqs. (20), (22) [coupling], (26) [mass];
      inverted with a truncated-series inversion written here;
  (B) only the non-logarithmic constants of (A) + the renormalisation group: the L-dependence is
      *derived* from  d a'/dt = beta'(a'),  d a/dt = beta(a),  dL/dt = 1 (+ 2 gamma_m'(a') for m_h(mu)),
      with beta / gamma_m from the independent table c20_tables.
(A) == (B) for every logarithmic coefficient is required exactly (40 digits).
"""

import mpmath as mp

from . import c20_tables as tab

mp.mp.dps = 40
NMAX = 5  # keep powers a^0..a^5

Z2, Z3, Z4 = mp.zeta(2), mp.zeta(3), mp.zeta(4)
LN2 = mp.log(2)
# B4 = 16 Li4(1/2) - 13/2 zeta4 - 4 zeta2 ln^2 2 + 2/3 ln^4 2
B4 = 16 * mp.polylog(4, mp.mpf(1) / 2) - mp.mpf(13) / 2 * Z4 - 4 * Z2 * LN2**2 + mp.mpf(2) / 3 * LN2**4


def q(n, d=1):
    return mp.mpf(n) / d


# ------------------------------------------------------------------ tiny bivariate series algebra
# a series is {(n, k): coeff} meaning coeff * a^n L^k, truncated at n <= NMAX
def s_add(*ss):
    out = {}
    for s in ss:
        for key, v in s.items():
            out[key] = out.get(key, 0) + v
    return out


def s_scale(s, c):
    return {k: v * c for k, v in s.items()}


def s_mul(x, y):
    out = {}
    for (n1, k1), v1 in x.items():
        for (n2, k2), v2 in y.items():
            n = n1 + n2
            if n <= NMAX:
                out[(n, k1 + k2)] = out.get((n, k1 + k2), 0) + v1 * v2
    return out


def s_pow(x, p):
    out = {(0, 0): mp.mpf(1)}
    for _ in range(p):
        out = s_mul(out, x)
    return out


def s_da(x):
    return {(n - 1, k): v * n for (n, k), v in x.items() if n >= 1}


def s_dL(x):
    return {(n, k - 1): v * k for (n, k), v in x.items() if k >= 1}


def s_compose(f, g):
    """f(a) = sum f_n a^n (dict n->coeff, may carry L through tuples) evaluated at a -> g."""
    out = {}
    for (n, k), v in f.items():
        out = s_add(out, s_mul({(0, k): v}, s_pow(g, n)))
    return out


def s_order(x, n):
    """polynomial in L (dict k->coeff) multiplying a^n"""
    return {k: v for (m, k), v in x.items() if m == n}


def s_inverse(h):
    """g with h(g(a)) = a, for h = a + O(a^2)."""
    a = {(1, 0): mp.mpf(1)}
    g = dict(a)
    for _ in range(NMAX + 1):
        hg = s_compose(h, g)
        g = s_add(g, a, s_scale(hg, -1))
    return g


def beta_series(nf):
    return {(j + 2, 0): -tab.beta_qcd((j + 2, 0), nf) for j in range(4)}


def gamma_series(nf):
    """gamma_m(a) = sum gamma_n a^(n+1)  (d ln m/dt = -gamma_m)."""
    return {(j, 0): tab.gamma_m(j, nf) for j in range(1, 5)}


# ------------------------------------------------------------------ (A) published downward relations
def _pi_units(table):
    """{(n,k): coeff of (alpha_s/pi)^n L^k}  ->  coefficients for a = alpha_s/(4 pi)."""
    return {(n, k): v * mp.mpf(4) ** n for (n, k), v in table.items()}


def zeta_g2_published(scheme, nl):
    """alpha_s^(nl)/alpha_s^(nl+1) as a series in a' = a^(nl+1):  {(n,k): d_nk}."""
    if scheme == "POLE":
        t = {
            (1, 1): -q(1, 6),
            (2, 0): -q(7, 24),
            (2, 1): -q(19, 24),
            (2, 2): q(1, 36),
            (3, 0): -q(58933, 124416)
            - q(2, 3) * Z2 * (1 + LN2 / 3)
            - q(80507, 27648) * Z3
            + nl * (q(2479, 31104) + Z2 / 9),
            (3, 1): -q(8521, 1728) + nl * q(409, 1728),
            (3, 2): -q(131, 576),
            (3, 3): -q(1, 216),
        }
    elif scheme == "MSBAR":
        t = {
            (1, 1): -q(1, 6),
            (2, 0): q(11, 72),
            (2, 1): -q(11, 24),
            (2, 2): q(1, 36),
            (3, 0): q(564731, 124416) - q(82043, 27648) * Z3 - nl * q(2633, 31104),
            (3, 1): -q(955, 576) + nl * q(67, 576),
            (3, 2): q(53, 576) - nl * q(1, 36),
            (3, 3): -q(1, 216),
        }
        # (the numbers -2191/576 L - 511/576 L^2 + 281/1728 nl L, with 19/24 L at second order, belong
        #  to the *scale-invariant* mass m_h(m_h) version of the relation, not to m_h(mu))
    else:
        raise KeyError(scheme)
    return _pi_units(t)


# printed decimals of the constants (alpha_s/pi units) - second entry for the constants
ZETA_G2_CONST_DEC = {
    ("POLE", 2): ("-0.2917", "0"),
    ("POLE", 3): ("-5.3239", "0.2625"),
    ("MSBAR", 2): ("0.1528", "0"),
    ("MSBAR", 3): ("0.9721", "-0.0847"),
}


def zeta_m_published(nl):
    """m^(nl)/m^(nl+1) as a series in a' = a^(nl+1), L = ln(mu^2/m_h(mu)^2)."""
    t = {
        (2, 0): q(89, 432),
        (2, 1): -q(5, 36),
        (2, 2): q(1, 12),
        (3, 0): q(2951, 2916) - q(407, 864) * Z3 + q(5, 4) * Z4 - B4 / 36 + nl * (q(1327, 11664) - q(2, 27) * Z3),
        (3, 1): -q(311, 2592) - q(5, 6) * Z3 - nl * q(53, 432),
        (3, 2): q(175, 432),
        (3, 3): q(29, 216) - nl * q(1, 108),
    }
    return _pi_units(t)


ZETA_M_CONST_DEC = {2: ("0.2060", "0"), 3: ("1.8476", "0.0247")}


def _as_relation(d):
    """{(n,k): d_nk} relative coefficients -> series a*(1 + sum d a^n L^k)."""
    out = {(1, 0): mp.mpf(1)}
    for (n, k), v in d.items():
        out[(n + 1, k)] = v
    return out


def _rel_coeffs(g):
    return {(n - 1, k): v for (n, k), v in g.items() if n >= 2 and n - 1 <= 3}


def coupling_up_published(scheme, nl):
    """c[n][k] of the up relation from the published down relation by series inversion."""
    return _rel_coeffs(s_inverse(_as_relation(zeta_g2_published(scheme, nl))))


def coupling_down_published(scheme, nl):
    return dict(zeta_g2_published(scheme, nl))


def mass_up_published(nl):
    """cm[n][k]: m^(nl+1) = m^(nl) (1 + sum cm a'^n L^k), a' = a^(nl+1): reciprocal of zeta_m."""
    z = {(0, 0): mp.mpf(1)}
    z.update(zeta_m_published(nl))
    # 1/z by Neumann series
    d = dict(z)
    d[(0, 0)] = 0
    inv = {(0, 0): mp.mpf(1)}
    term = {(0, 0): mp.mpf(1)}
    for _ in range(NMAX):
        term = s_scale(s_mul(term, d), -1)
        inv = s_add(inv, term)
    return {(n, k): v for (n, k), v in inv.items() if 1 <= n <= 3}


# ------------------------------------------------------------------ (B) RG derivation of the logs
def coupling_up_rg(scheme, nl, consts=None):
    """Up-relation coefficients with constants c_n0 given, logs derived from the RGEs."""
    if consts is None:
        pub = coupling_up_published(scheme, nl)
        consts = {n: pub.get((n, 0), mp.mpf(0)) for n in (1, 2, 3)}
    beta_lo, beta_hi = beta_series(nl), beta_series(nl + 1)
    gam_hi = gamma_series(nl + 1)
    a = {(1, 0): mp.mpf(1)}
    g = dict(a)
    for n in (1, 2, 3):
        g[(n + 1, 0)] = consts[n]
        lhs = s_compose(beta_hi, g)
        rhs = s_mul(s_da(g), s_compose(beta_lo, a))
        D = {(0, 0): mp.mpf(1)}
        if scheme == "MSBAR":
            D = s_add(D, s_scale(s_compose(gam_hi, g), 2))
        rhs = s_add(rhs, s_mul(s_dL(g), D))
        E = s_order(s_add(lhs, s_scale(rhs, -1)), n + 1)
        # E must be cancelled by the yet missing  sum_k k c_nk L^(k-1) a^(n+1)
        for k, v in E.items():
            g[(n + 1, k + 1)] = g.get((n + 1, k + 1), 0) + v / (k + 1)
    return _rel_coeffs(g)


def mass_up_rg(nl, consts=None):
    """Mass up-relation (series in a' = a^(nl+1)), logs derived from RG invariance.

    m' = m * zeta(a', L);  d ln zeta/dt = -gamma'(a') + gamma(a(a',L));  dL/dt = 1 + 2 gamma'(a').
    """
    if consts is None:
        pub = mass_up_published(nl)
        consts = {n: pub.get((n, 0), mp.mpf(0)) for n in (1, 2, 3)}
    beta_hi = beta_series(nl + 1)
    gam_lo, gam_hi = gamma_series(nl), gamma_series(nl + 1)
    ap = {(1, 0): mp.mpf(1)}
    a_of_ap = _as_relation(coupling_down_published("MSBAR", nl))  # a^(nl) in terms of a'
    src = s_add(s_scale(s_compose(gam_hi, ap), -1), s_compose(gam_lo, a_of_ap))
    D = s_add({(0, 0): mp.mpf(1)}, s_scale(s_compose(gam_hi, ap), 2))
    z = {(0, 0): mp.mpf(1)}
    for n in (1, 2, 3):
        z[(n, 0)] = consts[n]
        lhs = s_add(s_mul(s_da(z), s_compose(beta_hi, ap)), s_mul(s_dL(z), D))
        rhs = s_mul(z, src)
        E = s_order(s_add(rhs, s_scale(lhs, -1)), n)
        for k, v in E.items():
            z[(n, k + 1)] = z.get((n, k + 1), 0) + v / (k + 1)
    return {(n, k): v for (n, k), v in z.items() if 1 <= n <= 3}


# ------------------------------------------------------------------ evaluation helpers
def rel_factor(coeffs, a, L, order):
    """1 + sum_{n<order} sum_k c_nk a^n L^k   (what a code working at `order` loops applies)."""
    a, L = mp.mpf(a), mp.mpf(L)
    f = mp.mpf(1)
    for (n, k), v in coeffs.items():
        if 1 <= n < order:
            f += v * a**n * L**k
    return f


def series_inverse_rel(coeffs):
    """Relative coefficients of the perturbative inverse of a -> a(1 + sum c a^n L^k)."""
    return _rel_coeffs(s_inverse(_as_relation(coeffs)))


class TableError(Exception):
    pass


_checked = False


def selfcheck():
    global _checked
    if _checked:
        return
    tol = mp.mpf(10) ** (-30)

    def half_ulp(s):
        s = s.lstrip("-")
        return mp.mpf(10) ** (-len(s.split(".")[1])) * mp.mpf("0.5000001") if "." in s else mp.mpf("0.5")

    # constants: exact form vs printed decimals (alpha_s/pi units)
    for (scheme, n), (c0, c1) in ZETA_G2_CONST_DEC.items():
        v0 = zeta_g2_published(scheme, 0)[(n, 0)] / mp.mpf(4) ** n
        v1 = zeta_g2_published(scheme, 1)[(n, 0)] / mp.mpf(4) ** n - v0
        if abs(v0 - mp.mpf(c0)) > half_ulp(c0) or abs(v1 - mp.mpf(c1)) > (half_ulp(c1) if c1 != "0" else tol):
            raise TableError(f"zeta_g^2 {scheme} order {n}: {v0} + {v1} nl vs printed {c0} + {c1} nl")
    for n, (c0, c1) in ZETA_M_CONST_DEC.items():
        v0 = zeta_m_published(0)[(n, 0)] / mp.mpf(4) ** n
        v1 = zeta_m_published(1)[(n, 0)] / mp.mpf(4) ** n - v0
        if abs(v0 - mp.mpf(c0)) > half_ulp(c0) or abs(v1 - mp.mpf(c1)) > (half_ulp(c1) if c1 != "0" else tol):
            raise TableError(f"zeta_m order {n}: {v0} + {v1} nl vs printed {c0} + {c1} nl")
    # logs: published (A) vs RG-derived (B)
    for nl in (3, 4, 5):
        for scheme in ("POLE", "MSBAR"):
            A = coupling_up_published(scheme, nl)
            Bc = coupling_up_rg(scheme, nl)
            for key in set(A) | set(Bc):
                if abs(A.get(key, 0) - Bc.get(key, 0)) > tol:
                    raise TableError(
                        f"coupling decoupling {scheme} nl={nl} a^{key[0]} L^{key[1]}: published "
                        f"{mp.nstr(A.get(key, 0), 15)} vs RG-derived {mp.nstr(Bc.get(key, 0), 15)}"
                    )
        A = mass_up_published(nl)
        Bm = mass_up_rg(nl)
        for key in set(A) | set(Bm):
            if abs(A.get(key, 0) - Bm.get(key, 0)) > tol:
                raise TableError(
                    f"mass decoupling nl={nl} a^{key[0]} L^{key[1]}: published {mp.nstr(A.get(key, 0), 15)} "
                    f"vs RG-derived {mp.nstr(Bm.get(key, 0), 15)}"
                )
    _checked = True


selfcheck()
