"""Canonical, NaN-aware, bit-exact views of eko structures (shared by C36, C40, C41).

Written from the data definitions only: a structure is reduced to nested lists / dicts of
Python scalars; floats are kept by their IEEE bits (so -0.0 != 0.0 and every NaN payload is
distinguished for arrays) or, for *card values*, by value with all NaNs identified (a card's
"not a number" marker has no meaningful payload and YAML does not carry one).
"""

from __future__ import annotations

import dataclasses
import enum
import math
import struct

import numpy as np


def fbits(x: float) -> str:
    return struct.pack(">d", float(x)).hex()


def canon(o, bitwise=False):
    """Reduce any eko card/metadata object to comparable plain data.

    tuple and list are identified (YAML has one sequence type and the dataclasses convert),
    bool stays distinct from int, Enum members by class+name, XGrid by (bits of the raw grid, log
    flag), arrays by (dtype kind, shape, bytes).
    """
    from eko.interpolation import XGrid

    if isinstance(o, XGrid):
        return {"__xgrid__": np.asarray(o.raw, dtype=float).tobytes().hex(), "log": bool(o.log)}
    if dataclasses.is_dataclass(o) and not isinstance(o, type):
        return {
            "__dc__": type(o).__name__,
            **{f.name: canon(getattr(o, f.name), bitwise) for f in dataclasses.fields(o) if not f.name.startswith("_")},
        }
    if isinstance(o, enum.Enum):
        return {"__enum__": type(o).__name__, "name": o.name}
    if isinstance(o, np.ndarray):
        return {"__array__": o.dtype.kind, "shape": list(o.shape), "bytes": np.ascontiguousarray(o).tobytes().hex()}
    if isinstance(o, (np.bool_, bool)):
        return bool(o)
    if isinstance(o, (np.integer,)):
        return int(o)
    if isinstance(o, (np.floating, float)):
        f = float(o)
        if bitwise:
            return {"__f__": fbits(f)}
        if math.isnan(f):
            return "nan"
        return f
    if isinstance(o, int):
        return int(o)
    if isinstance(o, (list, tuple)):
        return [canon(x, bitwise) for x in o]
    if isinstance(o, dict):
        return {str(k): canon(v, bitwise) for k, v in sorted(o.items(), key=lambda kv: str(kv[0]))}
    if o is None or isinstance(o, str):
        return o
    return {"__repr__": repr(o)}


def first_diff(a, b, path=""):
    """Path and values of the first difference between two canonical structures, or None.

    Numbers compare by value *and* kind (bool / int / float are kept apart except that an int
    and a float of equal value are the same number: YAML readers and eko both treat `1` and
    `1.0` in a float field alike).
    """
    if isinstance(a, dict) and isinstance(b, dict):
        for k in sorted(set(a) | set(b)):
            if k not in a or k not in b:
                return f"{path}/{k}: {'missing' if k not in a else a[k]!r} vs {'missing' if k not in b else b[k]!r}"
            d = first_diff(a[k], b[k], f"{path}/{k}")
            if d:
                return d
        return None
    if isinstance(a, list) and isinstance(b, list):
        if len(a) != len(b):
            return f"{path}: length {len(a)} vs {len(b)}"
        for i, (x, y) in enumerate(zip(a, b)):
            d = first_diff(x, y, f"{path}[{i}]")
            if d:
                return d
        return None
    if isinstance(a, bool) or isinstance(b, bool):
        return None if (isinstance(a, bool) and isinstance(b, bool) and a == b) else f"{path}: {a!r} vs {b!r}"
    if isinstance(a, (int, float)) and isinstance(b, (int, float)):
        return None if a == b else f"{path}: {a!r} vs {b!r}"
    return None if (type(a) is type(b) and a == b) else f"{path}: {a!r} vs {b!r}"


def plain_violation(o, path=""):
    """None if `o` consists of exactly the YAML-native Python types, else where it does not."""
    if type(o) is dict:
        for k, v in o.items():
            if type(k) not in (str, int, float, bool):
                return f"{path}: key {k!r} of type {type(k).__name__}"
            d = plain_violation(v, f"{path}/{k}")
            if d:
                return d
        return None
    if type(o) is list:
        for i, v in enumerate(o):
            d = plain_violation(v, f"{path}[{i}]")
            if d:
                return d
        return None
    if o is None or type(o) in (str, int, float, bool):
        return None
    return f"{path}: {o!r} of type {type(o).__module__}.{type(o).__name__}"


# ----------------------------------------------------------------------------- operator payloads
SPECIAL_BITS = {
    "pzero": 0x0000000000000000,
    "nzero": 0x8000000000000000,
    "pinf": 0x7FF0000000000000,
    "ninf": 0xFFF0000000000000,
    "qnan": 0x7FF8000000000000,
    "qnan_payload": 0x7FF8000000000123,
    "neg_qnan": 0xFFF8000000000ABC,
    "snan": 0x7FF0000000000001,
    "denorm_min": 0x0000000000000001,
    "denorm": 0x000FFFFFFFFFFFFF,
    "max": 0x7FEFFFFFFFFFFFFF,
    "neg_max": 0xFFEFFFFFFFFFFFFF,
    "tiny": 0x0010000000000000,
    "one_plus_ulp": 0x3FF0000000000001,
}


def payload(shape, klass: str, salt: int) -> np.ndarray:
    """Deterministic float64 array of the given shape.

    klass: "finite"  smooth values, all distinct, both signs
           "special" finite background with every special bit pattern planted at fixed positions
           "zeros"   alternating +0.0 / -0.0
           "fortran" as "finite" but Fortran-ordered (non C-contiguous) memory
           "view"    as "finite" but a strided, non-contiguous view
    """
    n = int(np.prod(shape))
    idx = np.arange(n, dtype=np.float64)
    base = np.sin(0.37 * idx + salt) * np.exp(((idx + 3 * salt) % 17) - 8.0) + (salt + 1) * 1e-3
    a = base.reshape(shape)
    if klass == "finite":
        return a.copy()
    if klass == "special":
        flat = a.copy().reshape(-1)
        bits = flat.view(np.uint64)
        for j, (_, pattern) in enumerate(sorted(SPECIAL_BITS.items())):
            bits[(j * 5 + salt) % n] = np.uint64(pattern)
        return flat.reshape(shape)
    if klass == "zeros":
        flat = np.zeros(n)
        flat[1::2] = -0.0
        if salt % 2:
            flat = -flat
        return flat.reshape(shape)
    if klass == "fortran":
        return np.asfortranarray(a)
    if klass == "view":
        big = np.repeat(a.reshape(-1), 2)
        big[1::2] = -1.0
        return big[::2].reshape(shape)
    raise ValueError(klass)


def same_bits(got: np.ndarray, want: np.ndarray):
    """None if identical dtype, shape and bytes (C order), else a description."""
    if not isinstance(got, np.ndarray):
        return f"not an array: {type(got).__name__}"
    if got.dtype != want.dtype:
        return f"dtype {got.dtype} vs {want.dtype}"
    if got.shape != want.shape:
        return f"shape {got.shape} vs {want.shape}"
    gb, wb = got.tobytes(), want.tobytes()
    if gb == wb:
        return None
    g = np.frombuffer(gb, dtype=np.uint64)
    w = np.frombuffer(wb, dtype=np.uint64)
    i = int(np.nonzero(g != w)[0][0])
    return f"{int((g != w).sum())} element(s) differ, first at flat index {i}: bits {int(g[i]):#018x} vs {int(w[i]):#018x}"
