"""C47: solve one config in this (fresh) process under a chosen *environment* and print a digest of the archive.

usage: python -m vf.ref.c47_digest '<json config>' <scratch dir> ['<json environment>']

The digest is a superset of vf.tools.solve_digest.digest: `members` is exactly that digest (names ->
"dir" | parsed YAML as canonical JSON | {array hashes, compressed hash} | sha256), `yaml_raw` adds the
sha256 of the raw bytes of every YAML member, `order` the member names in archive order.

The environment record varies what differs between two runs of the same cards besides the hash seed;
it is applied BEFORE eko is imported:
   time_shift_s : float   every clock of the process (time.time, time_ns, localtime, gmtime, strftime, ctime, asctime,
                          datetime.now/utcnow/today, date.today) is shifted by that many seconds
   location     : str     run in a fresh working directory <scratch>/<location>/cwd, TMPDIR=<scratch>/<location>/tmp,
                          output archive <scratch>/<location>/out/<location>-<pid>.tar, other USER/LOGNAME/HOSTNAME
   listing      : "reversed" | "sorted"   order in which every directory listing (Path.iterdir, os.listdir) is returned
"""

import hashlib
import io
import json
import os
import pathlib
import shutil
import sys
import tarfile


def digest(path):
    import lz4.frame
    import numpy as np
    import yaml

    out, raw_yaml, order = {}, {}, []
    with tarfile.open(path) as tar:
        for m in tar.getmembers():
            name = m.name
            order.append(name)
            if m.isdir():
                out[name] = "dir"
                continue
            data = tar.extractfile(m).read()
            if name.endswith(".lz4"):
                raw = lz4.frame.decompress(data)
                content = np.load(io.BytesIO(raw))
                if isinstance(content, np.ndarray):
                    h = {"operator": hashlib.sha256(content.tobytes()).hexdigest()}
                else:
                    h = {k: hashlib.sha256(content[k].tobytes()).hexdigest() for k in sorted(content.files)}
                h["compressed"] = hashlib.sha256(data).hexdigest()
                out[name] = h
            elif name.endswith(".yaml"):
                out[name] = json.dumps(yaml.safe_load(data), sort_keys=True, default=str)
                raw_yaml[name] = hashlib.sha256(data).hexdigest()
            else:
                out[name] = hashlib.sha256(data).hexdigest()
    return {"members": out, "yaml_raw": raw_yaml, "order": order}


def shift_clocks(shift):
    """Shift every clock the standard library offers by `shift` seconds (process-wide)."""
    import datetime
    import time

    real_time, real_ns = time.time, time.time_ns
    real_local, real_gm, real_strftime = time.localtime, time.gmtime, time.strftime
    real_ctime, real_asctime = time.ctime, time.asctime

    def now():
        return real_time() + shift

    time.time = now
    time.time_ns = lambda: real_ns() + int(shift * 1e9)
    time.localtime = lambda secs=None: real_local(now() if secs is None else secs)
    time.gmtime = lambda secs=None: real_gm(now() if secs is None else secs)
    time.strftime = lambda fmt, t=None: real_strftime(fmt, real_local(now()) if t is None else t)
    time.ctime = lambda secs=None: real_ctime(now() if secs is None else secs)
    time.asctime = lambda t=None: real_asctime(real_local(now()) if t is None else t)

    real_dt, real_date = datetime.datetime, datetime.date
    delta = datetime.timedelta(seconds=shift)

    class ShiftedDatetime(real_dt):
        @classmethod
        def now(cls, tz=None):
            return real_dt.now(tz) + delta

        @classmethod
        def utcnow(cls):
            return real_dt.now(datetime.timezone.utc).replace(tzinfo=None) + delta

        @classmethod
        def today(cls):
            return real_dt.now() + delta

    class ShiftedDate(real_date):
        @classmethod
        def today(cls):
            return (real_dt.now() + delta).date()

    datetime.datetime = ShiftedDatetime
    datetime.date = ShiftedDate


def move(scratch, tag):
    """Fresh cwd / TMPDIR / output directory, other user and host names. -> output directory."""
    import getpass
    import platform
    import socket
    import tempfile

    base = scratch / f"{tag}-{os.getpid()}"
    for sub in ("cwd", "tmp", "out"):
        (base / sub).mkdir(parents=True, exist_ok=True)
    os.chdir(base / "cwd")
    os.environ["TMPDIR"] = str(base / "tmp")
    tempfile.tempdir = None
    for k in ("USER", "LOGNAME", "USERNAME"):
        os.environ[k] = "c47-other-user"
    os.environ["HOSTNAME"] = "c47-other-host"
    os.environ["HOME"] = str(base / "cwd")
    socket.gethostname = lambda: "c47-other-host"
    platform.node = lambda: "c47-other-host"
    getpass.getuser = lambda: "c47-other-user"
    return base


def order_listings(how):
    """Every directory listing comes back sorted by name, ascending or descending."""
    real_iterdir, real_listdir = pathlib.Path.iterdir, os.listdir
    rev = how == "reversed"

    def iterdir(self):
        return iter(sorted(real_iterdir(self), key=lambda p: p.name, reverse=rev))

    def listdir(path="."):
        return sorted(real_listdir(path), reverse=rev)

    pathlib.Path.iterdir = iterdir
    os.listdir = listdir


def main():
    cfg = json.loads(sys.argv[1])
    scratch = pathlib.Path(sys.argv[2])
    env = json.loads(sys.argv[3]) if len(sys.argv) > 3 else {}
    unknown = set(env) - {"time_shift_s", "location", "listing"}
    if unknown:
        raise SystemExit(f"unknown environment keys {unknown}")
    if "eko" in sys.modules:
        raise SystemExit("eko imported before the environment is set up")
    base = None
    p = scratch / f"digest-{os.getpid()}.tar"
    if env.get("time_shift_s"):
        shift_clocks(float(env["time_shift_s"]))
    if env.get("location"):
        base = move(scratch, str(env["location"]))
        p = base / "out" / f"{env['location']}-{os.getpid()}.tar"
    if env.get("listing"):
        order_listings(env["listing"])
    from vf.core import cards

    try:
        cards.solve(cfg, p)
        print("DIGEST " + json.dumps(digest(p), sort_keys=True))
    finally:
        if p.exists():
            p.unlink()
        if base is not None:
            os.chdir(scratch)
            shutil.rmtree(base, ignore_errors=True)


if __name__ == "__main__":
    main()
