"""Independent reference for the Mellin inversion of a piecewise polynomial in l = ln x (C35).

Written from the definitions, sharing no formula with eko:

* a basis function is given by its x-space pieces  p(l) = sum_i c_i l^i  on  (lmin, lmax];
* for one piece and an inversion point lx = ln x, repeated integration by parts gives

      int_{-inf}^{L} e^{N (l - lx)} p(l) dl = e^{N (L - lx)} sum_k (-1)^k p^(k)(L) / N^(k+1)   =: E_L(N)

  (Re N > 0, continued analytically).  The Mellin transform of the piece times x^(-N) is
  E_lmax(N) - E_lmin(N), an entire function.  Along a contour that is open to the left and passes to the
  right of N = 0, E_L integrates to 0 if L < lx (close to the right) -- so pieces below x drop out and so
  does the lower end point of the piece that contains x -- leaving exactly p(lx) from the residue at 0;
* the Talbot contour  N(u) = o + r (theta cot theta + i theta), theta = pi (2u - 1)  is symmetric under
  u -> 1-u (complex conjugation), hence  f(x) = 1/(2 pi i) int x^(-N) F(N) dN = (1/pi) Im int_{1/2}^{1} F(N(u)) N'(u) du.

The truncated integral (upper limit 1 - cut, as the solver uses) and the remainder are computed with composite
Gauss-Legendre rules (nodes from mpmath at 30 digits) in 80-bit extended complex arithmetic, because
|x^(-N)| reaches 1e9 on the contour for x = 1e-6 and the result is O(1); the caller verifies
truncated + remainder = p(lx) (self-consistency of this reference).
"""

import numpy as np

LD = np.longdouble
CLD = np.clongdouble
PI = LD("3.14159265358979323846264338327950288")
_GL = {}


def _gl(m):
    """Gauss-Legendre rule with 3*2^(m-1) nodes on [-1, 1] in extended precision."""
    if m not in _GL:
        import mpmath as mp
        from mpmath.calculus.quadrature import GaussLegendre

        old = mp.mp.dps
        mp.mp.dps = 30
        try:
            nodes = GaussLegendre(mp.mp).calc_nodes(m, mp.mp.prec)
            x = np.array([LD(mp.nstr(a, 25)) for a, _ in nodes])
            w = np.array([LD(mp.nstr(b, 25)) for _, b in nodes])
        finally:
            mp.mp.dps = old
        _GL[m] = (x, w)
    return _GL[m]


def talbot(u, r, o):
    u = np.asarray(u, dtype=LD)
    r = LD(r)
    o = LD(o)
    theta = PI * (2 * u - 1)
    with np.errstate(divide="ignore", invalid="ignore"):
        cot = np.where(theta == 0.0, 0.0, 1.0 / np.tan(theta))
        re = np.where(theta == 0.0, 1.0, theta * cot)
        dre = np.where(theta == 0.0, 0.0, cot - theta / np.sin(theta) ** 2)
    n = (o + r * re) + CLD(1j) * (r * theta)
    dn = 2 * PI * r * (dre + CLD(1j))
    return n, dn


def _polyval(x, c):
    out = LD(0)
    for a in c[::-1]:
        out = out * x + a
    return out


def _polyder(c):
    return [k * a for k, a in enumerate(c)][1:]


def _E(N, L, lx, coefs):
    """E_L(N) for the polynomial with ascending coefficients coefs."""
    out = np.zeros_like(N)
    c = [LD(a) for a in coefs]
    L = LD(L)
    k = 0
    while c:
        out = out + (-1) ** k * _polyval(L, c) / N ** (k + 1)
        c = _polyder(c)
        k += 1
    return np.exp(N * (L - LD(lx))) * out


def F(N, lx, pieces):
    """x^(-N) * Mellin transform of the basis function, with the analytically vanishing parts removed."""
    tot = np.zeros_like(N)
    for lmin, lmax, coefs in pieces:
        if lx >= lmax:
            continue
        tot = tot + _E(N, lmax, lx, coefs)
        if lx < lmin:
            tot = tot - _E(N, lmin, lx, coefs)
    return tot


def _composite(edges, order):
    """nodes and weights of a composite Gauss-Legendre rule on consecutive intervals."""
    x, w = _gl(order)
    us, ws = [], []
    for a, b in zip(edges, edges[1:]):
        a, b = LD(a), LD(b)
        us.append((b - a) / 2 * x + (b + a) / 2)
        ws.append(w * (b - a) / 2)
    return np.concatenate(us), np.concatenate(ws)


class Contour:
    """Talbot contour with parameters (r, o), cut at u = 1 - cut.

    truncated(lx, pieces): (1/pi) Im int_{1/2}^{1-cut} -- what a perfect quadrature of the solver's integrand returns
    remainder(lx, pieces): (1/pi) Im int_{1-cut}^{1}   -- what the solver's contour cut leaves out
    """

    def __init__(self, r, o, cut=0.05):
        ut, wt = _composite(np.linspace(0.5, 1.0 - cut, 5), 6)  # 4 x 96 nodes
        ur, wr = _composite([1.0 - cut * 0.5**m for m in range(0, 46)], 4)  # 45 dyadic intervals x 24 nodes
        self.nt, dnt = talbot(ut, r, o)
        self.nr, dnr = talbot(ur, r, o)
        self.wt = wt * dnt
        self.wr = wr * dnr

    def truncated(self, lx, pieces):
        if lx >= max(p[1] for p in pieces):
            return 0.0
        return float(np.sum(self.wt * F(self.nt, lx, pieces)).imag / PI)

    def remainder(self, lx, pieces):
        if lx >= max(p[1] for p in pieces):
            return 0.0
        return float(np.sum(self.wr * F(self.nr, lx, pieces)).imag / PI)


def piece_value(lx, pieces):
    """x-space value from the same pieces: lmin <= lx < lmax (by continuity the closed/open choice is immaterial)."""
    for lmin, lmax, coefs in pieces:
        if lmin <= lx < lmax:
            return float(_polyval(LD(lx), [LD(a) for a in coefs]))
    return 0.0

