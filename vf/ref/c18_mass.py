"""Independent reference for the running of MSbar quark masses (C18).

    d ln m / d ln mu^2 = - gamma_m(a) = - sum_k gamma_k a^(k+1),   d a / d ln mu^2 = - a^2 sum_k beta_k a^k

so inside a fixed-nf patch   m(mu1)/m(mu0) = exp( int_{a0}^{a1} [sum gamma_k a^k] / [a sum beta_k a^k] da ),
with both sums truncated to `order` terms (beta/gamma_m from the literature table c20_tables).

  ker_exact     mpmath quadrature of the integral above
  ker_expanded  (a1/a0)^c0 * j(a1)/j(a0) with j(a) = exp(int_0^a [integrand - c0/a]) expanded as a power
                series and truncated at a^(order-1); the series is *derived here* by power-series algebra
                (not copied from a closed formula)
  walk          evolution of m^2 along the flavour path dictated by the matching scales
                W_j = k_j * m_j^2, multiplying m by the decoupling factor (vf.ref.c16_decoupling) at every
                wall, with L = ln k_j and the coupling of the upper theory at the wall.
"""

import math

import mpmath as mp

from . import c16_decoupling as dec
from . import c20_tables as tab
from . import paths as refp

DPS = 30


def _gam(order, nf, gamma3=None):
    g = tab.gamma_vec(order, nf)
    if gamma3 is not None and order >= 4:
        g = g[:3] + [mp.mpf(gamma3)]  # diagnostic only: "what if the 4-loop coefficient were this number"
    return g


def _integrand_series(order, nf, nterms, gamma3=None):
    """c0 and r_i with  [sum gamma a^k]/[a sum beta a^k] = c0/a + sum_{i>=0} r_i a^i."""
    g = _gam(order, nf, gamma3)
    b = tab.beta_vec(order, nf)
    # power series division g(a)/b(a) = sum q_i a^i
    qs = []
    for i in range(nterms + 1):
        s = g[i] if i < len(g) else mp.mpf(0)
        for j in range(1, i + 1):
            if j < len(b):
                s -= b[j] * qs[i - j]
        qs.append(s / b[0])
    return qs[0], qs[1:]


def ker_exact(a0, a1, order, nf, gamma3=None):
    mp.mp.dps = DPS
    g = _gam(order, nf, gamma3)
    b = tab.beta_vec(order, nf)
    a0, a1 = mp.mpf(a0), mp.mpf(a1)
    if a0 == a1:
        return mp.mpf(1)

    def f(a):
        return sum(c * a**k for k, c in enumerate(g)) / (a * sum(c * a**k for k, c in enumerate(b)))

    return mp.exp(mp.quad(f, [a0, a1]))


def ker_expanded(a0, a1, order, nf, gamma3=None):
    mp.mp.dps = DPS
    a0, a1 = mp.mpf(a0), mp.mpf(a1)
    c0, r = _integrand_series(order, nf, order - 1, gamma3)
    # E(a) = sum_i r_i a^(i+1)/(i+1);  j = exp(E) truncated at a^(order-1)
    n = order - 1
    E = [mp.mpf(0)] * (n + 1)
    for i, ri in enumerate(r):
        if i + 1 <= n:
            E[i + 1] = ri / (i + 1)
    # exp of a power series without constant term: j' = E' j
    j = [mp.mpf(1)] + [mp.mpf(0)] * n
    for m in range(1, n + 1):
        j[m] = sum(k * E[k] * j[m - k] for k in range(1, m + 1)) / m

    def J(a):
        return sum(c * a**k for k, c in enumerate(j))

    return (a1 / a0) ** c0 * J(a1) / J(a0)


def mass_factor(direction_up, nl, a_upper, L, order, up_override=None):
    """Factor multiplying the *linear* mass when crossing the wall between nl and nl+1 flavours.

    up_override = {(n, k): value} replaces single entries of the published table (used only by the model of the
    *documented defects*, which has to reproduce the 6 printed digits of the code's three-loop constants)."""
    mp.mp.dps = DPS
    up = dict(dec.mass_up_published(nl))
    if up_override:
        for key, v in up_override.items():
            up[key] = mp.mpf(v)
    a_upper, L = mp.mpf(a_upper), mp.mpf(L)
    z = mp.mpf(1)
    for (n, k), v in up.items():
        if 1 <= n < order:
            z += v * a_upper**n * L**k
    if direction_up:
        return z, z
    # downward: reciprocal; both the exact reciprocal and its truncated series are legitimate at the working order
    d = {(0, 0): mp.mpf(1)}
    for (n, k), v in up.items():
        if 1 <= n < order:
            d[(n, k)] = v
    inv = {(0, 0): mp.mpf(1)}
    term = {(0, 0): mp.mpf(1)}
    dd = dict(d)
    dd[(0, 0)] = 0
    for _ in range(4):
        term = dec.s_scale(dec.s_mul(term, dd), -1)
        inv = dec.s_add(inv, term)
    zt = mp.mpf(0)
    for (n, k), v in inv.items():
        if n < order:
            zt += v * a_upper**n * L**k
    return 1 / z, zt


def walk(m2_ref, origin, target, walls, ratios, a_of, order, method, gamma3_of=None, factor_power=2, up_override_of=None):
    """Evolve m^2 from origin=(mu2, nf) to target=(mu2, nf).

    walls  = matching scales k_j m_j^2 (c, b, t); ratios = k_j; a_of(mu2, nf) = coupling a_s^(nf)(mu2).
    factor_power=2 is the specification (m^2 changes by zeta^2); 1 is a diagnostic hypothesis only.
    The two recorded defects of msbar_masses.evolve are modelled by the caller with factor_power=1 and
    walls = k_j^2 xif2 m_j^2 (L stays ln k_j); up_override_of(nl) -> {(n, k): value} (see mass_factor).
    Returns (m2 with squared exact decoupling factors, m2 with squared truncated-series factors, n_crossings).
    """
    mp.mp.dps = DPS
    ker = ker_exact if method == "exact" else ker_expanded
    steps = refp.ref_matched_path(walls, origin, target)
    lo = hi = mp.mpf(m2_ref)
    ncross = 0
    for st in steps:
        if st[0] == "seg":
            _, s0, s1, nf = st
            if s0 == s1:
                continue
            k = ker(a_of(s0, nf), a_of(s1, nf), order, nf, None if gamma3_of is None else gamma3_of(nf)) ** 2
            lo *= k
            hi *= k
        else:
            _, scale, hq, inverse = st
            nl = hq - 1
            L = math.log(ratios[hq - 4])
            za, zb = mass_factor(not inverse, nl, a_of(scale, nl + 1), L, order, None if up_override_of is None else up_override_of(nl))
            lo *= za**factor_power
            hi *= zb**factor_power
            ncross += 1
    return lo, hi, ncross
