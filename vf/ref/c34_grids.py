"""Deterministic grid families and exact polynomial references for C34/C35/C42/C43.

Nothing here imports eko.  Grids are explicit formulas (no sampling); polynomial reference values are
computed with mpmath at 50 digits from the *exact* binary values of the float nodes, so the oracle side
carries no rounding of its own.
"""

import math

import mpmath as mp
import numpy as np

MP_DPS = 50


# ----------------------------------------------------------------------------------------------
# grid families (all end exactly at 1.0, strictly increasing, first point exactly x_min)
# ----------------------------------------------------------------------------------------------
def geometric(n, xmin):
    g = [xmin ** (1.0 - i / (n - 1)) for i in range(n)]
    g[0], g[-1] = xmin, 1.0
    return g


def linear(n, xmin):
    g = [xmin + (1.0 - xmin) * i / (n - 1) for i in range(n)]
    g[0], g[-1] = xmin, 1.0
    return g


def loglin(n, xmin):
    """log-spaced up to a knee, linear above (the shape of eko's make_grid; written independently)."""
    if n < 4:
        return None
    knee = 0.1 if xmin < 0.05 else 0.5
    nlow = (n + 1) // 2
    nmid = n - nlow + 1
    low = [xmin * (knee / xmin) ** (i / (nlow - 1)) for i in range(nlow)]
    low[0], low[-1] = xmin, knee
    mid = [knee + (1.0 - knee) * i / (nmid - 1) for i in range(nmid)]
    mid[-1] = 1.0
    return low + mid[1:]


def lambert(n, xmin):
    """equally spaced in y(x) = 5(1-x) - ln x (PineAPPL-like); inverse by bisection (independent of scipy)."""
    if n < 3:
        return None

    def y(x):
        return 5.0 * (1.0 - x) - math.log(x)

    ymin, ymax = y(xmin), 0.0
    out = []
    for i in range(n):
        yt = ymin + (ymax - ymin) * i / (n - 1)
        lo, hi = xmin, 1.0
        for _ in range(200):
            mid = math.sqrt(lo * hi) if lo < 1e-3 else 0.5 * (lo + hi)
            if y(mid) > yt:
                lo = mid
            else:
                hi = mid
        out.append(0.5 * (lo + hi))
    out[0], out[-1] = xmin, 1.0
    return out


def irregular(n, xmin):
    """geometric backbone with a fixed alternating/3-periodic distortion of the exponents (ratio of
    neighbouring cell widths up to ~5)."""
    if n < 3:
        return None
    pat = [0.0, 0.33, -0.3, 0.21, -0.36, 0.1]
    s = [i + (pat[i % len(pat)] if 0 < i < n - 1 else 0.0) for i in range(n)]
    g = [xmin ** (1.0 - si / (n - 1)) for si in s]
    g[0], g[-1] = xmin, 1.0
    return g


SHAPES = {
    "geometric": geometric,
    "linear": linear,
    "loglin": loglin,
    "lambert": lambert,
    "irregular": irregular,
}


def make(shape, n, xmin):
    g = SHAPES[shape](n, xmin)
    if g is None:
        return None
    g = [float(v) for v in g]
    if len(g) != n or any(b <= a for a, b in zip(g, g[1:])):
        return None
    return g


def ulp_up(x):
    return math.nextafter(x, math.inf)


def ulp_down(x):
    return math.nextafter(x, -math.inf)


# ----------------------------------------------------------------------------------------------
# exact polynomial reference
# ----------------------------------------------------------------------------------------------
class PolyRef:
    """Monomials t^k, t = (u - u_first)/(u_last - u_first), u = ln x (log mode) or x (linear mode).

    Values are computed at 50 digits from the exact float inputs and rounded once to double.
    The normalisation makes every monomial O(1) on the grid, so absolute deviations are meaningful.
    """

    def __init__(self, grid, is_log):
        mp.mp.dps = MP_DPS
        self.is_log = bool(is_log)
        self.u0 = self._u(grid[0])
        self.u1 = self._u(grid[-1])
        self.span = self.u1 - self.u0

    def _u(self, x):
        x = mp.mpf(float(x))
        return mp.log(x) if self.is_log else x

    def t(self, x):
        mp.mp.dps = MP_DPS
        return (self._u(x) - self.u0) / self.span

    def monomials(self, xs, degree):
        """array [len(xs), degree+1] of t(x)^k."""
        out = np.empty((len(xs), degree + 1))
        for i, x in enumerate(xs):
            t = self.t(x)
            p = mp.mpf(1)
            for k in range(degree + 1):
                out[i, k] = float(p)
                p *= t
        return out


# a fixed, dense, well-conditioned family of non-monomial test polynomials (used by C42/C43):
# shifted Chebyshev-like combinations, given by integer coefficient rows in the monomials t^k
POLY_ROWS = [
    [1],
    [-1, 2],
    [1, -8, 8],
    [-1, 18, -48, 32],
    [1, -32, 160, -256, 128],
    [-1, 50, -400, 1120, -1280, 512],
    [1, -72, 840, -3584, 6912, -6144, 2048],
]


# ----------------------------------------------------------------------------------------------
# rounding model: condition number of evaluating a local Lagrange polynomial in the monomial basis
# ----------------------------------------------------------------------------------------------
class MonomialCond:
    """cond(x) = max over all windows W of degree+1 consecutive nodes covering the cell of x of
    sum_{j in W} sum_i |c_ji| |u|^i, where sum_i c_ji u^i is the Lagrange polynomial of node j on W.

    This is the amplification of one rounding error by *any* implementation that stores the basis
    as power-series coefficients in u (which the Mellin transform of the basis requires); it does not
    depend on which window (block) the implementation picks, because the maximum over all admissible
    windows is taken.  The oracle tolerance is  floor + C * eps * cond(x).
    """

    def __init__(self, grid, is_log, degree):
        self.g = [float(x) for x in grid]
        self.is_log = bool(is_log)
        self.d = int(degree)
        self.u = np.log(np.array(self.g)) if is_log else np.array(self.g)
        n = len(self.g)
        self.polys = {}
        for k in range(0, n - self.d):
            rows = []
            for j in range(k, k + self.d + 1):
                c = np.array([1.0])
                den = 1.0
                for m in range(k, k + self.d + 1):
                    if m == j:
                        continue
                    c = np.convolve(c, [-self.u[m], 1.0])
                    den *= self.u[j] - self.u[m]
                rows.append(np.abs(c / den))
            self.polys[k] = np.array(rows)

    def cells(self, x):
        """indices of cells [g_c, g_c+1] that contain x up to 8 ulp."""
        out = []
        for c in range(len(self.g) - 1):
            lo, hi = self.g[c], self.g[c + 1]
            if lo * (1 - 2e-15) - 1e-300 <= x <= hi * (1 + 2e-15):
                out.append(c)
        return out

    def __call__(self, x):
        n = len(self.g)
        uu = math.log(x) if self.is_log else x
        pw = np.abs(uu) ** np.arange(self.d + 1)
        best = 0.0
        for c in self.cells(x):
            for k in range(max(0, c + 1 - self.d), min(c, n - 1 - self.d) + 1):
                best = max(best, float((self.polys[k] @ pw).sum()))
        return best
