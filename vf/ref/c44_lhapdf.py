"""Independent reader of LHAPDF lhagrid1 / info files and reference quantities for C45.

Shares no code with ekobox.genpdf: the parser works on the raw text, the applied PDF is a plain
tensordot, the target-grid matrix is written from the definition of piecewise-linear interpolation
in ln x, the LO coupling is the closed-form solution of da/dlnmu2 = -beta0 a^2 in mpmath.
"""

import math
import sys
import types

import numpy as np

# flavour order of the operator axes (documented convention of eko, checked against the package at run time)
PIDS = [22, -6, -5, -4, -3, -2, -1, 21, 1, 2, 3, 4, 5, 6]


# ------------------------------------------------------------------ fake lhapdf
def fake_lhapdf(datadir):
    """Install a stub `lhapdf` module whose paths() points to datadir (as tests/conftest.py does)."""
    m = types.ModuleType("lhapdf")
    d = str(datadir)
    m.paths = lambda: [d]
    sys.modules["lhapdf"] = m
    return m


class ToyPDF:
    """lhapdf-like object: xfxQ2(pid, x, Q2), hasFlavor(pid). Member index changes shape and flavour content."""

    def __init__(self, member):
        self.m = int(member)
        self.absent = {0: {22, 6, -6}, 1: {22}, 2: {22, 6, -6, 5, -5, -3}}[self.m % 3]

    def hasFlavor(self, pid):
        return pid not in self.absent

    def xfxQ2(self, pid, x, q2):
        a = 0.3 + 0.05 * self.m + 0.02 * abs(pid % 7)
        b = 2.0 + 0.5 * (abs(pid) % 3)
        sign = -1.0 if pid in (-3, 4) else 1.0  # some negative inputs
        return sign * (1.0 + 0.1 * pid / 21.0) * x**a * (1.0 - x) ** b + 0.01 * x * (1 + self.m)


def input_grid(pdf, xgrid, mu20):
    """f[b, k] = xf(x_k)/x_k for the flavours the PDF has, 0 otherwise (operator axis order)."""
    f = np.zeros((len(PIDS), len(xgrid)))
    for b, pid in enumerate(PIDS):
        if pdf.hasFlavor(pid):
            f[b] = [pdf.xfxQ2(pid, x, mu20) / x for x in xgrid]
    return f


def apply(op, f):
    """(value, scale): out[a, j] = sum_{b,k} op[a,j,b,k] f[b,k] and the sum of the moduli of the terms."""
    return np.tensordot(op, f, axes=([2, 3], [0, 1])), np.tensordot(np.abs(op), np.abs(f), axes=([2, 3], [0, 1]))


def loglinear_matrix(xgrid, target):
    """R[j, k]: piecewise-linear interpolation in ln x from the nodes xgrid to the points target."""
    lx = [math.log(x) for x in xgrid]
    R = np.zeros((len(target), len(xgrid)))
    for j, t in enumerate(target):
        hit = [k for k, x in enumerate(xgrid) if x == t]
        if hit:
            R[j, hit[0]] = 1.0
            continue
        lt = math.log(t)
        for k in range(len(xgrid) - 1):
            if lx[k] < lt < lx[k + 1]:
                w = (lt - lx[k]) / (lx[k + 1] - lx[k])
                R[j, k] = 1.0 - w
                R[j, k + 1] = w
                break
        else:
            raise ValueError(f"target point {t} outside the grid")
    return R


# ------------------------------------------------------------------ parsers
def parse_dat(text):
    """Return (header lines, blocks); a block = dict(x=[...], q=[...], pids=[...], data=array(nx, nq, npid))."""
    lines = text.split("\n")
    if lines and lines[-1] == "":
        lines = lines[:-1]
    try:
        first = lines.index("---")
    except ValueError:
        raise ValueError("no '---' separator")
    header = lines[:first]
    blocks = []
    i = first + 1
    while i < len(lines):
        try:
            end = lines.index("---", i)
        except ValueError:
            raise ValueError("unterminated block")
        body = lines[i:end]
        if len(body) < 4:
            raise ValueError(f"block with {len(body)} lines")
        x = [float(t) for t in body[0].split()]
        q = [float(t) for t in body[1].split()]
        pids = [int(t) for t in body[2].split()]
        rows = [[float(t) for t in ln.split()] for ln in body[3:]]
        if len(rows) != len(x) * len(q):
            raise ValueError(f"{len(rows)} data lines for {len(x)} x {len(q)} nodes")
        if any(len(r) != len(pids) for r in rows):
            raise ValueError("data line width differs from the number of flavours")
        data = np.array(rows).reshape(len(x), len(q), len(pids))
        blocks.append(dict(x=x, q=q, pids=pids, data=data))
        i = end + 1
    return header, blocks


def parse_info(text):
    """LHAPDF info file: one 'Key: value' per line, values in YAML flow syntax."""
    import yaml

    out = {}
    for ln in text.split("\n"):
        if not ln.strip():
            continue
        key, sep, val = ln.partition(":")
        if not sep or not key or not key.replace("_", "").isalnum() or key[0].isdigit():
            raise ValueError(f"not a 'Key: value' line: {ln[:80]!r}")
        if key in out:
            raise ValueError(f"duplicate key {key}")
        out[key] = yaml.safe_load(val.strip()) if val.strip() else None
    return out


# ------------------------------------------------------------------ LO coupling, closed form
def alphas_lo(alphas_ref, mu_ref, nf_ref, walls2, mu, nf_to):
    """alpha_s(mu) with nf_to flavours at LO, continuous at the matching scales walls2 = [c, b, t] (mu^2)."""
    import mpmath as mp

    mp.mp.dps = 30

    def beta0(nf):
        return mp.mpf(11) - mp.mpf(2) * nf / 3

    a = mp.mpf(alphas_ref) / (4 * mp.pi)
    s = mp.mpf(mu_ref) ** 2
    nf = nf_ref
    while nf != nf_to:
        if nf_to > nf:
            wall = mp.mpf(walls2[nf - 3])  # wall between nf and nf+1
            nxt = nf + 1
        else:
            wall = mp.mpf(walls2[nf - 4])  # wall between nf-1 and nf
            nxt = nf - 1
        a = 1 / (1 / a + beta0(nf) * mp.log(wall / s))
        s = wall
        nf = nxt
    a = 1 / (1 / a + beta0(nf) * mp.log(mp.mpf(mu) ** 2 / s))
    return float(4 * mp.pi * a)


def evolution_alphas(eko_path, points):
    """4 pi a_s at the target end of the last path segment of each evolution point, as the solver builds it."""
    from eko import evolution_operator as evop
    from eko.io.struct import EKO
    from eko.runner import parts

    out = []
    with EKO.read(eko_path) as e:
        man = parts._managers(e)
        cfg = parts._evolve_configs(e)
        for mu2, nf in points:
            seg = man.atlas.path((mu2, nf))[-1]
            op = evop.Operator(cfg, man, seg)
            assert op.q2_to == mu2 and op.nf == nf
            out.append(float(4.0 * math.pi * op.a_s[1]))
    return out


def coupling_at_listed(eko_path, points):
    """4 pi a_s of the solver's coupling object (as the runner builds it from the archive's cards) at (mu2, nf)."""
    from eko.io.struct import EKO
    from eko.runner import parts

    with EKO.read(eko_path) as e:
        sc = parts._managers(e).couplings
        return [float(4.0 * math.pi * sc.a_s(mu2, nf_to=nf)) for mu2, nf in points]
