"""Independent reference solutions of the coupling RGEs (mpmath, 30 digits).

Definition used (eko.beta docstring + literature): with a_s = alpha_s/4pi, a_em = alpha/4pi, t = ln mu^2,

    da_s /dt = - sum_{2<=j<=n+1, 0<=k<=m} beta_qcd[(j,k)] a_s^j a_em^k
    da_em/dt = - sum_{0<=j<=n,   2<=k<=m+1} beta_qed[(j,k)] a_s^j a_em^k      (only if alpha_em runs)

for order (n, m), restricted to the coefficients that exist in the literature table
(pure QCD (2..5,0), mixed (2,1); pure QED (0,2),(0,3), mixed (1,2)).  The number of leptons is 2 for
mu^2 <= m_tau^2 and 3 above (m_tau = 1.777 GeV as in eko.constants: an input convention).

Two solvers that share nothing but the coefficient table:
  * single equation (alpha_em fixed or m = 0): Newton iteration on  int_{a0}^{a1} da / beta(a) = L
    with mpmath quadrature
  * coupled system: mpmath.odefun (Taylor-series ODE solver)
`conformance()` checks one against the other.
"""

import mpmath as mp

from . import c20_tables as tab

MTAU2 = mp.mpf("1.777") ** 2
FOURPI = 4 * mp.pi
DPS = 24


def nl_of(mu2):
    return 3 if mp.mpf(mu2) > MTAU2 else 2


def qcd_poly(order, nf, a_em=None):
    """Coefficients [B0, B1, ...] with da/dt = -a^2 sum B_k a^k (B0 shifted by the mixed term if m>=1)."""
    n, m = order
    B = tab.beta_vec(n, nf)
    if m >= 1 and a_em is not None:
        B = [B[0] + a_em * tab.beta_qcd((2, 1), nf)] + B[1:]
    return B


def _beta_single(B, a):
    return -a * a * sum(b * a**k for k, b in enumerate(B))


def solve_single(B, a0, L, amax=None):
    """a(L) for da/dt = -a^2 sum B_k a^k, a(0) = a0.  Returns None if a leaves (0, amax)."""
    a0 = mp.mpf(a0)
    L = mp.mpf(L)
    if L == 0:
        return a0
    if len(B) == 1:
        den = 1 + B[0] * a0 * L
        if den <= 0:
            return None
        a1 = a0 / den
        return a1 if (amax is None or a1 <= amax) else None
    # Newton on G(a1) = int_{a0}^{a1} da/beta(a) - L ; G' = 1/beta(a1)
    den = 1 + B[0] * a0 * L
    a1 = a0 / den if den > 0.05 else a0 * 20
    for _ in range(80):
        if a1 <= 0:
            return None
        if amax is not None and a1 > 50 * amax:
            return None
        G = mp.quad(lambda a: 1 / _beta_single(B, a), [a0, a1]) - L
        step = G * _beta_single(B, a1)
        new = a1 - step
        if new <= 0:
            new = a1 / 2
        if abs(new - a1) <= mp.mpf(10) ** (-(mp.mp.dps - 4)) * abs(new):
            a1 = new
            break
        a1 = new
    else:
        return None
    if amax is not None and a1 > amax:
        return None
    return a1


def _coupled_rhs(order, nf, nl):
    n, m = order
    bq = tab.beta_vec(n, nf)
    b21 = tab.beta_qcd((2, 1), nf) if m >= 1 else mp.mpf(0)
    be = [tab.beta_qed((0, 2), nf, nl)] if m >= 1 else []
    if m >= 2:
        be.append(tab.beta_qed((0, 3), nf, nl))
    b12 = tab.beta_qed((1, 2), nf, nl) if m >= 1 else mp.mpf(0)

    def rhs(sign):
        def F(_x, y):
            a, e = y
            fa = -a * a * (sum(b * a**k for k, b in enumerate(bq)) + e * b21)
            fe = -e * e * (sum(b * e**k for k, b in enumerate(be)) + a * b12) if m >= 1 else mp.mpf(0)
            return [sign * fa, sign * fe]

        return F

    return rhs


def solve_coupled_segment(order, nf, nl, a0, e0, L, amax=None):
    """(a_s, a_em) after evolving by L = ln(mu1^2/mu0^2) with a fixed number of leptons."""
    L = mp.mpf(L)
    if L == 0:
        return mp.mpf(a0), mp.mpf(e0)
    sign = 1 if L > 0 else -1
    F = _coupled_rhs(order, nf, nl)(sign)
    f = mp.odefun(F, 0, [mp.mpf(a0), mp.mpf(e0)])
    # walk in steps so that a runaway (Landau pole) is detected instead of hanging
    T = abs(L)
    nstep = max(1, int(mp.ceil(T / mp.mpf("0.75"))))
    y = None
    for i in range(1, nstep + 1):
        y = f(T * i / nstep)
        if y[0] <= 0 or (amax is not None and y[0] > amax):
            return None
    return y[0], y[1]


class Reference:
    """Reference couplings for one configuration inside one fixed-nf patch."""

    def __init__(self, order, running, nf, alphas, alphaem, mu_ref, amax=None):
        mp.mp.dps = DPS
        self.order = tuple(order)
        self.running = bool(running) and order[1] >= 1
        self.nf = nf
        self.a0 = mp.mpf(alphas) / FOURPI
        self.e0 = mp.mpf(alphaem) / FOURPI
        self.mu2_ref = mp.mpf(mu_ref) ** 2
        self.amax = amax

    def at(self, mu2):
        """(a_s, a_em) at mu2 (mpf), or None outside the range where a_s <= amax."""
        mp.mp.dps = DPS
        mu2 = mp.mpf(mu2)
        if not self.running:
            B = qcd_poly(self.order, self.nf, self.e0)
            a1 = solve_single(B, self.a0, mp.log(mu2 / self.mu2_ref), self.amax)
            return None if a1 is None else (a1, self.e0)
        # running alpha_em: split at m_tau^2 where the number of leptons changes
        nli, nlf = nl_of(self.mu2_ref), nl_of(mu2)
        if nli == nlf:
            legs = [(nli, self.mu2_ref, mu2)]
        else:
            legs = [(nli, self.mu2_ref, MTAU2), (nlf, MTAU2, mu2)]
        a, e = self.a0, self.e0
        for nl, s0, s1 in legs:
            r = solve_coupled_segment(self.order, self.nf, nl, a, e, mp.log(s1 / s0), self.amax)
            if r is None:
                return None
            a, e = r
        return a, e


def sweep(ref, mu2s):
    """{mu2: (a_s, a_em) | None} for many scales at once: one upward and one downward pass from the
    reference point, each target reached from the previous one (same ODE, same lepton-number rule)."""
    mp.mp.dps = DPS
    out = {}
    if not ref.running:
        for m in mu2s:
            out[m] = ref.at(m)
        return out
    ups = sorted(m for m in mu2s if mp.mpf(m) >= ref.mu2_ref)
    downs = sorted((m for m in mu2s if mp.mpf(m) < ref.mu2_ref), reverse=True)
    for seq in (ups, downs):
        s_cur, a, e = ref.mu2_ref, ref.a0, ref.e0
        dead = False
        for m in seq:
            if dead:
                out[m] = None
                continue
            tgt = mp.mpf(m)
            nli, nlf = nl_of(s_cur), nl_of(tgt)
            legs = [(nli, s_cur, tgt)] if nli == nlf else [(nli, s_cur, MTAU2), (nlf, MTAU2, tgt)]
            for nl, s0, s1 in legs:
                r = solve_coupled_segment(ref.order, ref.nf, nl, a, e, mp.log(s1 / s0), ref.amax)
                if r is None:
                    dead = True
                    break
                a, e = r
            if dead:
                out[m] = None
                continue
            s_cur = tgt
            out[m] = (a, e)
    return out


def conformance():
    """The two solvers must agree where both apply (alpha_em fixed <=> coupled system with m=0)."""
    mp.mp.dps = DPS
    worst = mp.mpf(0)
    for n, nf, L in [(2, 3, 3.0), (3, 4, -2.0), (4, 6, 5.0), (4, 5, -1.5)]:
        a0 = mp.mpf("0.2") / FOURPI
        B = qcd_poly((n, 0), nf)
        s = solve_single(B, a0, L)
        c = solve_coupled_segment((n, 0), nf, 3, a0, mp.mpf("0.0075") / FOURPI, L)
        worst = max(worst, abs(s - c[0]) / s)
    return worst
