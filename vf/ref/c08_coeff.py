"""Coefficient-level reference for C08: the series R(a) = gamma(a)/beta(a) * a and the U-matrices.

Nothing here is taken from /repo.  Conventions as in vf/ref/c07_ode.py:

    dE/da = R(a)/a E ,   R(a) = (sum_{k<n} gamma_k a^k) / (sum_{k<n} beta_k a^k) = sum_k R_k a^k
    E(a1 <- a0) = U(a1) (a1/a0)^{R_0} U(a0)^{-1} ,   U(a) = 1 + sum_{k>=1} U_k a^k

* R_k by coefficient matching of  beta(a) R(a) = gamma(a):  a lower-triangular Toeplitz system solved with
  mp.lu_solve (one solve for all matrix entries), not by a hand-unrolled recursion.
* U_k from  a U' + U R_0 - R_0 U = R U - U R_0 ... i.e. order by order
      k U_k + U_k R_0 - R_0 U_k = R_k + sum_{j=1}^{k-1} R_{k-j} U_j
  solved as a dim^2 x dim^2 linear (Sylvester) system in 40-digit arithmetic -- no eigen-decomposition, no
  projectors.  For dim = 1 this is U_k = rhs / k.
* selfcheck() (at import): the scalar U series against mp.taylor of exp(sum R_k a^k / k), and the 2x2 series of
  a non-commuting tower against the 40-digit path-ordered ODE solution at tiny couplings.
"""

import mpmath as mp

from vf.ref import c07_ode as R

mp.mp.dps = R.DPS


def r_series(gammas, betas, kmax):
    """[R_0 .. R_kmax] (flat tuples of dim*dim mpc) for gamma(a) = sum gammas[k] a^k, beta(a) = sum betas[k] a^k."""
    mp.mp.dps = R.DPS
    nent = len(gammas[0])
    K = kmax + 1
    T = mp.zeros(K, K)
    for i in range(K):
        for j in range(i + 1):
            if i - j < len(betas):
                T[i, j] = betas[i - j]
    rhs = mp.zeros(K, nent)
    for k in range(K):
        if k < len(gammas):
            for e in range(nent):
                rhs[k, e] = gammas[k][e]
    cols = [mp.lu_solve(T, rhs[:, e]) for e in range(nent)]
    return [tuple(cols[e][k] for e in range(nent)) for k in range(K)]


def u_series(rs, kmax):
    """[U_0 = 1, U_1 .. U_kmax] for the R series rs (flat tuples); dim from the length of the entries."""
    mp.mp.dps = R.DPS
    nent = len(rs[0])
    dim = 1 if nent == 1 else 2
    us = [R._ident(dim)]
    r0 = rs[0]
    for k in range(1, kmax + 1):
        rhs = tuple(mp.mpc(0) for _ in range(nent))
        for j in range(k):
            if k - j < len(rs):
                rhs = R._ma(rhs, R._mm(rs[k - j], us[j]))
        if dim == 1:
            us.append((rhs[0] / k,))
            continue
        A = mp.zeros(4, 4)
        for i in range(2):
            for j in range(2):
                row = 2 * i + j
                for p in range(2):
                    for q in range(2):
                        col = 2 * p + q
                        v = mp.mpc(0)
                        if i == p and j == q:
                            v += k
                        if i == p:
                            v += r0[2 * q + j]  # (U R0)_ij = sum_q U_iq R0_qj
                        if j == q:
                            v -= r0[2 * i + p]  # (R0 U)_ij = sum_p R0_ip U_pj
                        A[row, col] = v
        x = mp.lu_solve(A, mp.matrix(list(rhs)))
        us.append(tuple(x[e] for e in range(4)))
    return us


def tower_coefficients(tower, order, nf, sector):
    """(R_0..R_{n-1}, U_0..U_{n-1}) for a JSON tower (scalar list for 'ns', list of 2x2 otherwise)."""
    if sector == "ns":
        g = [(R._c(x),) for x in tower[:order]]
    else:
        g = [tuple(R._c(x) for row in m for x in row) for m in tower[:order]]
    rs = r_series(g, R.beta_list(order, nf), order - 1)
    return rs, u_series(rs, order - 1)


def selfcheck():
    mp.mp.dps = R.DPS
    # scalar: U(a) = exp( sum_{k>=1} R_k a^k / k )
    g = [(mp.mpc("0.6", "0.3"),), (mp.mpc("-4.2", "6.1"),), (mp.mpc(55, -38),), (mp.mpc(-320, 710),)]
    b = R.beta_list(4, 4)
    rs = r_series(g, b, 6)
    us = u_series(rs, 6)
    tay = mp.taylor(lambda a: mp.exp(sum(rs[k][0] * a**k / k for k in range(1, 7))), 0, 6)
    for k in range(7):
        if abs(tay[k] - us[k][0]) > mp.mpf(10) ** (-25) * max(1, abs(us[k][0])):
            raise AssertionError(f"C08 coefficient reference: scalar U_{k} self-test failed")
    # beta(a) R(a) = gamma(a) with an independent evaluation: R(a) by direct division at a small a
    a = mp.mpf("1e-6")
    direct = sum(g[k][0] * a**k for k in range(4)) / sum(b[k] * a**k for k in range(4))
    ser = sum(rs[k][0] * a**k for k in range(7))
    if abs(direct - ser) > mp.mpf(10) ** (-22):
        raise AssertionError("C08 coefficient reference: R series self-test failed")
    # matrix: U(a1) (a1/a0)^R0 U(a0)^-1 with 9 terms against the path-ordered ODE at tiny couplings
    gm = [
        (mp.mpc("0.6", "0.3"), mp.mpc("-0.2", "-0.9"), mp.mpc("0.4", "-0.1"), mp.mpc("-0.7", "0.2")),
        (mp.mpc("-4.2", "6.1"), mp.mpc("8.8", "-1.7"), mp.mpc("3.3", "-2.2"), mp.mpc(1, 5)),
        (mp.mpc(55, -38), mp.mpc(-12, 95), mp.mpc(-47, 21), mp.mpc(20, 20)),
    ]
    b3 = R.beta_list(3, 5)
    K = 9
    rsm = r_series(gm, b3, K)
    usm = u_series(rsm, K)
    a0, a1 = mp.mpf("2e-5"), mp.mpf("5e-5")

    def U(a):
        out = tuple(mp.mpc(0) for _ in range(4))
        for k in range(K + 1):
            out = R._ma(out, R._ms(usm[k], a**k))
        return mp.matrix([[out[0], out[1]], [out[2], out[3]]])

    r0 = mp.matrix([[rsm[0][0], rsm[0][1]], [rsm[0][2], rsm[0][3]]])
    e = U(a1) * mp.expm(r0 * mp.log(a1 / a0)) * mp.inverse(U(a0))
    ode = R.dglap_ref(gm, b3, a0, a1, 2)
    dev = max(abs(e[i, j] - ode[2 * i + j]) for i in range(2) for j in range(2))
    if dev > mp.mpf(10) ** (-22):
        raise AssertionError(f"C08 coefficient reference: matrix U series vs ODE self-test failed ({mp.nstr(dev, 5)})")


selfcheck()
