"""Independent reference for flavour-number paths, written from the statement of C19 (not from
Atlas.path): one step per quark (de)activated, each on that quark's matching scale."""

import math


def nf_default(mu2, walls3):
    """3 light flavours plus one for every matching scale that has been reached."""
    return 3 + sum(1 for w in walls3 if w <= mu2)


def ref_matched_path(walls3, origin, target):
    """Return list of ("seg", origin, target, nf) / ("match", scale, hq, inverse)."""
    mu0, nf0 = origin
    muf, nff = target
    if nf0 is None:
        nf0 = nf_default(mu0, walls3)
    if nff is None:
        nff = nf_default(muf, walls3)
    out = []
    cur, nf = mu0, nf0
    if nff >= nf0:
        while nf < nff:
            hq = nf + 1
            wall = walls3[hq - 4]
            out.append(("seg", cur, wall, nf))
            out.append(("match", wall, hq, False))
            cur, nf = wall, nf + 1
    else:
        while nf > nff:
            hq = nf
            wall = walls3[hq - 4]
            out.append(("seg", cur, wall, nf))
            out.append(("match", wall, hq, True))
            cur, nf = wall, nf - 1
    out.append(("seg", cur, muf, nf))
    return out


def active_quarks(walls3, origin, target):
    """Set of nf values active on some segment of the path."""
    return sorted({b[3] for b in ref_matched_path(walls3, origin, target) if b[0] == "seg"})
