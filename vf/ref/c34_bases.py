"""Flavour-space rotations typed from the documented definitions (doc/source/theory/FlavorSpace.rst),
independent of eko.basis_rotation.  Used by C42/C43.

Flavour basis order (PDG ids): gamma, tbar, bbar, cbar, sbar, ubar, dbar, g, d, u, s, c, b, t.
q+ = q + qbar, q- = q - qbar.
"""

import numpy as np

FLAVOR_PIDS = [22, -6, -5, -4, -3, -2, -1, 21, 1, 2, 3, 4, 5, 6]
_POS = {pid: i for i, pid in enumerate(FLAVOR_PIDS)}
_Q = {"d": 1, "u": 2, "s": 3, "c": 4, "b": 5, "t": 6}


def _row(terms):
    """terms: list of (coefficient, quark name, '+' | '-') or (coefficient, 'g' | 'ph')."""
    r = np.zeros(14)
    for t in terms:
        if len(t) == 2:
            c, what = t
            r[_POS[21 if what == "g" else 22]] += c
        else:
            c, q, sign = t
            r[_POS[_Q[q]]] += c
            r[_POS[-_Q[q]]] += c if sign == "+" else -c
    return r


def _comb(coeffs, sign):
    return [(c, q, sign) for q, c in coeffs.items() if c != 0]


# ---- QCD evolution basis: ph, S, g, V, V3, V8, V15, V24, V35, T3, T8, T15, T24, T35
_NS = {
    3: dict(u=1, d=-1),
    8: dict(u=1, d=1, s=-2),
    15: dict(u=1, d=1, s=1, c=-3),
    24: dict(u=1, d=1, s=1, c=1, b=-4),
    35: dict(u=1, d=1, s=1, c=1, b=1, t=-5),
}
_ALL = dict(u=1, d=1, s=1, c=1, b=1, t=1)
EVOL = np.array(
    [_row([(1, "ph")]), _row(_comb(_ALL, "+")), _row([(1, "g")]), _row(_comb(_ALL, "-"))]
    + [_row(_comb(_NS[k], "-")) for k in (3, 8, 15, 24, 35)]
    + [_row(_comb(_NS[k], "+")) for k in (3, 8, 15, 24, 35)]
)
EVOL_PIDS = [22, 100, 21, 200, 203, 208, 215, 224, 235, 103, 108, 115, 124, 135]

# ---- unified (QCDxQED) evolution basis:
# g, ph, S, Sdelta, V, Vdelta, Td3, Vd3, Tu3, Vu3, Td8, Vd8, Tu8, Vu8
_UP = dict(u=1, c=1, t=1)
_DN = dict(d=1, s=1, b=1)
_DELTA = dict(u=1, c=1, t=1, d=-1, s=-1, b=-1)
_U3, _U8 = dict(u=1, c=-1), dict(u=1, c=1, t=-2)
_D3, _D8 = dict(d=1, s=-1), dict(d=1, s=1, b=-2)
UNI = np.array(
    [
        _row([(1, "g")]),
        _row([(1, "ph")]),
        _row(_comb(_ALL, "+")),
        _row(_comb(_DELTA, "+")),
        _row(_comb(_ALL, "-")),
        _row(_comb(_DELTA, "-")),
        _row(_comb(_D3, "+")),
        _row(_comb(_D3, "-")),
        _row(_comb(_U3, "+")),
        _row(_comb(_U3, "-")),
        _row(_comb(_D8, "+")),
        _row(_comb(_D8, "-")),
        _row(_comb(_U8, "+")),
        _row(_comb(_U8, "-")),
    ]
)
# ids: T3 -> 103, V3 -> 203, T8 -> 108, V8 -> 208; up-type +1, down-type +2 (eko.basis_rotation docstring)
UNI_PIDS = [21, 22, 100, 101, 200, 201, 105, 205, 104, 204, 110, 210, 109, 209]


# ---- synthetic invertible rotations (deterministic)
def permutation():
    """a fixed 14-cycle-free permutation: i -> (5 i + 3) mod 14."""
    m = np.zeros((14, 14))
    for i in range(14):
        m[i, (5 * i + 3) % 14] = 1.0
    return m


def diagonal():
    return np.diag([(-1.0) ** i * (0.5 + 0.25 * i) for i in range(14)])


def unimodular():
    """product of an upper and a lower unit-triangular integer matrix: determinant 1, dense, integer inverse."""
    up = np.eye(14)
    lo = np.eye(14)
    for i in range(14):
        for j in range(i + 1, 14):
            up[i, j] = ((3 * i + 5 * j) % 5) - 2
            lo[j, i] = ((7 * i + 2 * j) % 3) - 1
    return up @ lo


ROTATIONS = {
    "identity": lambda: np.eye(14),
    "evolution": lambda: EVOL.copy(),
    "unified": lambda: UNI.copy(),
    "permutation": permutation,
    "diagonal": diagonal,
    "unimodular": unimodular,
}


# ---- deterministic dense "generic" tensors (no symmetry, no zeros, entries O(1))
def tensor(shape, phase=0.0):
    idx = np.indices(shape).astype(float)
    arg = phase + 0.37
    mults = [1.3, 0.71, 2.1, 0.37, 0.93, 1.7]
    for ax, i in enumerate(idx):
        arg = arg + mults[ax % len(mults)] * i * (1.0 + 0.05 * ax)
    cross = idx[0] * idx[-1] * 0.11
    if len(shape) >= 4:
        cross = cross + 0.07 * idx[1] * idx[2]
    return np.sin(arg + cross) + 0.25 * np.cos(2.3 * arg - cross)
