"""Construction of eko Couplings objects from plain JSON-able parameters (shared by C15-C18)."""

import math

INF = math.inf


def ffns_masses2(nf):
    """Squared 'masses' that put every scale into the nf patch (walls at 0 / inf)."""
    return [0.0] * (nf - 3) + [INF] * (6 - nf)


def make_couplings(order, running, method, ref, alphas, alphaem, masses2, ratios=(1.0, 1.0, 1.0), scheme="POLE"):
    """ref = (mu_ref [GeV, linear], nf_ref or None); masses2 = squared masses; ratios = squared-scale ratios."""
    from eko.couplings import Couplings
    from eko.quantities.couplings import CouplingEvolutionMethod, CouplingsInfo
    from eko.quantities.heavy_quarks import QuarkMassScheme

    ci = CouplingsInfo.from_dict(
        dict(alphas=alphas, alphaem=alphaem, ref=(ref[0], ref[1]), em_running=bool(running))
    )
    return Couplings(
        ci,
        tuple(order),
        CouplingEvolutionMethod(method),
        [float(m) for m in masses2],
        QuarkMassScheme[scheme],
        [float(r) for r in ratios],
    )


def ffns_couplings(order, running, method, nf, alphas, alphaem, mu_ref):
    return make_couplings(order, running, method, (mu_ref, nf), alphas, alphaem, ffns_masses2(nf))
