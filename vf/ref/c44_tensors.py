"""Deterministic operator tensors, synthetic archives and reference contractions for C44 (and C45).

Nothing here imports a formula of eko: tensors are closed-form arrays, the reference product is a
`tensordot` over the (flavour, x) input pair of the later operator and the output pair of the earlier.
"""

import numpy as np

NP = 14  # flavour basis size

KINDS = ["dense", "evol", "perm", "diag", "int"]


def tensor(kind, nx, seed):
    """(14, nx, 14, nx) tensor of a family; seed selects a member. Families do not commute."""
    n = NP * nx
    i = np.arange(n)[:, None].astype(float)
    j = np.arange(n)[None, :].astype(float)
    s = float(seed + 1)
    if kind == "dense":  # mixed signs everywhere
        m = np.cos((i * 1.7 + j * 0.9 + 0.3) * s * 0.37) + 0.25 * np.sin(i * j * 0.11 + s)
    elif kind == "evol":  # near identity, upper triangular in the flattened index, mixed signs
        m = np.eye(n) * (1.0 + 0.05 * np.cos(i * s)) + np.triu(0.2 * np.sin((i + 2 * j) * 0.23 * s), 1)
    elif kind == "perm":  # a cyclic shift composed with a sign pattern
        m = np.zeros((n, n))
        sh = int(seed) % (n - 1) + 1
        for r in range(n):
            m[r, (r + sh) % n] = -1.0 if (r * (seed + 2)) % 3 == 0 else 1.0
    elif kind == "diag":
        m = np.diag(np.where(np.arange(n) % 2 == 0, 1.0, -1.0) * (0.5 + 0.1 * ((np.arange(n) * (seed + 1)) % 7)))
    elif kind == "int":  # small integers: products are exact in floating point
        m = np.round(3.0 * np.cos((i * 2.1 + j * 1.3) * s * 0.53))
    else:
        raise ValueError(kind)
    return np.ascontiguousarray(m.reshape(NP, nx, NP, nx))


def error(kind, nx, seed):
    """Non-negative error tensor, not proportional to the value tensor."""
    n = NP * nx
    i = np.arange(n)[:, None].astype(float)
    j = np.arange(n)[None, :].astype(float)
    e = 1e-3 * (0.2 + np.sin((i * 0.7 - j * 1.1) * (seed + 1) * 0.19) ** 2)
    if kind in ("perm", "diag"):
        e = e * (np.abs(tensor(kind, nx, seed).reshape(n, n)) > 0)  # errors only where there is a value
        e = e + 1e-6
    return np.ascontiguousarray(e.reshape(NP, nx, NP, nx))


def compose(later, earlier):
    """later . earlier: contract the input pair of `later` with the output pair of `earlier`."""
    return np.tensordot(later, earlier, axes=([2, 3], [0, 1]))


def compose_error(later, dlater, earlier, dearlier):
    """First-order rule of the statement: |later|.|d earlier| + |d later|.|earlier|."""
    return compose(np.abs(later), np.abs(dearlier)) + compose(np.abs(dlater), np.abs(earlier))


def make_archive(path, init, eps, ops, xgrid):
    """Write an archive with cards (init, mugrid from eps) and the given operators {ep: (value, error|None)}."""
    from eko.io.items import Operator
    from eko.io.struct import EKO
    from vf.core import cards

    th, op = cards.build(
        dict(xgrid=list(xgrid), init=[float(init[0]), int(init[1])], mugrid=[[float(ep[0]) ** 0.5, int(ep[1])] for ep in eps])
    )
    with EKO.create(path) as b:
        e = b.load_cards(th, op).build()
        for ep in eps:
            a, err = ops[ep]
            e[ep] = Operator(a.copy(), None if err is None else err.copy())
    return th, op


def read_archive(path):
    from eko.io.struct import EKO

    out = {}
    with EKO.read(path) as e:
        mu20 = float(e.operator_card.mu20)
        for ep, op in e.items():
            out[(float(ep[0]), int(ep[1]))] = (op.operator.copy(), None if op.error is None else op.error.copy())
    return mu20, out
