"""Literature tables of RGE coefficients, typed from the publications (NOT from /repo).

Normalisation (the one of eko):  a_s = alpha_s/(4 pi), a_em = alpha/(4 pi),

    d a_s  / d ln mu^2 = - sum_{j>=2,k>=0} beta_qcd[(j,k)] a_s^j a_em^k
    d a_em / d ln mu^2 = - sum_{j>=0,k>=2} beta_qed[(j,k)] a_s^j a_em^k
    d m    / d ln mu^2 = - m sum_{n>=0} gamma_m[n] a_s^(n+1)

Sources
  QCD beta:   Herzog, Ruijl, Ueda, Vermaseren, Vogt, JHEP 02 (2017) 090, eqs. (3.1)-(3.3), (3.6)
              (= van Ritbergen, Vermaseren, Larin, PLB 400 (1997) 379 for SU(3)).
  gamma_m:    Vermaseren, Larin, van Ritbergen, PLB 405 (1997) 327, eq. (15) (colour-factor form eq. (14));
              Chetyrkin, PLB 404 (1997) 161, eq. (8).  Published for a = alpha_s/pi; gamma_n(4pi) = 4^(n+1) gamma_n(pi).
  QED/mixed:  Surguladze, hep-ph/9610409, eq. (7).

Every entry is typed twice in two different shapes:
  (A) exact: rational + rational*zeta(k), as polynomial in nf for SU(3)
  (B) the decimal numbers printed in the papers (alpha_s/pi units), and - up to three loops -
  (C) the general colour-factor form.
`selfcheck()` requires A==B to the printed digits and A==C exactly; it is run at import, so a
typo of mine aborts the check (harness error) instead of raising an alarm against eko.
"""

from fractions import Fraction as F

import mpmath as mp

mp.mp.dps = 40

Z = {"1": lambda: mp.mpf(1), "z3": lambda: mp.zeta(3), "z4": lambda: mp.zeta(4), "z5": lambda: mp.zeta(5)}


def T(one=0, z3=0, z4=0, z5=0):
    """A number  one + z3*zeta3 + z4*zeta4 + z5*zeta5  with rational weights."""
    return {"1": F(one), "z3": F(z3), "z4": F(z4), "z5": F(z5)}


def tval(t):
    return sum((mp.mpf(v.numerator) / v.denominator) * Z[k]() for k, v in t.items())


def tabs(t):
    return sum(abs(mp.mpf(v.numerator) / v.denominator) * Z[k]() for k, v in t.items())


# --------------------------------------------------------------------------- (A) exact SU(3) form
BETA_QCD = {
    (2, 0): [T(11), T(F(-2, 3))],
    (3, 0): [T(102), T(F(-38, 3))],
    (4, 0): [T(F(2857, 2)), T(F(-5033, 18)), T(F(325, 54))],
    (5, 0): [
        T(F(149753, 6), z3=3564),
        T(F(-1078361, 162), z3=F(-6508, 27)),
        T(F(50065, 162), z3=F(6472, 81)),
        T(F(1093, 729)),
    ],
}

GAMMA_M = {
    1: [T(4)],
    2: [T(F(202, 3)), T(F(-20, 9))],
    3: [T(1249), T(F(-2216, 27), z3=F(-160, 3)), T(F(-140, 81))],
    4: [
        T(F(4603055, 162), z3=F(135680, 27), z5=-8800),
        T(F(-91723, 27), z3=F(-34192, 9), z4=880, z5=F(18400, 9)),
        T(F(5242, 243), z3=F(800, 9), z4=F(-160, 3)),
        T(F(-332, 243), z3=F(64, 27)),
    ],
}

# --------------------------------------------------------------------------- (B) printed decimals
# alpha_s/pi units; beta: vRVL 1997 eq. (10), gamma_m: VLvR 1997 eq. (17) / Chetyrkin 1997 eq. (9)
BETA_QCD_DEC_PI = {
    (2, 0): ["2.75", "-0.166667"],
    (3, 0): ["6.375", "-0.791667"],
    (4, 0): ["22.3203", "-4.36892", "0.0940394"],
    (5, 0): ["114.230", "-27.1339", "1.58238", "0.0058567"],
}
GAMMA_M_DEC_PI = {
    1: ["1"],
    2: ["4.20833", "-0.138889"],
    3: ["19.5156", "-2.28412", "-0.0270062"],
    4: ["98.9434", "-19.1075", "0.276163", "0.00579322"],
}
# Herzog et al. eq. (3.7): beta_3 in alpha_s/(4 pi) units for nf = 3..6 are also widely quoted through
# the expansion  beta(nf)/beta0 ; not needed: (A) vs (B) already fixes every coefficient to >= 5 digits.


def _ulp_of_decimal(s):
    s = s.lstrip("-")
    if "." not in s:
        return mp.mpf(1) / 2
    return mp.mpf(10) ** (-len(s.split(".")[1])) * mp.mpf("0.5000001")


# --------------------------------------------------------------------------- (C) colour-factor form
def beta_qcd_colour(k, nf, NC=3):
    CA, CF, TF = F(NC), F(NC * NC - 1, 2 * NC), F(1, 2)
    nf = F(nf)
    if k == (2, 0):
        return F(11, 3) * CA - F(4, 3) * TF * nf
    if k == (3, 0):
        return F(34, 3) * CA**2 - F(20, 3) * CA * TF * nf - 4 * CF * TF * nf
    if k == (4, 0):
        return (
            F(2857, 54) * CA**3
            - F(1415, 27) * CA**2 * TF * nf
            - F(205, 9) * CF * CA * TF * nf
            + 2 * CF**2 * TF * nf
            + F(44, 9) * CF * TF**2 * nf**2
            + F(158, 27) * CA * TF**2 * nf**2
        )
    raise KeyError(k)


def gamma_m_colour(order, nf, NC=3):
    """VLvR eq. (14), a = alpha_s/pi, returned multiplied by 4^order; zeta3 kept symbolic: (rat, z3)."""
    CA, CF, TF = F(NC), F(NC * NC - 1, 2 * NC), F(1, 2)
    nf = F(nf)
    if order == 1:
        return (4 * F(3, 4) * CF, F(0))
    if order == 2:
        return (16 * F(1, 16) * (F(3, 2) * CF**2 + F(97, 6) * CF * CA - F(10, 3) * CF * TF * nf), F(0))
    if order == 3:
        rat = (
            F(129, 2) * CF**3
            - F(129, 4) * CF**2 * CA
            + F(11413, 108) * CF * CA**2
            + CF**2 * TF * nf * (-46)
            + CF * CA * TF * nf * F(-556, 27)
            - F(140, 27) * CF * TF**2 * nf**2
        )
        z3 = CF**2 * TF * nf * 48 + CF * CA * TF * nf * (-48)
        return (rat, z3)
    raise KeyError(order)


# --------------------------------------------------------------------------- QED and mixed terms
# quark charges squared in the order in which flavours become active (d,u,s,c,b,t for nf>=2 the set
# {u,d} is unambiguous; for nf=1 the literature does not say which quark is meant)
_E2 = {"u": F(4, 9), "d": F(1, 9), "s": F(1, 9), "c": F(4, 9), "b": F(1, 9), "t": F(4, 9)}
ACTIVE = {0: "", 2: "ud", 3: "uds", 4: "udsc", 5: "udscb", 6: "udscbt"}
ACTIVE_NF1 = ["d", "u"]  # either convention is accepted


def _sums(flavs):
    s2 = sum((_E2[q] for q in flavs), F(0))
    s4 = sum((_E2[q] ** 2 for q in flavs), F(0))
    return s2, s4


def qed_coeff(k, flavs, nl, NC=3):
    """Surguladze eq. (7) for the active quark set `flavs` and nl charged leptons (exact Fraction)."""
    CF, TR = F(NC * NC - 1, 2 * NC), F(1, 2)
    s2, s4 = _sums(flavs)
    if k == ("qed", 0, 2):
        return -F(4, 3) * (nl + NC * s2)
    if k == ("qed", 0, 3):
        return -4 * (nl + NC * s4)
    if k == ("qed", 1, 2):
        return -4 * CF * NC * s2
    if k == ("qcd", 2, 1):
        return -4 * TR * s2
    raise KeyError(k)


# second entry: the numbers worked out by hand for the physical cases (quark set, nl) -> value
QED_HAND = {
    (("qed", 0, 2), "udscb", 3): F(-80, 9),
    (("qed", 0, 2), "udsc", 3): F(-76, 9),  # -4/3 (3 + 3*10/9)
    (("qed", 0, 2), "uds", 2): F(-16, 3),  # -4/3 (2 + 3*6/9)
    (("qed", 0, 2), "udscbt", 3): F(-32, 3),  # -4/3 (3 + 3*15/9)
    (("qed", 0, 2), "", 2): F(-8, 3),
    (("qed", 0, 3), "udscb", 3): F(-464, 27),  # -4 (3 + 3*(2*16+3)/81) = -4*(3+35/27)
    (("qed", 0, 3), "", 3): F(-12),
    (("qed", 1, 2), "udscb", 3): F(-176, 9),  # -4*4/3*3*11/9
    (("qed", 1, 2), "uds", 2): F(-32, 3),  # -16 * 6/9
    (("qcd", 2, 1), "udscb", 3): F(-22, 9),  # -2 * 11/9
    (("qcd", 2, 1), "udscbt", 3): F(-10, 3),  # -2 * 15/9
    (("qcd", 2, 1), "", 2): F(0),
}


# --------------------------------------------------------------------------- evaluation helpers
def poly_mp(coeffs, nf):
    return sum(tval(t) * mp.mpf(nf) ** i for i, t in enumerate(coeffs))


def poly_abs_mp(coeffs, nf):
    return sum(tabs(t) * mp.mpf(nf) ** i for i, t in enumerate(coeffs))


def beta_qcd(k, nf, flavs=None):
    """mpf value of beta_qcd[(j,k)] at nf (the mixed (2,1) term needs the active quark set)."""
    if k == (2, 1):
        fl = ACTIVE[nf] if flavs is None else flavs
        v = qed_coeff(("qcd", 2, 1), fl, 0)
        return mp.mpf(v.numerator) / v.denominator
    return poly_mp(BETA_QCD[k], nf)


def beta_qed(k, nf, nl, flavs=None):
    fl = ACTIVE[nf] if flavs is None else flavs
    v = qed_coeff(("qed",) + tuple(k), fl, nl)
    return mp.mpf(v.numerator) / v.denominator


def gamma_m(order, nf):
    return poly_mp(GAMMA_M[order], nf)


def beta_vec(order_qcd, nf):
    """[beta0..beta_{order-1}] as mpf."""
    return [beta_qcd((j + 2, 0), nf) for j in range(order_qcd)]


def gamma_vec(order_qcd, nf):
    return [gamma_m(j + 1, nf) for j in range(order_qcd)]


# --------------------------------------------------------------------------- self check
class TableError(Exception):
    pass


_checked = False


def selfcheck():
    global _checked
    if _checked:
        return
    # (A) against (B)
    for name, exact, dec, shift in (
        ("beta", BETA_QCD, BETA_QCD_DEC_PI, 2),
        ("gamma", GAMMA_M, GAMMA_M_DEC_PI, 0),
    ):
        for key, coeffs in exact.items():
            loops = (key[0] - 1) if name == "beta" else key
            norm = mp.mpf(4) ** loops
            if len(coeffs) != len(dec[key]):
                raise TableError(f"{name}{key}: degree mismatch between exact and decimal entry")
            for i, (t, d) in enumerate(zip(coeffs, dec[key])):
                got = tval(t) / norm
                if abs(got - mp.mpf(d)) > _ulp_of_decimal(d):
                    raise TableError(
                        f"{name}{key} nf^{i}: exact form gives {mp.nstr(got, 12)} but printed decimal is {d}"
                    )
    # (A) against (C), exact, at nf = 0..6
    for nf in range(7):
        for k in ((2, 0), (3, 0), (4, 0)):
            a = sum(t["1"] * F(nf) ** i for i, t in enumerate(BETA_QCD[k]))
            if any(t[z] != 0 for t in BETA_QCD[k] for z in ("z3", "z4", "z5")):
                raise TableError("unexpected zeta in beta0-2")
            if a != beta_qcd_colour(k, nf):
                raise TableError(f"beta{k} nf={nf}: SU(3) form {a} != colour form {beta_qcd_colour(k, nf)}")
        for o in (1, 2, 3):
            rat = sum(t["1"] * F(nf) ** i for i, t in enumerate(GAMMA_M[o]))
            z3 = sum(t["z3"] * F(nf) ** i for i, t in enumerate(GAMMA_M[o]))
            if (rat, z3) != gamma_m_colour(o, nf):
                raise TableError(f"gamma{o} nf={nf}: SU(3) form {(rat, z3)} != colour form {gamma_m_colour(o, nf)}")
    # QED formula against hand-worked numbers
    for (k, fl, nl), v in QED_HAND.items():
        if qed_coeff(k, fl, nl) != v:
            raise TableError(f"QED {k} {fl} nl={nl}: formula {qed_coeff(k, fl, nl)} != hand value {v}")
    # structural relations that hold in the literature: the mixed terms are the C_F T_F n_f part of
    # beta_1 with one gluon replaced by a photon
    for nf, fl in ACTIVE.items():
        s2, _ = _sums(fl)
        if qed_coeff(("qcd", 2, 1), fl, 0) != -4 * F(1, 2) * s2:
            raise TableError("mixed qcd")
    _checked = True


selfcheck()
