"""Synthetic DictLike classes for C40: one class per subset of field features.

Features: array, tuple, enum, nested, optional, dict, xgrid, plaindc. A class always has the plain scalar
fields f (float), i (int), b (bool), s (str). Every *leaf* of a value can be planted with the
NumPy scalar of its kind (np.float64 / np.int64 / np.bool_).

optional: o Optional[float], on Optional[int], oe Optional[Enum], ob Optional[bool], os Optional[str]
plaindc:  p, a plain (non-DictLike) nested dataclass (dictlike.py has dedicated code for both directions);
          its leaves are listed separately (`plain_leaves`), they are not part of the "*" plant

`build(features, hint)` returns (cls, leaves) where leaves is the ordered list of leaf names;
`instance(cls, features, plant)` constructs the object with plain Python leaves, except the
leaf named `plant` (or all leaves if plant == "*"), which gets the NumPy scalar.
"""

import dataclasses
import enum
import typing

import numpy as np
import numpy.typing as npt

FEATURES = ["array", "tuple", "enum", "nested", "optional", "dict", "xgrid", "plaindc"]


class Colour(enum.Enum):
    RED = "red"
    GREEN = "green-ish"


_cache = {}


def _inner_cls():
    from eko.io.dictlike import DictLike

    if "inner" not in _cache:

        @dataclasses.dataclass
        class Inner(DictLike):
            nf: float
            ni: int
            nl: typing.List[float]
            nt: typing.Tuple[float, int]

        Inner.__qualname__ = "Inner"
        _cache["inner"] = Inner
    return _cache["inner"]


def _plain_cls():
    if "plain" not in _cache:

        @dataclasses.dataclass
        class Plain:
            px: float
            pi: int
            pl: typing.List[float]
            ps: str

        Plain.__qualname__ = "Plain"
        _cache["plain"] = Plain
    return _cache["plain"]


def build(features, hint="np.ndarray"):
    """Create the DictLike subclass having the given feature fields."""
    from eko.interpolation import XGrid
    from eko.io.dictlike import DictLike

    key = (tuple(sorted(features)), hint)
    if key in _cache:
        return _cache[key]
    Inner = _inner_cls()
    fields = [("f", float), ("i", int), ("b", bool), ("s", str), ("l", typing.List[float])]
    if "array" in features:
        fields.append(("a", np.ndarray if hint == "np.ndarray" else npt.NDArray))
        fields.append(("a2", np.ndarray if hint == "np.ndarray" else npt.NDArray))
    if "tuple" in features:
        fields.append(("t", typing.Tuple[float, int]))
        fields.append(("lt", typing.List[typing.Tuple[float, int]]))
    if "enum" in features:
        fields.append(("e", Colour))
    if "nested" in features:
        fields.append(("n", Inner))
    if "optional" in features:
        fields.append(("o", typing.Optional[float]))
        fields.append(("on", typing.Optional[int]))
        fields.append(("oe", typing.Optional[Colour]))
        fields.append(("ob", typing.Optional[bool]))
        fields.append(("os", typing.Optional[str]))
    if "dict" in features:
        fields.append(("d", dict))
    if "xgrid" in features:
        fields.append(("x", XGrid))
        fields.append(("xl", XGrid))
    if "plaindc" in features:
        fields.append(("p", _plain_cls()))
    cls = dataclasses.make_dataclass(
        "Syn_" + "_".join(sorted(features)) if features else "Syn_plain", fields, bases=(DictLike,)
    )
    _cache[key] = cls
    return cls


# leaf name -> numpy kind
def leaves(features):
    out = [("f", "float64"), ("i", "int64"), ("b", "bool_"), ("l[1]", "float64")]
    if "tuple" in features:
        out += [("t[0]", "float64"), ("t[1]", "int64"), ("lt[1][0]", "float64"), ("lt[0][1]", "int64")]
    if "nested" in features:
        out += [("n.nf", "float64"), ("n.ni", "int64"), ("n.nl[0]", "float64"), ("n.nt[0]", "float64"), ("n.nt[1]", "int64")]
    if "optional" in features:
        out += [("o", "float64")]
    if "dict" in features:
        out += [("d.k", "float64"), ("d.m", "int64"), ("d.sub.z", "float64")]
    return out


def plain_leaves(features):
    """Leaves inside the nested plain dataclass (planted one at a time, never through "*")."""
    return [("p.px", "float64"), ("p.pi", "int64"), ("p.pl[0]", "float64")] if "plaindc" in features else []


NPK = {"float64": np.float64, "int64": np.int64, "bool_": np.bool_}
# further NumPy scalar kinds, planted at the always-present plain leaves (value exactly representable in every kind)
EXTRA_KINDS = [
    ("f", "float32", np.float32), ("f", "float16", np.float16), ("i", "int32", np.int32), ("i", "uint8", np.uint8),
    ("i", "int8", np.int8), ("s", "str_", np.str_),
]


def instance(cls, features, plant=None):
    """Construct through the constructor (values of the declared types)."""
    from eko.interpolation import XGrid

    kinds = dict(leaves(features) + plain_leaves(features))

    def v(name, value):
        if name.startswith("p."):
            return NPK[kinds[name]](value) if plant == name else value
        if plant == "*" or plant == name:
            return NPK[kinds[name]](value)
        return value

    kw = dict(f=v("f", 2.5), i=v("i", 7), b=v("b", True), s="text", l=[0.25, v("l[1]", 1.75)])
    if "array" in features:
        kw["a"] = np.array([0.5, -0.0, 3.25])
        kw["a2"] = np.array([[1, 2, 3], [4, 5, 6]])
    if "tuple" in features:
        kw["t"] = (v("t[0]", 91.2), v("t[1]", 5))
        kw["lt"] = [(10.0, v("lt[0][1]", 4)), (v("lt[1][0]", 100.5), 5)]
    if "enum" in features:
        kw["e"] = Colour.GREEN
    if "nested" in features:
        kw["n"] = _inner_cls()(
            nf=v("n.nf", 0.125), ni=v("n.ni", -3), nl=[v("n.nl[0]", 6.5), 7.5], nt=(v("n.nt[0]", 1.5), v("n.nt[1]", 2))
        )
    if "optional" in features:
        kw["o"] = v("o", 4.75)
        kw["on"] = None
        kw["oe"] = Colour.RED
        kw["ob"] = True
        kw["os"] = "word"
    if "dict" in features:
        kw["d"] = {"k": v("d.k", 8.5), "m": v("d.m", 9), "sub": {"z": v("d.sub.z", 0.75)}, "name": "x"}
    if "xgrid" in features:
        kw["x"] = XGrid([0.1, 0.5, 1.0], log=True)
        kw["xl"] = XGrid([0.2, 0.6, 1.0], log=False)
    if "plaindc" in features:
        kw["p"] = _plain_cls()(px=v("p.px", 0.375), pi=v("p.pi", 11), pl=[v("p.pl[0]", 2.25), 3.5], ps="plain")
    return cls(**kw)
