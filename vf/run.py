"""Entry point:  python -m vf.run Cxx --tier quick|thorough [--replay file]"""

import argparse
import importlib
import json
import os
import sys
import traceback

from vf.core.ctx import Ctx, HarnessError, Result, jsonable


def main(argv=None):
    import logging

    logging.disable(logging.WARNING)  # the library logs every skipped sector / unity operator
    ap = argparse.ArgumentParser()
    ap.add_argument("prop")
    ap.add_argument("--tier", default=os.environ.get("VERIF_TIER", "quick"), choices=["quick", "thorough"])
    ap.add_argument("--replay", default=None)
    args = ap.parse_args(argv)
    pid = args.prop.upper()
    seed = int(os.environ.get("VERIF_SEED", "0") or 0)
    mod = importlib.import_module(f"vf.props.{pid.lower()}")

    if args.replay:
        rep = json.loads(open(args.replay).read())
        case = rep["case"]
        ctx = Ctx(pid, args.tier, seed, mod.LEVEL)
        try:
            if isinstance(case, dict) and case.get("history_probe"):
                from vf.core.ctx import _sequence_eval
                import importlib as _il

                fn = getattr(_il.import_module(case["module"]), case["function"])
                a = _sequence_eval(fn, case["sequence"])
                b = _sequence_eval(fn, case["sequence"][::-1])[::-1]
                bad = [(c, x, y) for c, x, y in zip(case["sequence"], a, b) if x[:2] != y[:2]]
                for c, x, y in bad:
                    print(f"  ORDER-DEPENDENT case {json.dumps(c)[:300]}: forward {x[:2]} vs reverse {y[:2]}")
                print(f"replay {pid}: call-order probe, {len(bad)} order-dependent case(s)")
                return 1 if bad else 0
            res = mod.replay(case) if hasattr(mod, "replay") else mod.evaluate(case)
            print(f"replay {pid}: outcome={res.outcome}")
            for f in res.fails:
                print(f"  FAIL {f.signature}: {f.message}")
            if res.info is not None:
                print("  info:", json.dumps(jsonable(res.info))[:2000])
            return 1 if res.fails else 0
        finally:
            ctx.cleanup()

    ctx = Ctx(pid, args.tier, seed, mod.LEVEL)
    try:
        mod.run(ctx)
        floor = getattr(mod, "FLOOR_NONTRIVIAL", 2)
        return ctx.finish(floor_nontrivial=floor, floor_outcomes=getattr(mod, "FLOOR_OUTCOMES", 1))
    except HarnessError as e:
        print(f"HARNESS-ERROR property={pid}: {e}")
        return 2
    except Exception:
        print(f"HARNESS-ERROR property={pid}: unexpected exception in the harness")
        traceback.print_exc()
        return 2
    finally:
        ctx.cleanup()


if __name__ == "__main__":
    sys.exit(main())
