"""Regenerate /verif/MANIFEST.json from the property modules that exist (python -m vf.manifest_gen)."""

import importlib
import json
import pathlib

ROOT = pathlib.Path(__file__).resolve().parents[1]

NOT_APPLICABLE = {
    "C28": "needs the Rust crate `ekore` built from the tree; its dependency `num` is not in the offline cargo registry (cargo build --offline fails), so there is no second program to run",
    "C54": "needs the Rust reader `dekoder`; ndarray, ndarray-npy, lz4_flex, yaml-rust2 cannot be resolved offline, so the reader cannot be built or executed",
}


def main():
    props = [json.loads(l) for l in (ROOT / "properties.jsonl").read_text().splitlines() if l.strip()]
    checks, na = [], []
    for p in props:
        pid = p["id"]
        modpath = ROOT / "vf" / "props" / f"{pid.lower()}.py"
        if pid in NOT_APPLICABLE:
            na.append({"property_id": pid, "reason": NOT_APPLICABLE[pid]})
            continue
        if not modpath.exists():
            na.append({"property_id": pid, "reason": "check not built yet (planned in DESIGN.md section 3)"})
            continue
        mod = importlib.import_module(f"vf.props.{pid.lower()}")
        checks.append(
            {
                "property_id": pid,
                "quick_cmd": f"./check {pid} --tier quick",
                "thorough_cmd": f"./check {pid} --tier thorough",
                "evidence_file": f"/verif/evidence/{pid}.json",
                "replay_cmd_template": f"./check {pid} --replay {{path}}",
                "engine": getattr(mod, "ENGINE", "vf"),
                "level_claimed": {
                    "category": mod.LEVEL,
                    "text": getattr(mod, "LEVEL_TEXT", (mod.__doc__ or "").strip().split("\n\n")[0]),
                    "design_ref": getattr(mod, "DESIGN_REF", "DESIGN.md section 3, " + pid),
                },
                "level_note": getattr(
                    mod,
                    "LEVEL_NOTE",
                    "decides the property within the stated bound only; trusted: CPython, NumPy/SciPy, mpmath, the reference model in the module",
                ),
                "technique": getattr(mod, "TECHNIQUE", "bounded exhaustive enumeration on the real code against a reference model"),
            }
        )
    man = {
        "version": 1,
        "setup_cmd": "cd /verif && /venv/bin/pip install -q --no-index --find-links /opt/veriftools/wheels --target /verif/.deps mpmath jsonschema && ./check --help >/dev/null 2>&1; test -d /verif/.deps/mpmath",
        "hooks": {
            "guard": "EKO_VERIF",
            "enable": "checks import /repo/src directly (editable install); all interception is done by monkeypatching from the harness process, no in-tree hook exists",
            "baseline_off_cmd": "cd /repo && env -u EKO_VERIF /venv/bin/python -m pytest -ra -q -p no:cacheprovider --timeout=900 --continue-on-collection-errors",
            "source_commits": [],
            "add_only": True,
        },
        "engines": [
            {
                "name": "vf",
                "path": "/verif/vf",
                "serves_properties": [c["property_id"] for c in checks],
                "kind_free_text": "hand-written bounded exhaustive explorers (history BFS, schedule enumeration, fault-point enumeration, configuration and input lattices) driving the real eko code under NUMBA_DISABLE_JIT=1",
            }
        ],
        "checks": checks,
        "not_applicable": na,
        "notes": "Every check: ./check Cxx --tier quick|thorough; exit 0 held, exit 1 + VIOLATION line, exit 2 harness error. Known findings: /verif/known_findings.jsonl.",
    }
    (ROOT / "MANIFEST.json").write_text(json.dumps(man, indent=1) + "\n")
    schema = pathlib.Path("/root/.vp/MANIFEST.schema.json")
    if schema.exists():
        import jsonschema

        jsonschema.validate(man, json.loads(schema.read_text()))
    print(f"MANIFEST.json: {len(checks)} checks, {len(na)} not_applicable")


if __name__ == "__main__":
    main()
