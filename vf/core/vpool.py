"""X-sched: a virtual multiprocessing.Pool whose schedules are enumerated (DESIGN §2.1).

Semantics modelled (those of multiprocessing.Pool with fork + pickled bound methods):
  * every chunk of tasks is executed on a *copy* of the callable's bound object (the parent pickles
    `self.run_op_integration` once per chunk; what a task writes into `self` never reaches the
    parent nor other chunks);
  * `map` returns results in submission order, `imap` too, `imap_unordered` in completion order;
  * tasks of one worker run in FIFO order; tasks of different workers interleave arbitrarily.
A schedule = (assignment of tasks to workers, global execution order consistent with FIFO).
Module-level state is shared by all virtual workers (an over-approximation of sharing: in reality
each worker process has its own copy, i.e. a subset of the tasks sees it).
"""

from __future__ import annotations

import copy
import itertools


def schedules(ntasks: int, nworkers: int):
    """All (assignment, order) pairs, modulo renaming of workers."""
    out = []
    seen = set()
    for assign in itertools.product(range(nworkers), repeat=ntasks):
        # canonical worker naming: first appearance order
        ren, canon = {}, []
        for w in assign:
            ren.setdefault(w, len(ren))
            canon.append(ren[w])
        canon = tuple(canon)
        if canon in seen:
            continue
        seen.add(canon)
        for order in itertools.permutations(range(ntasks)):
            ok = True
            pos = {t: i for i, t in enumerate(order)}
            for a in range(ntasks):
                for b in range(a + 1, ntasks):
                    if canon[a] == canon[b] and pos[a] > pos[b]:
                        ok = False
            if ok:
                out.append((canon, tuple(order)))
    return out


class PoolController:
    """Decides the schedule of every Pool created while installed."""

    def __init__(self, target_call=None, schedule=None):
        self.target_call = target_call  # index of the map call that gets `schedule`
        self.schedule = schedule
        self.calls = []  # (nworkers, ntasks, method)
        self.nontrivial_order = False
        self.worker_reuse = False

    def factory(self, processes=None, *a, **kw):
        return VirtualPool(self, processes)


class VirtualPool:
    def __init__(self, ctl: PoolController, processes):
        self.ctl = ctl
        self.n = processes

    def __enter__(self):
        return self

    def __exit__(self, *exc):
        return False

    def close(self):
        pass

    def join(self):
        pass

    def terminate(self):
        pass

    def _run(self, func, iterable, method):
        tasks = list(iterable)
        idx = len(self.ctl.calls)
        self.ctl.calls.append((self.n, len(tasks), method))
        if self.ctl.target_call == idx and self.ctl.schedule is not None:
            assign, order = self.ctl.schedule
            if len(assign) != len(tasks):
                raise RuntimeError(f"schedule for {len(assign)} tasks, call has {len(tasks)}")
        else:
            assign = tuple(i % max(self.n or 1, 1) for i in range(len(tasks)))
            order = tuple(range(len(tasks)))
        if tuple(order) != tuple(range(len(tasks))):
            self.ctl.nontrivial_order = True
        if len(set(assign)) < len(assign):
            self.ctl.worker_reuse = True
        owner = getattr(func, "__self__", None)
        results = {}
        for t in order:
            if owner is not None:
                # a pickled copy of the bound object per chunk (chunksize 1 for tiny grids)
                f = getattr(copy.deepcopy(owner), func.__name__)
            else:
                f = func
            results[t] = f(tasks[t])
        return results, order

    def map(self, func, iterable, chunksize=None):
        res, _ = self._run(func, iterable, "map")
        return [res[t] for t in sorted(res)]

    def imap(self, func, iterable, chunksize=1):
        res, _ = self._run(func, iterable, "imap")
        return iter([res[t] for t in sorted(res)])

    def imap_unordered(self, func, iterable, chunksize=1):
        res, order = self._run(func, iterable, "imap_unordered")
        return iter([res[t] for t in order])

    def starmap(self, func, iterable, chunksize=None):
        return self.map(lambda args: func(*args), iterable)

    def apply_async(self, func, args=(), kwds=None, callback=None, error_callback=None):
        raise NotImplementedError("VirtualPool.apply_async: not used by eko at the pinned commit")

    def map_async(self, func, iterable, chunksize=None, callback=None, error_callback=None):
        res = self.map(func, iterable)

        class _R:
            def get(self, timeout=None):
                return res

            def wait(self, timeout=None):
                return None

            def ready(self):
                return True

            def successful(self):
                return True

        return _R()


class installed:
    """Context manager: replace eko.evolution_operator.Pool by the controller's factory."""

    def __init__(self, ctl: PoolController):
        self.ctl = ctl

    def __enter__(self):
        import sys

        import eko.evolution_operator  # noqa

        self.mod = sys.modules["eko.evolution_operator"]
        self.saved = self.mod.Pool
        self.mod.Pool = self.ctl.factory
        return self.ctl

    def __exit__(self, *exc):
        self.mod.Pool = self.saved
        return False
