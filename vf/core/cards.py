"""Build eko runcards from flat configuration dictionaries (the alphabet of X-conf).

A *config* is a plain JSON-able dict; every key has a default, so a case only lists deviations.
"""

from __future__ import annotations

import copy
import math

METHODS = [
    "iterate-exact",
    "iterate-expanded",
    "perturbative-exact",
    "perturbative-expanded",
    "truncated",
    "ordered-truncated",
    "decompose-exact",
    "decompose-expanded",
]

DEFAULT = dict(
    order=[1, 0],
    alphas=0.118,
    alphaem=0.007496252,
    ref=[91.2, 5],
    em_running=False,
    masses=[2.0, 4.5, 173.07],
    mass_refs=None,  # MSbar reference scales; None -> nan (POLE)
    scheme="POLE",
    ratios=[1.0, 1.0, 1.0],
    xif=1.0,
    n3lo_ad_variation=[0, 0, 0, 0, 0, 0, 0],
    matching_order=None,
    use_fhmruvv=True,
    init=[1.65, 4],
    mugrid=[[100.0, 5]],
    xgrid=[0.1, 0.5, 1.0],
    method="iterate-exact",
    max_order=[10, 0],
    iterations=10,
    degree=1,
    is_log=True,
    sv=None,
    inversion=None,
    cores=1,
    polarized=False,
    time_like=False,
    skip_singlet=False,
    skip_non_singlet=False,
)


def full(cfg: dict) -> dict:
    c = copy.deepcopy(DEFAULT)
    for k, v in cfg.items():
        if k not in c:
            raise KeyError(f"unknown config key {k}")
        c[k] = copy.deepcopy(v)
    return c


def _inf(x):
    if isinstance(x, str):
        return {"inf": math.inf, "-inf": -math.inf, "nan": math.nan}[x]
    return x


def build(cfg: dict):
    """Return (TheoryCard, OperatorCard) for a config."""
    from eko.io import runcards
    from eko.io.types import ReferenceRunning

    c = full(cfg)
    refs = c["mass_refs"] or [math.nan] * 3
    theory = dict(
        order=list(c["order"]),
        couplings=dict(
            alphas=c["alphas"],
            alphaem=c["alphaem"],
            ref=(c["ref"][0], c["ref"][1]),
            em_running=c["em_running"],
        ),
        heavy=dict(
            masses=[ReferenceRunning([_inf(m), _inf(r)]) for m, r in zip(c["masses"], refs)],
            masses_scheme=c["scheme"],
            matching_ratios=[_inf(r) for r in c["ratios"]],
        ),
        xif=c["xif"],
        n3lo_ad_variation=tuple(c["n3lo_ad_variation"]),
        matching_order=list(c["matching_order"])
        if c["matching_order"] is not None
        else [c["order"][0] - 1, 0],
        use_fhmruvv=c["use_fhmruvv"],
    )
    operator = dict(
        init=(c["init"][0], c["init"][1]),
        mugrid=[(_inf(m), n) for m, n in c["mugrid"]],
        xgrid=list(c["xgrid"]),
        configs=dict(
            evolution_method=c["method"],
            ev_op_max_order=list(c["max_order"]),
            ev_op_iterations=c["iterations"],
            interpolation_polynomial_degree=c["degree"],
            interpolation_is_log=c["is_log"],
            scvar_method=c["sv"],
            inversion_method=c["inversion"],
            n_integration_cores=c["cores"],
            polarized=c["polarized"],
            time_like=c["time_like"],
        ),
        debug=dict(skip_singlet=c["skip_singlet"], skip_non_singlet=c["skip_non_singlet"]),
    )
    return runcards.TheoryCard.from_dict(theory), runcards.OperatorCard.from_dict(operator)


def ffns_ratios(nf: int):
    """Matching ratios that freeze the number of flavours at nf (walls of heavier quarks at inf)."""
    r = [1.0, 1.0, 1.0]
    for i in range(nf - 3, 3):
        r[i] = "inf"
    return r


def solve(cfg: dict, path):
    """Run the real eko.solve for a config; return path."""
    import eko

    th, op = build(cfg)
    eko.solve(th, op, path)
    return path


def read_ops(path):
    """Return {ep: (operator, error)} of an archive."""
    from eko.io.struct import EKO

    out = {}
    with EKO.read(path) as e:
        for ep, op in e.items():
            out[ep] = (op.operator.copy(), None if op.error is None else op.error.copy())
    return out


_counter = [0]


def scratch_path(tag="eko"):
    import os
    import pathlib

    _counter[0] += 1
    d = pathlib.Path(os.environ.get("VERIF_SCRATCH_DIR", "/verif/.scratch/adhoc"))
    d.mkdir(parents=True, exist_ok=True)
    return d / f"{tag}-{os.getpid()}-{_counter[0]}.tar"


def solve_ops(cfg: dict, tag="eko"):
    """Solve into a scratch archive, read all operators back, remove the archive."""
    p = scratch_path(tag)
    try:
        solve(cfg, p)
        return read_ops(p)
    finally:
        try:
            p.unlink()
        except FileNotFoundError:
            pass
