"""Run context shared by all checks: case bookkeeping, parallel map, evidence, findings.

Contract (see DESIGN.md §2.3):
  exit 0  property held on everything explored (KNOWN-FINDING lines allowed)
  exit 1  + "VIOLATION property=<id> replay=<path>" for a failure not listed as known
  exit 2  harness error (non-deterministic failure, vacuous exploration, crash of the harness)
"""

from __future__ import annotations

import hashlib
import json
import math
import os
import pathlib
import random
import shutil
import sys
import time
import traceback
from concurrent.futures import ProcessPoolExecutor
import multiprocessing as mp

ROOT = pathlib.Path(__file__).resolve().parents[2]
EVIDENCE_DIR = ROOT / "evidence"
REPLAY_DIR = ROOT / "replays"
# development aid only (never set by a MANIFEST command): try a candidate findings file before it is committed
FINDINGS = pathlib.Path(os.environ.get("VERIF_FINDINGS_FILE") or (ROOT / "known_findings.jsonl"))
SCHEMA = pathlib.Path("/root/.vp/EVIDENCE.schema.json")
SCHEMA_FALLBACK = ROOT / "vf" / "core" / "EVIDENCE.schema.json"


class HarnessError(Exception):
    """The machinery (not the code under test) misbehaved."""


def jsonable(o):
    """Best-effort conversion to plain JSON data (for cases, samples, replays)."""
    import numpy as np

    if isinstance(o, dict):
        return {str(k): jsonable(v) for k, v in o.items()}
    if isinstance(o, (list, tuple, set, frozenset)):
        return [jsonable(v) for v in o]
    if isinstance(o, (np.integer,)):
        return int(o)
    if isinstance(o, (np.floating,)):
        return jsonable(float(o))
    if isinstance(o, np.ndarray):
        return jsonable(o.tolist())
    if isinstance(o, complex):
        return {"re": o.real, "im": o.imag}
    if isinstance(o, float):
        if math.isnan(o):
            return "nan"
        if math.isinf(o):
            return "inf" if o > 0 else "-inf"
        return o
    if isinstance(o, (str, int, bool)) or o is None:
        return o
    if isinstance(o, pathlib.Path):
        return str(o)
    if hasattr(o, "value") and hasattr(o, "name"):
        return jsonable(o.value)
    return repr(o)


def case_key(case) -> str:
    return hashlib.sha1(
        json.dumps(jsonable(case), sort_keys=True).encode()
    ).hexdigest()[:16]


class Fail:
    """One failed oracle on one case.

    signature: call site + discrete coordinates (continuous lattice values stripped), the
    identity under which the defect is listed in known_findings.jsonl.
    """

    def __init__(self, signature: str, message: str):
        self.signature = signature
        self.message = message

    def to_json(self):
        return {"signature": self.signature, "message": self.message}


class Result:
    """Observation of one case."""

    def __init__(self, outcome="ok", fails=None, nontrivial=True, info=None):
        self.outcome = str(outcome)
        self.fails = list(fails or [])
        self.nontrivial = bool(nontrivial)
        self.info = info  # JSON-able extras (measured maxima etc.)

    def fail(self, signature, message):
        self.fails.append(Fail(signature, message))
        return self


def _guarded(evaluate, case):
    """Run evaluate(case) in a worker; an exception of the harness itself is marshalled back."""
    try:
        res = evaluate(case)
        if not isinstance(res, Result):
            raise HarnessError(f"evaluate returned {type(res)}")
        return (
            res.outcome,
            [(f.signature, f.message) for f in res.fails],
            res.nontrivial,
            jsonable(res.info),
            None,
        )
    except BaseException:  # noqa
        return (None, [], False, None, traceback.format_exc())


def _guarded_timed(evaluate, case):
    t = time.time()
    r = _guarded(evaluate, case)
    return r, time.time() - t


_SEQ_CODE = (
    "import importlib, json, sys, logging\n"
    "logging.disable(logging.WARNING)\n"
    "from vf.core.ctx import _guarded\n"
    "m = importlib.import_module(sys.argv[1])\n"
    "f = getattr(m, sys.argv[2])\n"
    "out = []\n"
    "for case in json.loads(sys.stdin.read()):\n"
    "    r = _guarded(f, case)\n"
    "    out.append([r[0], sorted(x[0] for x in r[1]), r[4]])\n"
    "print('SEQ ' + json.dumps(out))\n"
)


def _sequence_eval(evaluate, cases):
    """Evaluate the cases one after the other in ONE pristine interpreter; returns [(outcome, [signatures], tb)] or None."""
    import subprocess

    try:
        out = subprocess.run(
            [sys.executable, "-c", _SEQ_CODE, evaluate.__module__, evaluate.__name__],
            input=json.dumps(jsonable(cases)), capture_output=True, text=True, timeout=3600,
        )
    except Exception:  # noqa
        return None
    for line in out.stdout.splitlines():
        if line.startswith("SEQ "):
            return json.loads(line[4:])
    return None


def _fresh_eval(evaluate, case):
    """Evaluate one case in a pristine interpreter process; returns (outcome, fails, nontrivial, info) or None."""
    import subprocess

    code = (
        "import importlib, json, sys\n"
        "from vf.core.ctx import _guarded\n"
        "m = importlib.import_module(sys.argv[1])\n"
        "r = _guarded(getattr(m, sys.argv[2]), json.loads(sys.stdin.read()))\n"
        "print('FRESH ' + json.dumps([r[0], r[1], r[2], r[3], r[4]]))\n"
    )
    try:
        out = subprocess.run(
            [sys.executable, "-c", code, evaluate.__module__, evaluate.__name__],
            input=json.dumps(jsonable(case)), capture_output=True, text=True, timeout=3600,
        )
    except Exception:  # noqa
        return None
    for line in out.stdout.splitlines():
        if line.startswith("FRESH "):
            r = json.loads(line[6:])
            if r[4] is not None:
                return None
            return (r[0], [tuple(x) for x in r[1]], r[2], r[3])
    return None


def _preimport():
    """Import the package under test in the parent so that forked workers share it."""
    try:
        import eko.runner.managed  # noqa
        import eko.io.struct  # noqa
        import mpmath  # noqa
    except Exception:  # the check itself will report import problems
        pass


def _worker_init():
    import logging

    logging.disable(logging.WARNING)
    # workers must not inherit a half-used scratch cleanup duty
    os.environ["VERIF_WORKER"] = "1"


class Ctx:
    def __init__(self, prop_id: str, tier: str, seed: int, level: str):
        self.prop_id = prop_id
        self.tier = tier
        self.seed = seed
        self.level = level
        self.t0 = time.time()
        self.evaluations = 0
        self.nontrivial_keys = set()
        self.outcomes = {}
        self.samples = []
        self.fails = []  # (case, Fail)
        self.extra = {}
        self.assumptions = []
        self.rule = ""
        self.exhaustive = True
        self.measures = {}
        self.rng = random.Random(seed)
        self.jobs = int(os.environ.get("VERIF_JOBS", "0")) or (os.cpu_count() or 4)
        if "VERIF_JOBS" not in os.environ:
            # an overloaded machine (many checks at once) only thrashes with a full-width pool each
            try:
                if os.getloadavg()[0] > 4 * (os.cpu_count() or 4):
                    self.jobs = max(2, self.jobs // 4)
            except OSError:
                pass
        base = os.environ.get("VERIF_SCRATCH") or str(ROOT / ".scratch")
        self.scratch = pathlib.Path(base) / f"{prop_id}-{os.getpid()}"
        self.scratch.mkdir(parents=True, exist_ok=True)
        os.environ["VERIF_SCRATCH_DIR"] = str(self.scratch)
        os.environ["TMPDIR"] = str(self.scratch)
        import tempfile

        tempfile.tempdir = str(self.scratch)
        self._deadline = None
        cap = os.environ.get("VERIF_TIME_CAP")
        if cap:
            self._deadline = self.t0 + float(cap)

    # ---------------------------------------------------------------- bookkeeping
    def thorough(self) -> bool:
        return self.tier == "thorough"

    def shuffled(self, seq):
        """Permute enumeration order with VERIF_SEED (the set explored is unchanged)."""
        seq = list(seq)
        if self.seed:
            self.rng.shuffle(seq)
        return seq

    def measure(self, name, value):
        """Track the maximum of a measured quantity (written to the evidence)."""
        try:
            v = float(value)
        except Exception:
            return
        if math.isnan(v):
            return
        if name not in self.measures or v > self.measures[name]:
            self.measures[name] = v

    def record(self, case, result: Result):
        self.evaluations += 1
        k = case_key(case)
        if result.nontrivial:
            self.nontrivial_keys.add(k)
        self.outcomes[result.outcome] = self.outcomes.get(result.outcome, 0) + 1
        if len(self.samples) < 3 or (len(self.samples) < 6 and result.fails):
            self.samples.append(
                {"case": jsonable(case), "outcome": result.outcome, "info": jsonable(result.info)}
            )
        if isinstance(result.info, dict):
            for kk, vv in result.info.items():
                if kk.startswith("max_") and isinstance(vv, (int, float)):
                    self.measure(kk, vv)
        for f in result.fails:
            self.fails.append((case, f))

    def run_cases(self, cases, evaluate, parallel=True, chunksize=None, redo=True):
        """Evaluate every case (complete enumeration; order permuted by the seed)."""
        cases = self.shuffled(cases)
        n = len(cases)
        if n == 0:
            raise HarnessError("empty case list")
        results = []
        if parallel and self.jobs > 1 and n > 1:
            _preimport()
            cs = chunksize or max(1, min(64, n // (self.jobs * 8) or 1))
            ex = self._executor()
            it = ex.map(_guarded_timed, [evaluate] * n, cases, chunksize=cs)
            durations = []
            for case, (out, dt) in zip(cases, it):
                results.append((case, out))
                durations.append(dt)
        else:
            durations = []
            for case in cases:
                out, dt = _guarded_timed(evaluate, case)
                results.append((case, out))
                durations.append(dt)
        self._history_probe(evaluate, cases, durations, results)
        for case, (outcome, fails, nontrivial, info, tb) in results:
            if tb is not None:
                raise HarnessError(f"evaluate crashed on case {jsonable(case)}:\n{tb}")
            res = Result(outcome, [Fail(s, m) for s, m in fails], nontrivial, info)
            if res.fails and redo and self._redo_budget(res.fails):
                # replay discipline: the same case must fail the same way a second time
                o2 = _guarded(evaluate, case)
                if o2[4] is not None or o2[0] != outcome or sorted(s for s, _ in o2[1]) != sorted(
                    s for s, _ in fails
                ):
                    # The case failed in a long-lived worker but not (or differently) when re-run here: its outcome depends
                    # on what the process evaluated before. Decide it in two pristine interpreter processes: if both fail
                    # identically the failure is genuine (and reproducible from the case alone) and is reported as
                    # observed there; otherwise this is a harness error.
                    self._fresh_used = getattr(self, "_fresh_used", 0) + 1
                    f1, f2 = (_fresh_eval(evaluate, case), _fresh_eval(evaluate, case)) if self._fresh_used <= 12 else (None, None)
                    if f1 is not None and f2 is not None and f1[1] and sorted(x[0] for x in f1[1]) == sorted(x[0] for x in f2[1]):
                        outcome, nontrivial, info = f1[0], f1[2], f1[3]
                        res = Result(outcome, [Fail(s_, m_ + " [confirmed in two pristine processes; in a long-lived worker the outcome depended on earlier cases: state is kept between calls]") for s_, m_ in f1[1]], nontrivial, info)
                    else:
                        # not reproducible from the case alone: never reported as a violation; remembered, and turned into a
                        # harness error at the end unless reproducible failures explain the run
                        if not hasattr(self, "order_dependent"):
                            self.order_dependent = []
                        self.order_dependent.append((jsonable(case), [s_ for s_, _ in fails], (f1 and f1[:2]), (f2 and f2[:2])))
                        res = Result(outcome if o2[0] is None else o2[0], [], nontrivial, info)
            self.record(case, res)
        return results

    def _history_probe(self, evaluate, cases, durations, results):
        """Call-order exploration: the first K cheap cases are evaluated in ONE pristine process in enumeration order, and in
        another pristine process in reverse order. A case is a pure function of its JSON: if its observation depends on the
        order, the code under test (or the harness) keeps state between calls; reported with both sequences as replay."""
        if os.environ.get("VERIF_HISTORY_PROBE", "1") == "0" or len(cases) < 2:
            return
        self._probes_done = getattr(self, "_probes_done", 0)
        if self._probes_done >= 2:
            return
        self._probes_done += 1
        order = sorted(range(len(cases)), key=lambda i: case_key(cases[i]))  # seed-independent choice
        pick = [i for i in order if durations[i] < 2.0 and results[i][1][4] is None][:16]
        if len(pick) < 2:
            return
        seq = [cases[i] for i in pick]
        a = _sequence_eval(evaluate, seq)
        b = _sequence_eval(evaluate, seq[::-1])
        self.extra["call_order_probe_cases"] = self.extra.get("call_order_probe_cases", 0) + len(seq)
        if a is None or b is None:
            raise HarnessError("call-order probe: the sequence could not be evaluated in a pristine process")
        b = b[::-1]
        for case, ra, rb in zip(seq, a, b):
            if ra[2] is not None or rb[2] is not None:
                raise HarnessError(f"call-order probe: evaluate crashed: {ra[2] or rb[2]}")
            if ra[0] != rb[0] or ra[1] != rb[1]:
                sig = "call-history-dependence/" + (sorted(set(ra[1]) ^ set(rb[1])) or [f"{ra[0]} vs {rb[0]}"])[0]
                self.fails.append((
                    {"history_probe": True, "module": evaluate.__module__, "function": evaluate.__name__, "sequence": jsonable(seq), "case": jsonable(case)},
                    Fail(sig, f"case {jsonable(case)} gives outcome {ra[0]!r} / failures {ra[1]} when the {len(seq)} probe cases are evaluated in "
                              f"enumeration order in one fresh process, but {rb[0]!r} / {rb[1]} when they are evaluated in reverse order: "
                              "the result of a call depends on earlier calls (state kept between calls)"),
                ))
                return

    def add_fail(self, case, signature, message):
        """Failure of a cross-case oracle (decided in run() after the cases were evaluated)."""
        self.fails.append((case, Fail(signature, message)))

    def _redo_budget(self, fails):
        """Re-run the first two failing cases of every signature (not hundreds of identical ones)."""
        if not hasattr(self, "_redone"):
            self._redone = {}
        need = False
        for f in fails:
            c = self._redone.get(f.signature, 0)
            if c < 2:
                need = True
            self._redone[f.signature] = c + 1
        return need

    def _executor(self):
        """One pool of forked workers per run (forked after the package under test is imported)."""
        if getattr(self, "_pool", None) is None:
            self._pool = ProcessPoolExecutor(
                max_workers=self.jobs, mp_context=mp.get_context("fork"), initializer=_worker_init
            )
        return self._pool

    # ---------------------------------------------------------------- findings
    @staticmethod
    def known_findings():
        out = []
        if FINDINGS.exists():
            for line in FINDINGS.read_text().splitlines():
                line = line.strip()
                if not line or line.startswith("#"):
                    continue
                out.append(json.loads(line))
        return out

    # ---------------------------------------------------------------- finish
    def finish(self, floor_nontrivial=2, floor_outcomes=1):
        """Write evidence, print verdict lines, return exit status."""
        wall = time.time() - self.t0
        known = {
            (k["property"], k["signature"]): k
            for k in self.known_findings()
            if k.get("status") == "known"
        }
        new, listed = {}, {}
        for case, f in self.fails:
            key = (self.prop_id, f.signature)
            (listed if key in known else new).setdefault(f.signature, []).append((case, f))
        status = 0
        for sig, items in sorted(listed.items()):
            print(
                f"KNOWN-FINDING: property={self.prop_id} {sig}: {known[(self.prop_id, sig)].get('what','')}"
                f" ({len(items)} failing case(s), e.g. {items[0][1].message[:200]})"
            )
        replay_dir = REPLAY_DIR / self.prop_id
        for sig, items in sorted(new.items()):
            status = 1
            case, f = items[0]
            replay_dir.mkdir(parents=True, exist_ok=True)
            path = replay_dir / (hashlib.sha1(sig.encode()).hexdigest()[:12] + ".json")
            path.write_text(
                json.dumps(
                    {
                        "property": self.prop_id,
                        "signature": sig,
                        "message": f.message,
                        "case": jsonable(case),
                        "n_failing_cases": len(items),
                        "replay_cmd": f"./check {self.prop_id} --replay {path}",
                    },
                    indent=1,
                )
            )
            print(f"VIOLATION property={self.prop_id} replay={path}")
            print(f"  signature: {sig}\n  {f.message[:600]}\n  failing cases: {len(items)}")
        od = getattr(self, "order_dependent", [])
        if od:
            print(
                f"NOTE property={self.prop_id}: {len(od)} case(s) failed in a long-lived worker but not when re-run alone "
                f"(outcome depends on earlier cases), e.g. {str(od[0])[:400]}"
            )
            if status == 0:
                self._write_evidence(wall, 0)
                print(f"HARNESS-ERROR property={self.prop_id}: order-dependent failures that no reproducible failure explains")
                return 2
        distinct_nt = len(self.nontrivial_keys)
        if status == 0 and (distinct_nt < floor_nontrivial or len(self.outcomes) < floor_outcomes):
            self._write_evidence(wall, len(new))
            print(
                f"HARNESS-ERROR property={self.prop_id} vacuous exploration: "
                f"{distinct_nt} non-trivial cases (floor {floor_nontrivial}), "
                f"{len(self.outcomes)} outcomes (floor {floor_outcomes})"
            )
            return 2
        self._write_evidence(wall, len(new))
        print(
            f"{self.prop_id} [{self.tier}] evaluations={self.evaluations} nontrivial={distinct_nt} "
            f"outcomes={len(self.outcomes)} known={len(listed)} violations={len(new)} wall={wall:.1f}s"
            + (f" exhaustive={self.exhaustive}")
        )
        return status

    def _write_evidence(self, wall, nviol):
        cov = {
            "evaluations": int(self.evaluations),
            "distinct_nontrivial": int(len(self.nontrivial_keys)),
            "rule": self.rule,
            "samples": self.samples[:6] or [{"note": "no case recorded"}],
            "exhaustive": bool(self.exhaustive),
            "distinct_outcomes": len(self.outcomes),
            "outcome_histogram": dict(sorted(self.outcomes.items(), key=lambda kv: -kv[1])[:25]),
            "measured_maxima": {k: v for k, v in sorted(self.measures.items())},
        }
        cov.update(jsonable(self.extra))
        ev = {
            "property_id": self.prop_id,
            "tier": self.tier,
            "seed": int(self.seed),
            "level": self.level,
            "coverage": cov,
            "assumptions": list(self.assumptions),
            "wall_s": round(wall, 3),
            "violations": int(nviol),
        }
        schema_path = SCHEMA if SCHEMA.exists() else SCHEMA_FALLBACK
        if schema_path.exists():
            import jsonschema

            jsonschema.validate(ev, json.loads(schema_path.read_text()))
        EVIDENCE_DIR.mkdir(exist_ok=True)
        tmp = EVIDENCE_DIR / f".{self.prop_id}.json.tmp"
        tmp.write_text(json.dumps(ev, indent=1))
        os.replace(tmp, EVIDENCE_DIR / f"{self.prop_id}.json")

    def cleanup(self):
        if getattr(self, "_pool", None) is not None:
            self._pool.shutdown(wait=False, cancel_futures=True)
            self._pool = None
        shutil.rmtree(self.scratch, ignore_errors=True)
        try:
            self.scratch.parent.rmdir()
        except OSError:
            pass
