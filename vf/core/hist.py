"""X-hist: explicit-state breadth-first search over operation histories (DESIGN §2.1).

A state is the history that reaches it; it is re-created by replaying the history on a fresh
real object (live objects hold files/arrays and do not deep-copy reliably). The property module
supplies a picklable `evaluate(case)` with case = {"history": [...], "op": op, ...}: it rebuilds
the object, replays `history`, applies `op`, compares every observation with the reference model
stepped in lock-step and returns Result(info={"state": canonical_key, ...}).
"""

from __future__ import annotations

from .ctx import Ctx, HarnessError


def bfs(ctx: Ctx, alphabet, evaluate, max_depth, init_key="<init>", extra_case=None, max_states=None):
    seen = {init_key}
    frontier = [[]]
    transitions = 0
    completed = 0
    capped = False
    for depth in range(1, max_depth + 1):
        if not frontier:
            break
        cases = []
        for h in frontier:
            for op in alphabet:
                c = {"history": h, "op": op}
                if extra_case:
                    c.update(extra_case)
                cases.append(c)
        results = ctx.run_cases(cases, evaluate)
        # canonical order so the chosen representatives do not depend on the seed
        results.sort(key=lambda r: repr((r[0]["history"], r[0]["op"])))
        new = []
        for case, (outcome, fails, nt, info, tb) in results:
            transitions += 1
            if fails:
                continue  # a failing history is reported, not extended
            if not isinstance(info, dict) or "state" not in info:
                raise HarnessError("hist.bfs: evaluate must return info['state']")
            k = info["state"]
            if k not in seen:
                seen.add(k)
                new.append(case["history"] + [case["op"]])
        completed = depth
        frontier = new
        if max_states and len(seen) > max_states and depth < max_depth:
            capped = True
            break
    if capped:
        ctx.exhaustive = False
    ctx.extra["states"] = ctx.extra.get("states", 0) + len(seen)
    ctx.extra["transitions"] = ctx.extra.get("transitions", 0) + transitions
    ctx.extra["traces_validated_against_impl"] = ctx.extra.get(
        "traces_validated_against_impl", 0
    ) + transitions
    ctx.extra["max_depth_completed"] = max(ctx.extra.get("max_depth_completed", 0), completed)
    ctx.extra["frontier_at_bound"] = len(frontier)
    return seen
