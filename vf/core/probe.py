"""S2 moment probe (DESIGN §2.2).

Two stubs, everything else is the real runner:
  * QuadKerBase -> ProbeKer: `n` returns a chosen real (or complex) Mellin moment N_k selected
    by the grid point (logx), `integrand(areas)` returns 1 iff the basis function index equals
    the grid point index (0 otherwise, and 0 at logx == 0 exactly like the original).
  * eko.evolution_operator.integrate.quad -> evaluate the integrand once at u = 0.5.
The (14, g, 14, g) tensor produced by eko.solve is then diagonal in the grid index, and slot k
holds the exact Mellin-space evolution matrix at N_k in flavour space; slot g-1 (x = 1) is never
integrated and stays the identity.
"""

from __future__ import annotations

import contextlib
import sys
import types

import numpy as np


def probe_xgrid(g: int):
    """A valid g-point grid used only as an index set for the moments."""
    return np.geomspace(0.1, 1.0, g).tolist()


@contextlib.contextmanager
def moment_probe(moments, xgrid):
    """Install the two stubs for the given moments (len(moments) == len(xgrid) - 1)."""
    import eko.evolution_operator  # noqa
    import eko.evolution_operator.operator_matrix_element  # noqa
    from eko import interpolation

    qk = sys.modules["eko.evolution_operator.quad_ker"]
    evop = sys.modules["eko.evolution_operator"]
    if len(moments) != len(xgrid) - 1:
        raise ValueError("need one moment per grid point except x=1")
    logxs = [float(np.log(x)) for x in xgrid]
    k_of_logx = {lx: k for k, lx in enumerate(logxs)}

    # identify basis functions through their areas representation: we need the dispatcher
    # the runner will build; its areas depend on (xgrid, degree, log), so key on bytes lazily.
    areas_index = {}

    def index_of_areas(areas):
        key = np.asarray(areas).tobytes()
        j = areas_index.get(key)
        if j is None:
            raise RuntimeError("probe: unknown basis function (register_dispatcher not called)")
        return j

    Base = qk.QuadKerBase

    class ProbeKer(Base):  # type: ignore
        def __init__(self, u, is_log, logx, mode0):
            Base.__init__(self, u, is_log, logx, mode0)
            self._k = k_of_logx[float(logx)]

        @property
        def n(self):
            if self._k >= len(moments):
                return complex(moments[0])
            return complex(moments[self._k])

        def integrand(self, areas):
            if self.logx == 0.0:
                return 0.0
            return 1.0 if index_of_areas(areas) == self._k else 0.0

    orig_init = interpolation.InterpolatorDispatcher.__init__

    def patched_init(self, *a, **kw):
        orig_init(self, *a, **kw)
        for j, bf in enumerate(self):
            areas_index[np.asarray(bf.areas_representation).tobytes()] = j

    fake_integrate = types.SimpleNamespace(
        quad=lambda f, a, b, **kw: (f(0.5), 0.0, {}) if kw.get("full_output") else (f(0.5), 0.0)
    )
    saved = (qk.QuadKerBase, evop.integrate)
    qk.QuadKerBase = ProbeKer
    evop.integrate = fake_integrate
    interpolation.InterpolatorDispatcher.__init__ = patched_init
    try:
        yield
    finally:
        qk.QuadKerBase, evop.integrate = saved
        interpolation.InterpolatorDispatcher.__init__ = orig_init


def moment_solve(cfg: dict, moments):
    """Solve cfg through the real runner under the probe.

    Returns {ep: array of shape (len(moments), 14, 14)} with [k, out, in] the flavour-space
    evolution matrix at N = moments[k].
    """
    from . import cards

    g = len(moments) + 1
    xg = probe_xgrid(g)
    c = dict(cfg)
    c["xgrid"] = xg
    c.setdefault("degree", 1)
    with moment_probe(list(moments), xg):
        ops = cards.solve_ops(c, tag="probe")
    out = {}
    for ep, (op, _err) in ops.items():
        # op[out, j, in, k]: diagonal in (j, k)
        m = np.stack([op[:, k, :, k] for k in range(g - 1)])
        out[ep] = m
        # structural sanity: off-diagonal grid entries must vanish, slot g-1 is identity
        off = op.copy()
        for k in range(g):
            off[:, k, :, k] = 0
        if not np.all(np.isfinite(op)):
            raise FloatingPointError("probe: non-finite entries in the moment-space operator")
        if np.abs(off).max() != 0.0:
            raise RuntimeError("probe: operator not diagonal in the grid index")
    return out


FLAVOR_PIDS = [22, -6, -5, -4, -3, -2, -1, 21, 1, 2, 3, 4, 5, 6]


def pid_index(pid):
    return FLAVOR_PIDS.index(pid)
