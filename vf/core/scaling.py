"""Scaling-exponent oracle shared by C50/C51 (DESIGN §2.3 'Tolerances').

Given residuals R(lambda_i) for lambda_i = lambda_0 / 2^i, the local exponents are
e_i = log2(R_i / R_{i+1}). The property "vanishes at least like a^n" is judged in the asymptotic
window: among the pairs whose residuals are above the noise floor, take the last two local
exponents; the property FAILS only if both are below n - slack AND they agree with each other to
`agree` (i.e. the sequence has converged to a too small exponent). Residuals at or below the floor
mean "vanishes" and are never a failure.
"""

from __future__ import annotations

import math


def local_exponents(res, floor):
    exps = []
    for a, b in zip(res, res[1:]):
        if a <= floor or b <= floor or not math.isfinite(a) or not math.isfinite(b):
            exps.append(None)
        else:
            exps.append(math.log2(a / b))
    return exps


def judge(res, n, floor=1e-13, slack=0.25, agree=0.15):
    """Return (ok, info). res ordered from the largest coupling to the smallest."""
    exps = local_exponents(res, floor)
    usable = [e for e in exps if e is not None]
    info = {"residuals": [float(f"{r:.3e}") for r in res], "exponents": [None if e is None else round(e, 3) for e in exps]}
    if any(not math.isfinite(r) for r in res):
        return False, dict(info, reason="non-finite residual")
    if len(usable) < 2:
        # everything (but at most one pair) is at the floor: the difference vanishes
        if usable and usable[-1] < n - slack and res[-1] > 100 * floor:
            return False, dict(info, reason="single usable exponent below requirement")
        return True, dict(info, reason="below floor")
    e1, e2 = usable[-2], usable[-1]
    info["last_two"] = [round(e1, 3), round(e2, 3)]
    if e1 < n - slack and e2 < n - slack and abs(e1 - e2) < agree:
        return False, dict(info, reason=f"converged exponent {e2:.2f} < {n} - {slack}")
    if e2 < n - 1.0 - slack and e1 < n - 1.0 - slack:
        # far below, even if still drifting: a full unit short on both
        return False, dict(info, reason=f"exponents {e1:.2f}, {e2:.2f} more than one unit short of {n}")
    return True, info
