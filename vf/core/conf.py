"""X-conf: deviation-bounded enumeration of configuration lattices (DESIGN §2.1).

dims: {name: [values...]}, where a value is a dict of config-key updates (so one dimension can set
several coupled keys). base: {name: index}. `neighbourhood(dims, base, k)` yields every assignment
that differs from the base in at most k dimensions, exactly once, simplest first.
"""

from __future__ import annotations

import itertools


def neighbourhood(dims: dict, base: dict, k: int):
    names = list(dims)
    yield dict(base)
    for r in range(1, k + 1):
        for chosen in itertools.combinations(names, r):
            alts = [[i for i in range(len(dims[n])) if i != base[n]] for n in chosen]
            for combo in itertools.product(*alts):
                a = dict(base)
                for n, i in zip(chosen, combo):
                    a[n] = i
                yield a


def full_product(dims: dict):
    names = list(dims)
    for combo in itertools.product(*[range(len(dims[n])) for n in names]):
        yield dict(zip(names, combo))


def materialise(dims: dict, assignment: dict) -> dict:
    cfg = {}
    for n, i in assignment.items():
        cfg.update(dims[n][i])
    return cfg


def label(dims: dict, assignment: dict, base: dict = None) -> str:
    """Compact description of the deviations."""
    parts = []
    for n, i in assignment.items():
        if base is None or base.get(n) != i:
            parts.append(f"{n}={i}")
    return ",".join(parts) or "base"


def union(*iterables):
    """De-duplicate assignments produced from several bases."""
    seen = set()
    for it in iterables:
        for a in it:
            key = tuple(sorted(a.items()))
            if key not in seen:
                seen.add(key)
                yield a
