"""X-fault: effect interception and fault injection (DESIGN §2.1).

`Injector(plan)` patches a fixed list of effect sites with counting wrappers. With plan=None it
records the dynamic sequence of effects; with plan={index: kind} the effect with that dynamic
index fails: kind "raise" raises before the effect, kind "torn" (file writes only) lets half of
the bytes through and raises afterwards; "interrupt" raises KeyboardInterrupt, "memory" MemoryError,
"kill" / "tornkill" end the process with os._exit(137) at the effect.
"""

from __future__ import annotations

import builtins
import contextlib
import importlib


class InjectedFault(OSError):
    """The failure injected by the harness (an OSError, like a full disk)."""


class InjectedComputeFault(RuntimeError):
    """Injected failure of a computation step / user code."""


# (module, dotted attribute, label, is_io)
SITES = [
    ("pathlib", "Path.write_text", "Path.write_text", True),
    ("pathlib", "Path.write_bytes", "Path.write_bytes", True),
    ("pathlib", "Path.mkdir", "Path.mkdir", True),
    ("pathlib", "Path.unlink", "Path.unlink", True),
    ("numpy", "save", "np.save", True),
    ("numpy", "savez", "np.savez", True),
    ("lz4.frame", "compress", "lz4.compress", True),
    ("yaml", "dump", "yaml.dump", True),
    ("yaml", "safe_dump", "yaml.safe_dump", True),
    ("tarfile", "open", "tarfile.open", True),
    ("tarfile", "TarFile.addfile", "TarFile.addfile", True),
    ("shutil", "copytree", "shutil.copytree", True),
    ("shutil", "move", "shutil.move", True),
    ("os", "replace", "os.replace", True),
    ("os", "rename", "os.rename", True),
    ("tempfile", "mkdtemp", "tempfile.mkdtemp", True),
    ("eko.runner.parts", "evolve", "parts.evolve", False),
    ("eko.runner.parts", "match", "parts.match", False),
    ("eko.runner.operators", "join", "operators.join", False),
    ("eko.runner.operators", "retrieve", "operators.retrieve", False),
    ("eko.runner.recipes", "create", "recipes.create", False),
]
# Further sites, NOT intercepted by default (the list above and the dynamic numbering it produces stay as they are for
# every existing user): pass `extra_sites=SITES_EXT` to Injector. End-of-archive blocks of a tar (ENOSPC shows up here),
# unpacking of the archive under edit, removal of the fresh temp dir in EKO.deepcopy, removal of the working directory
# in EKO.close (for a writeable EKO this is the clean-up after the commit).
SITES_EXT = [
    ("tarfile", "TarFile.close", "TarFile.close", True),
    ("tarfile", "TarFile.extractall", "TarFile.extractall", True),
    ("pathlib", "Path.rmdir", "Path.rmdir", True),
    ("shutil", "rmtree", "shutil.rmtree", True),
]
# modules whose global name `open` is shadowed by a wrapper (file open-for-write + write)
OPEN_MODULES = ["eko.io.inventory", "eko.io.metadata", "eko.io.struct", "ekobox.utils", "ekobox.cards"]


class _TornFile:
    def __init__(self, f, inj, label):
        self._f, self._inj, self._label = f, inj, label

    def write(self, data):
        kind = self._inj.hit(self._label + ".write")
        if kind == "raise":
            raise InjectedFault(f"injected at {self._label}.write")
        if kind in ("torn", "tornkill"):
            self._f.write(data[: len(data) // 2])
            self._f.flush()
            if kind == "tornkill":
                import os

                os._exit(137)
            raise InjectedFault(f"injected torn write at {self._label}.write")
        return self._f.write(data)

    def __getattr__(self, name):
        return getattr(self._f, name)

    def __enter__(self):
        self._f.__enter__()
        return self

    def __exit__(self, *a):
        return self._f.__exit__(*a)

    def __iter__(self):
        return iter(self._f)


class Injector:
    def __init__(self, plan=None, extra_sites=()):
        self.plan = dict(plan or {})
        self.log = []  # labels in dynamic order
        self.fired = []
        self._saved = []
        self.sites = list(SITES) + list(extra_sites)
        self.active = True

    def hit(self, label):
        """Register an effect; return None or the fault kind to apply."""
        if not self.active:
            return None
        idx = len(self.log)
        self.log.append(label)
        kind = self.plan.get(idx)
        if kind is None:
            kind = self.plan.get(str(idx))
        if kind:
            self.fired.append((idx, label, kind))
            if kind == "interrupt":
                # an interruption that is not an Exception (Ctrl-C, sys.exit, task cancellation)
                raise KeyboardInterrupt(f"injected interrupt at {label}")
            if kind == "memory":
                # an Exception that is neither an OSError nor a RuntimeError (allocation failure in an array step)
                raise MemoryError(f"injected allocation failure at {label}")
            if kind == "kill":
                # crash of the process at this point: no exception handler, no finaliser runs
                import os

                os._exit(137)
        return kind

    def user_point(self, label="user-code"):
        if self.hit(label):
            raise InjectedComputeFault(f"injected at {label}")

    def _wrap(self, fn, label, is_io):
        inj = self

        def wrapper(*a, **kw):
            kind = inj.hit(label)
            if kind:
                if is_io:
                    raise InjectedFault(f"injected at {label}")
                raise InjectedComputeFault(f"injected at {label}")
            return fn(*a, **kw)

        wrapper.__wrapped__ = fn
        return wrapper

    def _open_wrapper(self):
        inj = self
        real_open = builtins.open

        def open_(file, mode="r", *a, **kw):
            if any(c in mode for c in "wax+"):
                kind = inj.hit("open-for-write")
                if kind:
                    raise InjectedFault("injected at open-for-write")
                return _TornFile(real_open(file, mode, *a, **kw), inj, "file")
            return real_open(file, mode, *a, **kw)

        return open_

    def __enter__(self):
        for modname, attr, label, is_io in self.sites:
            try:
                mod = importlib.import_module(modname)
            except ImportError:
                continue
            obj = mod
            parts = attr.split(".")
            for p in parts[:-1]:
                obj = getattr(obj, p)
            if not hasattr(obj, parts[-1]):
                continue
            orig = getattr(obj, parts[-1])
            self._saved.append((obj, parts[-1], orig, True))
            setattr(obj, parts[-1], self._wrap(orig, label, is_io))
        ow = self._open_wrapper()
        for modname in OPEN_MODULES:
            try:
                mod = importlib.import_module(modname)
            except ImportError:
                continue
            had = "open" in mod.__dict__
            self._saved.append((mod, "open", mod.__dict__.get("open"), had))
            mod.open = ow
        return self

    def __exit__(self, *exc):
        self.active = False
        for obj, name, orig, had in reversed(self._saved):
            if had:
                setattr(obj, name, orig)
            else:
                try:
                    delattr(obj, name)
                except AttributeError:
                    pass
        self._saved = []
        return False
