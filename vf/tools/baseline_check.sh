#!/bin/bash
# Run the repository's baseline test command (guard off) and compare with BASELINE.json stable_pass.
OUT=${1:-/tmp/baseline_run}
mkdir -p $OUT
cd /repo && env -u EKO_VERIF /venv/bin/python -m pytest -ra -q -p no:cacheprovider --timeout=900 --continue-on-collection-errors --junitxml=$OUT/junit.xml > $OUT/log.txt 2>&1
/venv/bin/python - <<PY
import json, xml.etree.ElementTree as ET
base=json.load(open('/root/.vp/BASELINE.json'))
stable=set(base['stable_pass'])
passed=set()
for tc in ET.parse('$OUT/junit.xml').getroot().iter('testcase'):
    ok = not any(ch.tag in ('failure','error','skipped') for ch in tc)
    name = tc.get('classname')+'::'+tc.get('name')
    if ok: passed.add(name)
missing=sorted(stable-passed)
print('stable_pass', len(stable), 'passed now', len(passed), 'missing', len(missing))
for m in missing: print('  MISSING', m)
PY
