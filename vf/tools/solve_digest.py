"""Solve one config in this (fresh) process and print a canonical digest of the archive.

usage: python -m vf.tools.solve_digest '<json config>' <scratch dir>
"""

import hashlib
import io
import json
import os
import pathlib
import sys
import tarfile


def digest(path):
    import lz4.frame
    import numpy as np
    import yaml

    out = {}
    with tarfile.open(path) as tar:
        for m in tar.getmembers():
            name = m.name
            if m.isdir():
                out[name] = "dir"
                continue
            data = tar.extractfile(m).read()
            if name.endswith(".lz4"):
                raw = lz4.frame.decompress(data)
                content = np.load(io.BytesIO(raw))
                if isinstance(content, np.ndarray):
                    h = {"operator": hashlib.sha256(content.tobytes()).hexdigest()}
                else:
                    h = {k: hashlib.sha256(content[k].tobytes()).hexdigest() for k in sorted(content.files)}
                h["compressed"] = hashlib.sha256(data).hexdigest()
                out[name] = h
            elif name.endswith(".yaml"):
                out[name] = json.dumps(yaml.safe_load(data), sort_keys=True, default=str)
            else:
                out[name] = hashlib.sha256(data).hexdigest()
    return out


def main():
    cfg = json.loads(sys.argv[1])
    scratch = pathlib.Path(sys.argv[2])
    from vf.core import cards

    p = scratch / f"digest-{os.getpid()}.tar"
    try:
        cards.solve(cfg, p)
        print("DIGEST " + json.dumps(digest(p), sort_keys=True))
    finally:
        if p.exists():
            p.unlink()


if __name__ == "__main__":
    main()
