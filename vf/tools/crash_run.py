"""Child process of the crash-point enumeration (C38): run one scenario with a kill planned at one effect.

usage: python -m vf.tools.crash_run <scenario> '<plan json>' <prepared dir>
exit status 137 = killed at the planned effect, 0 = scenario completed (effect not reached), other = exception.
"""

import json
import sys


def main():
    from vf.core import effects
    from vf.props import c38

    name, plan, d = sys.argv[1], json.loads(sys.argv[2]), sys.argv[3]
    sc = c38.Scenario(name, d)
    sc.attach()
    with effects.Injector({int(k): v for k, v in plan.items()}) as inj:
        sc.run(inj)


if __name__ == "__main__":
    main()
