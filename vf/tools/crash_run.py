"""Child process of the crash-point enumeration (C38): run one scenario with a kill planned at one effect.

usage: python -m vf.tools.crash_run <scenario> '<plan json>' <prepared dir>
exit status 137 = killed at the planned effect, 0 = scenario completed (effect not reached), other = exception.
The check itself forks its worker instead (c38._run_child: same scenario, same injector, no interpreter start-up);
this entry point reproduces one crash by hand in a pristine interpreter.
"""

import json
import sys


def main():
    from vf.props import c38

    name, plan, d = sys.argv[1], json.loads(sys.argv[2]), sys.argv[3]
    sc = c38.Scenario(name, d)
    sc.attach()
    with c38._injector({int(k): v for k, v in plan.items()}) as inj:
        sc.run(inj)


if __name__ == "__main__":
    main()
