#!/bin/bash
# usage: seed_test.sh <seed dir> <check id> [tier]   -- apply the seeded change in a scratch worktree and run the check against it
SEED=$1; ID=$2; TIER=${3:-quick}
NAME=$(basename $SEED)
WT=/tmp/wt/seed-$NAME-$$
git -C /repo worktree add -q $WT HEAD || exit 3
if ! git -C $WT apply $SEED/patch.diff; then echo "PATCH-DOES-NOT-APPLY $NAME"; git -C /repo worktree remove --force $WT; exit 3; fi
if [ -f $SEED/demo.py ]; then
  (cd $SEED && PYTHONPATH=$WT/src NUMBA_DISABLE_JIT=1 timeout 900 /venv/bin/python demo.py > /tmp/seed-demo-$NAME.log 2>&1); echo "demo(mutated) exit=$?"
fi
cd ${VERIF_HOME:-/verif} && VERIF_REPO_SRC=$WT/src ./check $ID --tier $TIER > /tmp/seed-check-$NAME-$ID.log 2>&1; rc=$?
echo "check $ID [$TIER] on seed $NAME: exit=$rc  $(grep -c '^VIOLATION' /tmp/seed-check-$NAME-$ID.log) violation line(s); $(tail -1 /tmp/seed-check-$NAME-$ID.log | cut -c1-160)"
grep -m3 "signature:" /tmp/seed-check-$NAME-$ID.log
git -C /repo worktree remove --force $WT
exit $rc
