#!/bin/bash
# usage: seed_store.sh <src seed dir> <dest name> <check id> [note]
SRC=$1; NAME=$2; ID=$3; NOTE=${4:-}
mkdir -p /verif/seeded/$NAME; cp $SRC/patch.diff $SRC/demo.py /verif/seeded/$NAME/
python3 - "$SRC" "$NAME" "$ID" "$NOTE" <<'PY'
import json,sys,os
src,name,cid,note=sys.argv[1:5]
m=json.load(open(f'{src}/meta.json'))
logf=f'/tmp/seed-check-{os.path.basename(src)}-{cid}.log'
sigs=[l.strip()[11:] for l in open(logf).read().splitlines() if l.strip().startswith('signature:')] if os.path.exists(logf) else []
m['verified_by_me']={'how':f'scratch worktree of /repo HEAD with patch.diff applied; demo.py (exit 0 clean, 1 mutated) and the test-suite (same failures as the clean tree) re-run by vf/tools/seed_confirm.sh; ./check {cid} --tier quick with VERIF_REPO_SRC=<wt>/src','check':cid,'tier':'quick','exit':1,'first_signatures':sigs[:4],'note':note}
json.dump(m,open(f'/verif/seeded/{name}/meta.json','w'),indent=1)
s=str(m.get('summary',''))[:170].replace('|','/').replace('\n',' ')
n=str(m.get('needs',''))[:140].replace('|','/').replace('\n',' ')
sig=", ".join(f"`{x}`" for x in sigs[:2])
open('/verif/MUTATIONS.md','a').write(f"| {name} | {s} | {n} | {cid} {sig} | {note} |\n")
PY
