"""Units of the JIT-vs-interpreted comparison (C48).

Each unit is a function returning a list of (label, value) pairs; it is executed twice in fresh
processes (NUMBA_DISABLE_JIT=0 with an empty NUMBA_CACHE_DIR, and NUMBA_DISABLE_JIT=1) by
`python -m vf.tools.jit_units <unit>` which prints one JSON line. Lattices are explicit; no sampling.
"""

import itertools
import json
import sys

import numpy as np

NS_TOWERS = [
    np.array([0.8 + 0.3j, 7.5 - 2.0j, 61.0 + 9.0j, 880.0 - 120.0j]),
    np.array([-0.45 + 0.0j, 9.1 + 0.0j, -83.0 + 0.0j, 410.0 + 0.0j]),
    np.array([0.0 + 0.0j, 3.0 + 4.0j, -30.0 + 11.0j, 100.0 + 900.0j]),
]
S_TOWERS = [
    np.array(
        [
            [[1.2 + 0.4j, -0.7 + 0.1j], [0.3 - 0.2j, 2.1 + 0.0j]],
            [[8.0 - 1.0j, 3.0 + 2.0j], [-2.5 + 0.5j, 6.0 + 1.0j]],
            [[60.0 + 5.0j, -20.0 + 3.0j], [14.0 - 6.0j, 45.0 + 2.0j]],
            [[700.0 - 40.0j, 150.0 + 10.0j], [-90.0 + 30.0j, 500.0 - 5.0j]],
        ]
    ),
    np.array(
        [
            [[0.5 + 0.0j, 0.25 + 0.0j], [-0.5 + 0.0j, -0.25 + 0.0j]],
            [[4.0 + 0.0j, -1.0 + 0.0j], [-4.0 + 0.0j, 1.0 + 0.0j]],
            [[30.0 + 0.0j, 7.0 + 0.0j], [-30.0 + 0.0j, -7.0 + 0.0j]],
            [[200.0 + 0.0j, -50.0 + 0.0j], [-200.0 + 0.0j, 50.0 + 0.0j]],
        ]
    ),
]
A_PAIRS = [(0.03, 0.0125), (0.0125, 0.03), (0.005, 0.05), (0.02, 0.02), (0.002, 0.0021)]
NS_N = [complex(2.0, 0.0), complex(1.5, 3.0), complex(0.7, -12.0), complex(4.2, 40.0), complex(25.0, 0.5)]


# Re N < 0 and small |N|: the reflection / upward-recursion branches of the polygamma functions
POLYGAMMA_N = [complex(-0.5, 2.0), complex(0.3, 0.1)]


def _methods():
    from eko.kernels import EvoMethods

    return list(EvoMethods)


def unit_ns_kernels():
    from eko.kernels import non_singlet as ns

    out = []
    for o in (1, 2, 3, 4):
        for m in _methods():
            for nf in (3, 6):
                for ti, g in enumerate(NS_TOWERS):
                    for a1, a0 in A_PAIRS:
                        out.append((f"ns.dispatcher/o={o}/{m.name}/nf={nf}/t={ti}/{a1},{a0}", ns.dispatcher((o, 0), m, g[:o].copy(), a1, a0, nf)))
    return out


def unit_singlet_kernels_a():
    return _singlet((1, 2))


def unit_singlet_kernels_b():
    return _singlet((3,))


def unit_singlet_kernels_c():
    return _singlet((4,))


def _singlet(orders):
    from eko.kernels import singlet as s

    out = []
    for o in orders:
        for m in _methods():
            for nf in (3, 6):
                for ti, g in enumerate(S_TOWERS):
                    for a1, a0 in A_PAIRS[:4]:
                        for its, mo in ((1, (3, 0)), (4, (6, 0))):
                            out.append(
                                (f"singlet.dispatcher/o={o}/{m.name}/nf={nf}/t={ti}/{a1},{a0}/{its},{mo[0]}",
                                 s.dispatcher((o, 0), m, g[:o].copy(), a1, a0, nf, its, mo))
                            )
    return out


def unit_evolution_integrals():
    from eko import beta
    from eko.kernels import as4_evolution_integrals as a4
    from eko.kernels import evolution_integrals as ei

    out = []
    for nf in (3, 4, 5, 6):
        b0 = beta.beta_qcd((2, 0), nf)
        bv = [1.0, beta.b_qcd((3, 0), nf), beta.b_qcd((4, 0), nf)]
        bl = [beta.b_qcd((3, 0), nf), beta.b_qcd((4, 0), nf), beta.b_qcd((5, 0), nf)]
        roots = a4.roots(bl)
        out.append((f"a4.roots/nf={nf}", np.array(roots, dtype=complex)))
        for a1, a0 in A_PAIRS:
            tag = f"nf={nf}/{a1},{a0}"
            out.append((f"ei.j12/{tag}", ei.j12(a1, a0, b0)))
            for name in ("j23_exact", "j13_exact", "j13_expanded", "j34_exact", "j24_exact", "j14_exact", "j24_expanded", "j14_expanded"):
                out.append((f"ei.{name}/{tag}", getattr(ei, name)(a1, a0, b0, bv)))
            for name in ("j23_expanded", "j34_expanded"):
                out.append((f"ei.{name}/{tag}", getattr(ei, name)(a1, a0, b0)))
            j33 = a4.j33_exact(a1, a0, b0, bl, roots)
            j23 = a4.j23_exact(a1, a0, b0, bl, roots)
            j13 = a4.j13_exact(a1, a0, b0, bl, roots)
            out += [(f"a4.j33_exact/{tag}", j33), (f"a4.j23_exact/{tag}", j23), (f"a4.j13_exact/{tag}", j13)]
            out.append((f"a4.j03_exact/{tag}", a4.j03_exact(ei.j12(a1, a0, b0), j13, j23, j33, bl)))
            e33, e23, e13 = a4.j33_expanded(a1, a0, b0), a4.j23_expanded(a1, a0, b0, bl), a4.j13_expanded(a1, a0, b0, bl)
            out += [(f"a4.j33_expanded/{tag}", e33), (f"a4.j23_expanded/{tag}", e23), (f"a4.j13_expanded/{tag}", e13)]
            out.append((f"a4.j03_expanded/{tag}", a4.j03_expanded(ei.j12(a1, a0, b0), e13, e23, e33, bl)))
    return out


def _qed_gamma_ns(o1, o2):
    g = np.zeros((o1 + 1, o2 + 1), dtype=complex)
    for i in range(o1 + 1):
        for j in range(o2 + 1):
            if i + j > 0:
                g[i, j] = (1.0 + 0.3j) * (3.0 ** (i + j)) * (1 + 0.1 * i - 0.2j * j)
    return g


def _qed_gamma_mat(o1, o2, dim):
    g = np.zeros((o1 + 1, o2 + 1, dim, dim), dtype=complex)
    base = (np.arange(dim * dim).reshape(dim, dim) % 5 - 2.0) + 0.25j * (np.arange(dim * dim).reshape(dim, dim) % 3)
    for i in range(o1 + 1):
        for j in range(o2 + 1):
            if i + j > 0:
                g[i, j] = base * (2.5 ** (i + j)) + np.eye(dim) * (i - 0.5j * j)
    return g


def unit_qed_kernels():
    from eko.kernels import EvoMethods
    from eko.kernels import non_singlet_qed as qns
    from eko.kernels import singlet_qed as qs
    from eko.kernels import valence_qed as qv

    out = []
    m = EvoMethods.ITERATE_EXACT
    for o1 in (1, 2, 3, 4):
        for o2 in (1, 2):
            for nf in (3, 6):
                for its in (1, 3):
                    as_list = np.geomspace(0.03, 0.012, its + 1)
                    a_half = np.array([[0.5 * (as_list[i] + as_list[i + 1]), 6e-4 * (1 + 0.01 * i)] for i in range(its)])
                    tag = f"o=({o1},{o2})/nf={nf}/its={its}"
                    for running in (False, True):
                        out.append((f"qns.dispatcher/{tag}/run={running}", qns.dispatcher((o1, o2), m, _qed_gamma_ns(o1, o2), as_list, a_half[:, 1].copy(), running, nf, its, 10.0, 100.0)))
                    out.append((f"qs.dispatcher/{tag}", qs.dispatcher((o1, o2), m, _qed_gamma_mat(o1, o2, 4), as_list, a_half, nf, its, (3, 0))))
                    out.append((f"qv.dispatcher/{tag}", qv.dispatcher((o1, o2), m, _qed_gamma_mat(o1, o2, 2), as_list, a_half, nf, its, (3, 0))))
    return out


def unit_interpolation_mellin():
    from eko import interpolation, mellin

    out = []
    for xg, deg, log in (
        (np.geomspace(1e-4, 1, 7), 2, True),
        (np.geomspace(1e-6, 1, 12), 4, True),
        (np.linspace(0.1, 1, 6), 1, False),
        (np.linspace(0.05, 1, 9), 3, False),
    ):
        for mode_N in (True, False):
            disp = interpolation.InterpolatorDispatcher(interpolation.XGrid(xg, log=log), deg, mode_N=mode_N)
            for j, bf in enumerate(disp):
                if mode_N:
                    # interior nodes / between nodes, and both ends of the grid (lower edge, x = 1: the guards of the areas)
                    for lx in (np.log(xg[1]), np.log(xg[-2]), np.log(0.5 * (xg[2] + xg[3])), np.log(xg[0]), 0.0):
                        # the domain of the N-space basis: the moments the solver's contours visit at this x
                        for N in [complex(mellin.Path(u, float(lx), sing).n) for u in (0.5, 0.75, 0.95) for sing in (True, False)]:
                            out.append((f"interp.N/log={log}/deg={deg}/j={j}/{N}/{lx:.4f}", bf(N, float(lx))))
                            out.append((f"evaluate_grid/log={log}/deg={deg}/j={j}/{N}/{lx:.4f}", interpolation.evaluate_grid(N, log, float(lx), bf.areas_representation)))
                else:
                    for x in (xg[0], xg[2], 0.5 * (xg[2] + xg[3]), xg[-1], np.sqrt(xg[0] * xg[1])):
                        out.append((f"interp.x/log={log}/deg={deg}/j={j}/{x:.6g}", bf(float(x))))
    for u in (0.5, 0.6, 0.75, 0.95):
        for lx in (np.log(1e-5), np.log(0.1), np.log(0.9)):
            for sing in (True, False):
                p = mellin.Path(u, float(lx), sing)
                out += [(f"mellin.n/{u}/{lx:.3f}/{sing}", p.n), (f"mellin.jac/{u}/{lx:.3f}/{sing}", p.jac), (f"mellin.prefactor/{u}/{lx:.3f}/{sing}", p.prefactor)]
    # the other compiled contours of eko/mellin.py (not used by Path, but compiled functions of an anchored file)
    for t in (0.0, 0.3, 0.5, 0.9):
        for mx, c in ((10.0, 1.0), (30.0, 1.5)):
            out += [(f"mellin.line_path/{t}/{mx}/{c}", mellin.line_path(t, mx, c)), (f"mellin.line_jac/{t}/{mx}/{c}", mellin.line_jac(t, mx, c))]
            for phi in (np.pi * 2.0 / 3.0, np.pi * 3.0 / 4.0):
                out += [(f"mellin.edge_path/{t}/{mx}/{c}/{phi:.3f}", mellin.edge_path(t, mx, c, phi)), (f"mellin.edge_jac/{t}/{mx}/{c}/{phi:.3f}", mellin.edge_jac(t, mx, c, phi))]
    return out


def unit_scale_variations():
    from eko.scale_variations import expanded as ex
    from eko.scale_variations import exponentiated as xp

    out = []
    for o in (1, 2, 3, 4):
        for nf in (3, 6):
            for L in (-1.3862943611198906, 0.5, 1.3862943611198906):
                for ti, g in enumerate(NS_TOWERS):
                    out.append((f"ex.ns/o={o}/nf={nf}/L={L:.2f}/t={ti}", ex.non_singlet_variation(g[:o].copy(), 0.02, (o, 0), nf, L)))
                    out.append((f"xp.ns/o={o}/nf={nf}/L={L:.2f}/t={ti}", xp.gamma_variation(g[:o].copy(), (o, 0), nf, L)))
                for ti, g in enumerate(S_TOWERS):
                    out.append((f"ex.s/o={o}/nf={nf}/L={L:.2f}/t={ti}", ex.singlet_variation(g[:o].copy(), 0.02, (o, 0), nf, L, 2)))
                    out.append((f"xp.s/o={o}/nf={nf}/L={L:.2f}/t={ti}", xp.gamma_variation(g[:o].copy(), (o, 0), nf, L)))
                for o2 in (1, 2):
                    for running in (False, True):
                        tag = f"o=({o},{o2})/nf={nf}/L={L:.2f}/run={running}"
                        out.append((f"ex.ns_qed/{tag}", ex.non_singlet_variation_qed(_qed_gamma_ns(o, o2), 0.02, 6e-4, running, (o, o2), nf, L)))
                        out.append((f"ex.s_qed/{tag}", ex.singlet_variation_qed(_qed_gamma_mat(o, o2, 4), 0.02, 6e-4, running, (o, o2), nf, L)))
                        out.append((f"ex.v_qed/{tag}", ex.valence_variation_qed(_qed_gamma_mat(o, o2, 2), 0.02, 6e-4, running, (o, o2), nf, L)))
                        out.append((f"xp.ns_qed/{tag}", xp.gamma_variation_qed(_qed_gamma_ns(o, o2), (o, o2), nf, 3, L, running)))
                        out.append((f"xp.s_qed/{tag}", xp.gamma_variation_qed(_qed_gamma_mat(o, o2, 4), (o, o2), nf, 3, L, running)))
    return out


def unit_couplings():
    from eko import beta, couplings, gamma

    out = []
    ref = np.array([0.35, 0.0075]) / (4 * np.pi)
    for nf in (3, 4, 5, 6):
        for k in ((2, 0), (3, 0), (4, 0), (5, 0), (2, 1)):
            out.append((f"beta_qcd/{k}/nf={nf}", beta.beta_qcd(k, nf)))
        for k in ((3, 0), (4, 0), (5, 0)):
            out.append((f"b_qcd/{k}/nf={nf}", beta.b_qcd(k, nf)))
        for nl in (2, 3):
            for k in ((0, 2), (0, 3), (1, 2)):
                out.append((f"beta_qed/{k}/nf={nf}/nl={nl}", beta.beta_qed(k, nf, nl)))
        for o in (1, 2, 3, 4):
            out.append((f"gamma/{o}/nf={nf}", np.array(gamma.gamma(o, nf))))
            for s0, s1 in ((4.0, 100.0), (100.0, 4.0), (10.0, 10.5)):
                out.append((f"expanded_fixed/o=({o},0)/nf={nf}/{s0}->{s1}", couplings.couplings_expanded_fixed_alphaem((o, 0), ref, nf, s0, s1)))
                for o2 in (1, 2):
                    out.append((f"expanded_fixed/o=({o},{o2})/nf={nf}/{s0}->{s1}", couplings.couplings_expanded_fixed_alphaem((o, o2), ref, nf, s0, s1)))
                    for dec in (False, True):
                        out.append((f"expanded_running/o=({o},{o2})/nf={nf}/{s0}->{s1}/dec={dec}", couplings.couplings_expanded_alphaem_running((o, o2), ref, nf, 3, s0, s1, dec)))
        for scheme in ("POLE", "MSBAR"):
            out.append((f"matching_up/{scheme}/nf={nf}", couplings.compute_matching_coeffs_up(scheme, nf)))
            out.append((f"matching_down/{scheme}/nf={nf}", couplings.compute_matching_coeffs_down(scheme, nf)))
    return out


def unit_harmonics_cache():
    from ekore.harmonics import cache as c

    out = []
    nkeys = len(c.reset())
    for N in NS_N + [complex(1.0, 0.0), complex(6.0, 0.0), complex(7.0, 0.0)] + POLYGAMMA_N:
        for flag in (True, False):
            cache = c.reset()
            for key in range(nkeys):
                out.append((f"cache.get/key={key}/{N}/{flag}", c.get(key, cache, N, flag)))
            # second pass served from the cache, reversed order on a fresh cache
            cache = c.reset()
            for key in reversed(range(nkeys)):
                out.append((f"cache.get.rev/key={key}/{N}/{flag}", c.get(key, cache, N, flag)))
    return out


def unit_harmonics_functions():
    import inspect

    import ekore.harmonics.g_functions as gf
    import ekore.harmonics.log_functions as lf

    out = []
    for mod in (lf,):
        for name, f in sorted(vars(mod).items()):
            if name.startswith("lm") and callable(f):
                npar = len(inspect.signature(getattr(f, "py_func", f)).parameters)
                for N in NS_N:
                    S = [complex(1.1 + 0.1 * k, 0.2 * k) for k in range(1, npar)]
                    out.append((f"log_functions.{name}/{N}", f(N, *S)))
    from ekore.harmonics import w1, w2, w3, w4, w5  # noqa

    for N in NS_N:
        s1 = w1.S1(N)
        s2 = w2.S2(N)
        s3 = w3.S3(N)
        out += [(f"w1.S1/{N}", s1), (f"w2.S2/{N}", s2), (f"w3.S3/{N}", s3), (f"w4.S4/{N}", w4.S4(N)), (f"w5.S5/{N}", w5.S5(N))]
        out.append((f"g.mellin_g3/{N}", gf.mellin_g3(N, s1)))
    return out


def unit_ad_as1_as2():
    from ekore.harmonics import cache as c
    import ekore.anomalous_dimensions.unpolarized.space_like.as1 as as1
    import ekore.anomalous_dimensions.unpolarized.space_like.as2 as as2

    out = []
    for N in NS_N:
        for nf in (3, 5):
            out.append((f"as1.gamma_ns/{N}", as1.gamma_ns(N, c.reset())))
            out.append((f"as1.gamma_singlet/{N}/nf={nf}", as1.gamma_singlet(N, c.reset(), nf)))
            out.append((f"as2.gamma_nsm/{N}/nf={nf}", as2.gamma_nsm(N, nf, c.reset())))
            out.append((f"as2.gamma_nsp/{N}/nf={nf}", as2.gamma_nsp(N, nf, c.reset())))
            out.append((f"as2.gamma_singlet/{N}/nf={nf}", as2.gamma_singlet(N, nf, c.reset())))
            # the QED-basis entry points of the same files (4x4 singlet, 2x2 valence)
            out.append((f"as1.gamma_singlet_qed/{N}/nf={nf}", as1.gamma_singlet_qed(N, c.reset(), nf)))
            out.append((f"as1.gamma_valence_qed/{N}", as1.gamma_valence_qed(N, c.reset())))
            out.append((f"as2.gamma_singlet_qed/{N}/nf={nf}", as2.gamma_singlet_qed(N, nf, c.reset())))
            out.append((f"as2.gamma_valence_qed/{N}/nf={nf}", as2.gamma_valence_qed(N, nf, c.reset())))
    return out


NS_QED_MODES = (10102, 10103, 10202, 10203)


def unit_ad_qed_choose():
    """The charge-weighted non-singlet selectors of the QED dispatch (aem1, as1aem1, aem2) and what only they reach."""
    from eko import constants
    from ekore.harmonics import cache as c
    import ekore.anomalous_dimensions.unpolarized.space_like as ad_us

    out = []
    for nf in (3, 4, 5, 6):
        out.append((f"constants.uplike_flavors/nf={nf}", constants.uplike_flavors(nf)))
        out.append((f"constants.charge_combinations/nf={nf}", np.array(constants.charge_combinations(nf))))
    for N in NS_N:
        for mode in NS_QED_MODES:
            out.append((f"choose_ns_ad_aem1/{mode}/{N}", ad_us.choose_ns_ad_aem1(mode, N, c.reset())))
            out.append((f"choose_ns_ad_as1aem1/{mode}/{N}", ad_us.choose_ns_ad_as1aem1(mode, N, c.reset())))
            for nf in (3, 5):
                out.append((f"choose_ns_ad_aem2/{mode}/{N}/nf={nf}", ad_us.choose_ns_ad_aem2(mode, N, nf, c.reset())))
    return out


def unit_ome_as1_as2():
    from ekore.harmonics import cache as c
    import ekore.operator_matrix_elements.unpolarized.space_like.as1 as o1
    import ekore.operator_matrix_elements.unpolarized.space_like.as2 as o2

    out = []
    for N in NS_N:
        for L in (-1.2, 0.0, 2.0):
            out.append((f"ome.as1.A_singlet/{N}/L={L}", o1.A_singlet(N, c.reset(), L)))
            out.append((f"ome.as1.A_ns/{N}/L={L}", o1.A_ns(N, c.reset(), L)))
            for msbar in (False, True):
                out.append((f"ome.as2.A_singlet/{N}/L={L}/msbar={msbar}", o2.A_singlet(N, c.reset(), L, msbar)))
            out.append((f"ome.as2.A_ns/{N}/L={L}", o2.A_ns(N, c.reset(), L)))
    return out


def unit_exp_matrix_build_ome():
    from ekore import anomalous_dimensions as ad
    import eko.evolution_operator  # noqa

    qk = sys.modules["eko.evolution_operator.quad_ker"]

    out = []
    for ti, g in enumerate(S_TOWERS):
        for k in range(3):
            e, lp, lm, ep, em = ad.exp_matrix_2D(g[k] * 0.05)
            out += [(f"exp_matrix_2D/t={ti}/k={k}/{n}", v) for n, v in (("exp", e), ("lp", lp), ("lm", lm), ("ep", ep), ("em", em))]
    for o1, o2 in ((1, 1), (2, 2)):
        m = _qed_gamma_mat(o1, o2, 4)[1, 0] * 0.03
        e, w, P = ad.exp_matrix(m)
        out += [("exp_matrix/exp", e), ("exp_matrix/w_sorted", np.sort_complex(np.array(w)))]
    # the element selectors of the integration kernel: every legal (mode0, mode1) pair
    k2, k4 = _qed_gamma_mat(1, 1, 2)[1, 0], _qed_gamma_mat(1, 1, 4)[1, 1]
    for m0 in (100, 21):
        for m1 in (100, 21):
            out.append((f"select_singlet_element/{m0},{m1}", qk.select_singlet_element(k2, m0, m1)))
    for m0 in (21, 22, 100, 101):
        for m1 in (21, 22, 100, 101):
            out.append((f"select_QEDsinglet_element/{m0},{m1}", qk.select_QEDsinglet_element(k4, m0, m1)))
    for m0 in (10200, 10204):
        for m1 in (10200, 10204):
            out.append((f"select_QEDvalence_element/{m0},{m1}", qk.select_QEDvalence_element(k2, m0, m1)))
    A = np.array([_qed_gamma_mat(1, 1, 3)[1, 0], _qed_gamma_mat(2, 1, 3)[2, 0], _qed_gamma_mat(3, 1, 3)[3, 0]]) * 0.1
    for mo in (0, 1, 2, 3):
        for method in qk.MatchingMethods:
            out.append((f"build_ome/mo={mo}/{method.name}", qk.build_ome(A, (mo, 0), 0.02, method)))
    return out


def _quad_lattice():
    from eko import interpolation

    xg = np.geomspace(1e-3, 1, 5)
    disp = interpolation.InterpolatorDispatcher(interpolation.XGrid(xg), 2)
    return xg, [bf.areas_representation for bf in disp]


def unit_quad_ker_qcd():
    """The full integration kernel (thorough: compiles everything on the evolution path)."""
    import eko.evolution_operator  # noqa
    from eko.kernels import EvoMethods
    from eko.scale_variations import Modes

    qk = sys.modules["eko.evolution_operator.quad_ker"]

    xg, areas = _quad_lattice()
    out = []
    as_list = np.array([0.03, 0.0125])
    a_half = np.zeros((2, 2))
    for o in (1, 2, 3):
        for m in (EvoMethods.ITERATE_EXACT, EvoMethods.TRUNCATED, EvoMethods.PERTURBATIVE_EXACT):
            for (mode0, mode1) in ((100, 100), (100, 21), (21, 21), (10101, 0), (10201, 0), (10200, 0)):
                for svm in (Modes.unvaried, Modes.expanded, Modes.exponentiated):
                    for pol, tl in ((False, False), (True, False), (False, True)):
                        for u in (0.5, 0.8):
                            v = qk.quad_ker_ad(
                                u, (o, 0), mode0, mode1, m, True, float(np.log(xg[1])), areas[1], as_list, 10.0, 100.0, a_half, False, 4,
                                0.3, 2, (3, 0), svm, False, (0, 0, 0, 0, 0, 0, 0), pol, tl, True,
                            )
                            out.append((f"quad_ker_ad/o={o}/{m.name}/{mode0},{mode1}/{svm.name}/pol={pol},tl={tl}/u={u}", v))
    for mo in (1, 2):
        for (mode0, mode1) in ((100, 100), (90, 21), (21, 90), (200, 200), (91, 91)):
            for bm in qk.MatchingMethods:
                for pol, tl in ((False, False), (True, False), (False, True)):
                    v = qk.quad_ker_ome(0.6, (mo, 0), mode0, mode1, True, float(np.log(xg[1])), areas[1], 0.02, 4, 0.7, Modes.unvaried, 0.0, bm, False, pol, tl)
                    out.append((f"quad_ker_ome/mo={mo}/{mode0},{mode1}/{bm.name}/pol={pol},tl={tl}", v))
    return out


def unit_quad_ker_qed():
    """The QED branch of the integration kernel and the QED anomalous-dimension dispatchers (thorough)."""
    import eko.evolution_operator  # noqa
    import ekore.anomalous_dimensions.unpolarized.space_like as ad_us
    from eko.kernels import EvoMethods
    from eko.scale_variations import Modes

    qk = sys.modules["eko.evolution_operator.quad_ker"]

    xg, areas = _quad_lattice()
    out = []
    var = (0, 0, 0, 0, 0, 0, 0)
    for order in ((1, 1), (1, 2), (2, 1), (3, 2)):
        for N in NS_N[:3]:
            for nf in (3, 5):
                for mode in NS_QED_MODES:
                    out.append((f"gamma_ns_qed/o={order}/{mode}/{N}/nf={nf}", ad_us.gamma_ns_qed(order, mode, N, nf, var, True)))
                out.append((f"gamma_singlet_qed/o={order}/{N}/nf={nf}", ad_us.gamma_singlet_qed(order, N, nf, var, True)))
                out.append((f"gamma_valence_qed/o={order}/{N}/nf={nf}", ad_us.gamma_valence_qed(order, N, nf, var, True)))
    its = 2
    as_list = np.geomspace(0.03, 0.0125, its + 1)
    a_half = np.array([[0.5 * (as_list[i] + as_list[i + 1]), 6e-4 * (1 + 0.01 * i)] for i in range(its)])
    for order in ((1, 1), (2, 1), (2, 2)):
        for (mode0, mode1) in ((100, 100), (101, 22), (21, 101), (22, 21), (10102, 0), (10203, 0), (10200, 10200), (10204, 10200), (10200, 10204)):
            for svm in (Modes.unvaried, Modes.expanded, Modes.exponentiated):
                for running in (False, True):
                    for thr in (False, True):
                        if thr and svm != Modes.expanded:
                            continue  # is_threshold only matters for the expanded variation
                        for u in (0.5, 0.8):
                            v = qk.quad_ker_ad(
                                u, order, mode0, mode1, EvoMethods.ITERATE_EXACT, True, float(np.log(xg[1])), areas[1], as_list, 10.0, 100.0, a_half,
                                running, 4, 0.3, its, (3, 0), svm, thr, var, False, False, True,
                            )
                            out.append((f"quad_ker_ad.qed/o={order}/{mode0},{mode1}/{svm.name}/run={running}/thr={thr}/u={u}", v))
    return out


QUICK_UNITS = [
    "ns_kernels", "singlet_kernels_a", "singlet_kernels_b", "singlet_kernels_c", "evolution_integrals", "qed_kernels",
    "interpolation_mellin", "scale_variations", "couplings", "harmonics_cache", "harmonics_functions", "ad_as1_as2",
    "ome_as1_as2", "exp_matrix_build_ome", "ad_qed_choose",
]
THOROUGH_UNITS = QUICK_UNITS + ["quad_ker_qcd", "quad_ker_qed"]


def _enc(v):
    a = np.asarray(v)
    if a.dtype == object:
        a = np.array([complex(x) for x in a.ravel()])
    a = a.astype(complex).ravel()
    return [[float(x.real), float(x.imag)] for x in a]


def main():
    unit = sys.argv[1]
    res = globals()["unit_" + unit]()
    print("JITUNIT " + json.dumps([[lab, _enc(v)] for lab, v in res]))


if __name__ == "__main__":
    main()
