#!/bin/bash
# usage: seed_confirm.sh <seed dir>... : for each seed: demo on clean tree (exit 0), demo + test-suite with the patch (same failures as clean)
OUT=/tmp/seed_confirm; mkdir -p $OUT
CLEAN=/tmp/wt/confirm-clean-$$
git -C /repo worktree add -q $CLEAN HEAD
run_tests() { (cd $1 && PYTHONPATH=$1/src NUMBA_DISABLE_JIT=1 /venv/bin/python -m pytest tests benchmarks -q -p no:cacheprovider --timeout=900 --continue-on-collection-errors -q -rfE --no-cov 2>&1 | grep -E "^(FAILED|ERROR)|passed|failed" | sed 's/ - .*//' | sort > $2); }
if [ ! -f $OUT/clean.txt ]; then run_tests $CLEAN $OUT/clean.txt; fi
for SEED in "$@"; do
  N=$(basename $SEED); WT=/tmp/wt/confirm-$N-$$
  git -C /repo worktree add -q $WT HEAD; git -C $WT apply $SEED/patch.diff || { echo "$N PATCH-FAILS"; continue; }
  (cd $SEED && PYTHONPATH=$CLEAN/src NUMBA_DISABLE_JIT=1 timeout 900 /venv/bin/python demo.py >/dev/null 2>&1); dc=$?
  (cd $SEED && PYTHONPATH=$WT/src NUMBA_DISABLE_JIT=1 timeout 900 /venv/bin/python demo.py >/dev/null 2>&1); dm=$?
  run_tests $WT $OUT/$N.txt
  if diff -q <(grep -E "^(FAILED|ERROR)" $OUT/clean.txt) <(grep -E "^(FAILED|ERROR)" $OUT/$N.txt) >/dev/null; then t=same; else t=DIFFERENT; fi
  echo "$N demo_clean=$dc demo_mutated=$dm tests=$t $(grep -E 'passed|failed' $OUT/$N.txt | tail -1)"
  git -C /repo worktree remove --force $WT
done
git -C /repo worktree remove --force $CLEAN
