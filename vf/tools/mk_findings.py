"""Regenerate /verif/known_findings.jsonl from the table below (run by hand, never by a check).

Fixed entries resolve their commit hash from the subject line of the fix commit in /repo.
"""

import json
import pathlib
import subprocess

ROOT = pathlib.Path(__file__).resolve().parents[2]

# (property, signature, grep phrase of the fix commit subject, what failed)
FIXED = [
    ("C37", "EKO-store/set/content-get", "leaves a stale array file",
     "overwrite of an operator stored with error by one without (or vice versa) left both <hash>.npz.lz4 and <hash>.npy.lz4; next lazy load raised LookupError 'Too many items' (history [set k A+err, set k A', unload, get k])"),
    ("C37", "EKO-store/unload/content-list", "unloading an absent operator",
     "del eko[ep] for an absent evolution point inserted a phantom cache entry: 'ep in eko' True, list(eko) reports it, items() raises (history [unload k])"),
    ("C39", "EKO/closed/close/archive-removed", "closing an already closed EKO",
     "close() (or the context exit) on an EKO already closed after an edit session unlinked the archive and then raised ClosedOperator from dump(): archive lost (history init=closed_after_rw [close])"),
    ("C38", "solve/fault@TarFile.addfile/raise/exists", "a failure while closing an EKO",
     "EKO.close() unlinked the destination and wrote the tar in place: a failure at any tar member left a truncated archive at the path of a new EKO and destroyed/corrupted the previous content of an edited EKO (also edit/*, product_inplace/* signatures)"),
    ("C38", "product_new/fault@file.write/raise/exists", "a failing ekos_product left",
     "ekos_product(path=new) copied the initial EKO to the destination before filling it: any failure afterwards left a valid-looking archive holding only the initial EKO's operators (all product_new/fault@*/exists signatures)"),
    ("C04", "S1/crash/AttributeError@eko/kernels/non_singlet_qed.py:contract_gammas/qed=1,sv=exponentiated,run=0", "returned None",
     "QED x QCD + exponentiated scale variation + fixed alpha_em: gamma_variation_qed returned None -> AttributeError in the QED kernels (card order=(2,1), sv=exponentiated, em_running=False); same defect: C21 exponentiated.gamma_variation_qed/returns-None/running=False"),
    ("C21", "exponentiated.gamma_variation_qed/returns-None/running=False", "returned None",
     "gamma_variation_qed(..., alphaem_running=False) returned None instead of the adjusted anomalous dimensions"),
    ("C04", "entry/tl/gamma_singlet/order=4/silent-zero", "time-like evolution at N3LO",
     "time-like anomalous dimensions with QCD order 4 returned an all-zero N3LO component instead of refusing (ad_ut.gamma_ns / gamma_singlet, order=(4,0))"),
    ("C53", "solve/wall/sv=expanded/discontinuous", "expanded scale variation was dropped",
     "ModSV=expanded, target exactly on a matching scale: final segment flagged cliff -> no K factor, no xi^2 shift: O(1) jump vs target displaced by 1e-7 (qcd=1 xif=0.5 init (3,4) target (2.0,4))"),
    ("C25", "ut.gamma_ns/mode=valence/N=1/raises", "divided by zero at N=1",
     "time-like as3.gamma_nsv raised ZeroDivisionError at N=1 (1/(N-1) computed before the N~1 branch): ad_ut.gamma_ns((3,0),10200,1.0,4)"),
    ("C29", "rg-derivative/ut/A1/entry=Hg", "missed the anti-quark",
     "time-like A_{h+ g}^(1) was the single-flavour coefficient: dA/dL = 2 CF p(N) instead of 4 CF p(N) = -gamma_qg^(0)(nf+1)/(nf+1); matching-scale dependence at O(a_s) (also rg-exponent/ut/n=2/* signatures)"),
    ("C31", "ad_projectors/qed=True/raises:ValueError", "sector projectors of the unified",
     "br.ad_projectors(3, qed=True) raised ValueError (QCD labels iterated); br.ad_projector((22,22), 6, qed=True) raised KeyError (QCD map); behind them: photon entry zeroed (NaN) and non-orthogonal Sdelta/Vdelta rows at nf=3,5"),
    ("C36", "Inventory.setitem/header-numpy-scalar/np-scale", "given with NumPy numbers",
     "evolution point with np.float64 scale or np.int64 nf: header dumped with a python/object tag, EKO.read raised ConstructorError (e[(op.mu2grid[0], 4)] = Operator(...); close; read)"),
    ("C40", "dictlike.raw_field/numpy-scalar-not-normalised/numpy.float64", "NumPy scalars inside tuples",
     "raw_field left NumPy scalars inside tuples/dicts and all np.int64/np.bool_ unconverted: yaml.safe_dump RepresenterError (mugrid=[(np.sqrt(1e5), 5)]); also C49 cli/runcards-example/exit=1/RepresenterError"),
    ("C49", "cli/runcards-example/exit=1/RepresenterError", "NumPy scalars inside tuples",
     "'eko runcards example' never succeeded: operator.mugrid = [(np.sqrt(1e5), 5)] reached yaml.safe_dump as np.float64 inside a tuple"),
    ("C40", "dictlike.raw_field/XGrid/log-flag-lost", "came back logarithmic",
     "XGrid(log=False) dumped as a bare list and reloaded with log=True (cards, metadata, eko.xgrid = ...); also C36 EKO/xgrid-log-flag-lost"),
    ("C36", "EKO/xgrid-log-flag-lost", "came back logarithmic",
     "metadata / card XGrid(log=False) re-read as log=True after close + read"),
    ("C40", "runner.commons.interpolator/is_log-ignored", "interpolation_is_log declared",
     "configs.interpolation_is_log was read nowhere: a card declaring linear interpolation was computed with logarithmic interpolation"),
    ("C40", "DictLike[array hint npt.NDArray].roundtrip/from_dict-raises/AttributeError", "array-typed DictLike fields",
     "npt.NDArray is a typing.TypeAliasType under NumPy 2.5: load_field raised AttributeError for array-typed fields"),
    ("C08", "singlet.n3lo_decompose_expanded/order=4", "used nf in place of beta0",
     "n3lo_decompose_expanded called j12(a1, a0, nf): O(1) deviation from the exact solution (exponent 0)"),
    ("C09", "singlet.n3lo_decompose_expanded/order=4", "used nf in place of beta0",
     "on a diagonal tower the N3LO decompose-expanded singlet kernel deviated 18% from the non-singlet one"),
    ("C08", "singlet.eko_truncated/order=4", "corrupted its leading-order factor",
     "eko_truncated: e = e0; e += ... modified e0 in place; N3LO truncated kernel only NNLO-accurate (exponent 2.98 < 4)"),
    ("C09", "singlet.eko_truncated/order=3", "corrupted its leading-order factor",
     "truncated singlet on diagonal towers differed from the NS truncated kernel by 1e-3 at NNLO/N3LO (also order=4)"),
    ("C44", "ekos_product/value", "multiplied the two EKOs in the wrong order",
     "ekos_product contracted earlier.later instead of later.earlier (O(1) difference for non-commuting operators); errors propagated without absolute values (ekos_product/error)"),
    ("C49", "cli/runcards-example/exit=2/default-destination-absent", "default destination did not exist",
     "'eko runcards example' in a directory without ./runcards: click rejected the default destination (exists=True)"),
    ("C45", "info/Q-range", "took QMin/QMax from the order",
     "info_file.build: QMin/QMax = first/last entry of an unsorted mugrid (mugrid=[(100,5),(10,5)] -> QMin=100, QMax=10)"),
    ("C45", "evolve_pdfs/targetgrid-type", "could not be given a target grid",
     "evolve_pdfs(targetgrid=list) AttributeError, targetgrid=XGrid TypeError; info XMin/XMax overwritten by the card's grid (info/X-range)"),
    ("C34", "get_interpolation/near-nodes/log=True", "differing only at very small x",
     "get_interpolation: np.allclose default atol=1e-8 equated a target grid with first node 2e-9 to the stored grid with 1e-9 (identity returned); also log=False and C42 xgrid_reshape/near-nodes-grid/*"),
    ("C42", "xgrid_reshape/near-nodes-grid/log=True", "differing only at very small x",
     "manipulate.xgrid_check: same allclose shortcut left the operator untouched for a grid differing only below 1e-8"),
    ("C51", "exponent/sv=expanded/qcd=2,qed=1,run=0/ffns", "ignored the scale-variation shift",
     "QED x QCD with ModSV expanded/exponentiated and xif != 1: compute_aem_list used unshifted scales; residual to the central operator O(a_s) (exponent 0.98 at order (2,1)/(2,2)/(3,1), also exponentiated at (3,1))"),
    ("C14", "e2e/sv=expanded/not-close", "ignored the scale-variation shift",
     "with a scale variation scheme and xif != 1 the QED x QCD operator did not reduce to the QCD one for alpha_em -> 0 (gg entry at N=3.5 off by 5-8%)"),
    ("C13", "as4_ei.roots/b=syn-3real/nonfinite", "roots of the N3LO beta polynomial",
     "as4_evolution_integrals.roots([11/6, 1., 1/6]) and roots([0.3, 20., 7.]) returned NaN (real sqrt / cube root of negative numbers)"),
    ("C20", "gamma.gamma_qcd_as4/nf^0", "two typos in the four-loop quark mass",
     "gamma_qcd_as4: 135680 zeta3/28 (literature /27) and +332/243 (literature -332/243): gamma_qcd_as4(0)/256 = 98.10 vs 98.9434 (also gamma.gamma_qcd_as4/nf^3; C18 ker_exact/order=4/caused-by-gamma_qcd_as4)"),
    ("C18", "msbar_masses.solve/TypeError-array-to-scalar", "MSbar mass solver failed with NumPy",
     "msbar_masses.compute raised TypeError (float() of a 1-element array handed over by fsolve) for every input needing a solve"),
    ("C16", "compute_matching_coeffs_up/MSBAR/log/c31", "decoupling logs were built with the pole-mass",
     "MSBAR c31, c32 of the coupling decoupling (order a_s^3 relative) used the POLE c20, c21: 91.889, 43.444 at nf=4 instead of 68.185, 25.667 (also .../c32)"),
    ("C15", "couplings_expanded_alphaem_running/non-finite", "expanded couplings with running alpha_em",
     "couplings_expanded_alphaem_running((1,1), [.35,.0075]/4pi, 3, 3, 4., 2500., False) -> a_em = NaN (beta0 swapped inside the logarithms)"),
    ("C45", "info/AlphaS_Vals/scheme=MSBAR", "listed alpha_s from other thresholds",
     "info_file.build_alphas used the raw MSbar m(mu_ref) values as thresholds instead of the solved m(m): alpha_s(1.5, nf=3) = 0.34470 in the info file vs 0.34637 used by the evolution"),
    ("C51", "exponent/sv=exponentiated/qcd=3,qed=0,run=0/wall", "scale variation of the matching used beta0",
     "exponentiated scheme across a threshold at NNLO: matching elements re-expanded with beta0(nf) although they are a series in a_s^(nf+1): residual to the central operator O(a_s^2) (exponent 2.01 < 3; order=(3,0), xif2=0.25, truncated, 3 GeV (nf 4) -> 20 GeV (nf 5))"),
    ("C41", "v1-archive/theory/matching_order", "loaded with matching order (0, 0)",
     "v1.update_theory forced matching_order=[0,0] for v0.13 archives of any order"),
]

# (property, signature, what fails) -- genuine defects recorded, not repaired
KNOWN = [
    ("C29", "rg-derivative/ps/A2/entry=Hg",
     "polarised A_Hg^(2): coefficient of the single logarithm is 2*gamma_qg^(1)(nf=1) where renormalisation-group invariance requires gamma_qg^(1)(nf=1) (ekore/operator_matrix_elements/polarized/space_like/as2.py a_hg_l1); not repaired: tests/ekore/operator_matrix_elements/polarized/space_like/test_nnlo.py::test_hg pins the current values at L=10"),
    ("C29", "rg-exponent/ps/n=3/forward/class=light",
     "same defect seen by the scaling oracle: polarised NNLO matched operator depends on the matching-scale ratio at O(a_s^2) (exponent 1.97 < 3)"),
    ("C30", "singlet_qed/slot=(4,0)/Sdelta-is-ns+",
     "FHMRUVV N3LO gamma_singlet_qed builds the Sdelta entry with variation[3] ('qq') while ns+ uses variation[4] ('nsp'): n3lo_ad_variation=(0,0,0,1,0,0,0), N=2, nf=3; not repaired: the function is documented and tested (tests/eko/kernels/test_kernels_QEDsinglet.py::test_zero_true_gamma) with a 4-entry variation tuple, the repair needs an interface change"),
    ("C26", "operator_matrix_elements.unpolarized.space_like.as3.agq.A_gq/component=[0]/non-finite/at=N=2",
     "A_gq^(3) is NaN exactly at N=2, for every L and nf (spurious 1/(N-2) terms that cancel analytically): A_gq(2+0j, cache, 3, 0.0); acknowledged in tests/.../test_as3.py; not repaired: needs the analytic limit (a non-finite value of A_gq at any other N is a different signature)"),
    ("C27", "ad_ut.gamma_ns/mode=10200/order-index=2/cusp-coefficient",
     "time-like NNLO valence anomalous dimension has the wrong overall sign on its non-singlet part (as3.gamma_nsv returns -(gamma_nsm + nf PS2)): large-N slope -A_3 instead of +A_3; not repaired: tests/ekore/anomalous_dimensions/unpolarized/time_like/test_as3.py::test_nsv pins the current values"),
]
KNOWN += [
    ("C15", "expanded_vs_exact/qcd=4/a_s",
     "couplings.expanded_n3lo feeds normalised b_i = beta_i/beta_0 into a term written for beta_i: the N3LO expanded coupling is wrong at O(a^5) (expanded - exact scales like lambda^4 relative, required lambda^5); reproducer: (expanded_qcd(a0,4,beta0,b,1e-7)-a0)/1e-7 = -0.00234486 vs -a0^2 sum beta_k a0^k = -0.00235208 (nf=4, alpha_s=0.2); not repaired: tests/eko/test_couplings.py::benchmark_expanded_n3lo pins the current value"),
    ("C18", "msbar_masses.evolve/decoupling-factor-not-squared",
     "msbar_masses.evolve multiplies m^2 by the linear-mass decoupling factor once instead of its square: evolve(2., M_b, sc, [1,1,1], 1., M_b, nf_ref=4, nf_to=5)/2 = 0.99895 = zeta, required zeta^2 = 0.99790; not repaired: the repair moves tests/eko/test_msbar_masses.py::test_compute_msbar_mass beyond its tolerance"),
    ("C18", "msbar_masses.compute/fixed-point/crossing=True/ratios=unit",
     "consequence of the un-squared decoupling factor: m(m) = m violated when a mass reference lies in another patch (order >= 3)"),
    ("C18", "msbar_masses.evolve/matching-scale-position",
     "msbar_masses.evolve places the mass matching scales at m^2 k^2 xif2 instead of k m^2 (ratios applied twice): evolve(2., 0.80645, sc, k_c=0.5, 1., 0.80645, nf_ref=3, nf_to=4) = 2.00304, must be 2.0; not repaired together with the previous one"),
    ("C18", "msbar_masses.compute/fixed-point/crossing=True/ratios=non-unit",
     "consequence of the misplaced mass matching scales: m(m) = m violated for matching ratios != 1 when a patch is crossed"),
]

# (C50: the per-block entries of the audit round replace the 14 class-level ones)


# entries of the audit round (found by the extended checks; texts written by the implementers of the extensions)
_R3 = json.loads((pathlib.Path(__file__).parent / "findings_round3.json").read_text())
FIXED += [(e["property"], e["signature"], e["phrase"], e["what"]) for e in _R3["fixed"]]
KNOWN += [(e["property"], e["signature"], e["what"]) for e in _R3["known"]]


def commit_of(phrase):
    out = subprocess.run(
        ["git", "-C", "/repo", "log", "--format=%h", "--fixed-strings", "--grep", phrase, "-1"],
        capture_output=True, text=True,
    ).stdout.strip()
    if not out:
        raise SystemExit(f"no commit matches {phrase!r}")
    return out


def main():
    lines = []
    for prop, sig, phrase, what in FIXED:
        c = commit_of(phrase)
        lines.append({"property": prop, "status": "fixed", "signature": sig, "commit": c,
                      "text": f"fixed: property={prop} {c} {what}"})
    for prop, sig, what in KNOWN:
        lines.append({"property": prop, "status": "known", "signature": sig, "what": what})
    (ROOT / "known_findings.jsonl").write_text("".join(json.dumps(l) + "\n" for l in lines))
    print(f"{len(FIXED)} fixed, {len(KNOWN)} known")


if __name__ == "__main__":
    main()
