"""C49 the command-line interface produces valid runcards and the library's EKO (X-conf, subprocesses).

Every scenario runs the installed `eko` entry point in a subprocess with a private, fresh working
directory below the scratch directory:
  * `eko runcards example` x {./runcards present, absent} x {no -d, -d relative/absolute existing,
    -d relative/absolute missing}: exit status 0, both files load back into cards equal to the ones the
    command handed to the dumper;
  * `eko run` in its three argument forms x tiny cards x relative/absolute paths: exit status 0, the
    archive is where the help text says, and holds the operators `eko.solve` gives for the same files.
"""

import math
import os
import pathlib
import shutil
import subprocess
import sys

import numpy as np

from vf.core import cards
from vf.core.ctx import Result

ID = "C49"
LEVEL = "exploration"
TECHNIQUE = "complete scenario product of CLI invocations in subprocesses with private working directories, compared with the library"
LEVEL_TEXT = (
    "each scenario of the product is executed through the real console entry point in a fresh directory; "
    "written cards are re-loaded with yaml.safe_load + from_dict and compared field by field with the cards the "
    "command built; archives are compared operator by operator with eko.solve on the same card files"
)
LEVEL_NOTE = (
    "scenario lattice only (10-20 example scenarios, 12-30 run scenarios, LO/NLO cards on 3-point grids); "
    "trusted: subprocess, yaml.safe_load, the archive reader; interpreted mode (NUMBA_DISABLE_JIT=1)"
)
FLOOR_NONTRIVIAL = 3

EKO_BIN = "/venv/bin/eko"
PY = "/venv/bin/python"
MODULE_LAUNCH = [PY, "-c", "import sys; from ekobox.cli import command; sys.exit(command())"]

CARDS = {
    "lo-1": dict(xgrid=[0.1, 0.5, 1.0], mugrid=[[10.0, 5]]),
    "lo-2": dict(xgrid=[0.1, 0.5, 1.0], mugrid=[[10.0, 5], [3.0, 4]]),
    "lo-trunc": dict(xgrid=[0.2, 0.6, 1.0], mugrid=[[4.0, 4]], method="truncated"),
    "lo-pol": dict(xgrid=[0.1, 0.5, 1.0], mugrid=[[6.0, 5]], polarized=True),
    "nlo-1": dict(xgrid=[0.1, 0.5, 1.0], mugrid=[[5.0, 5]], order=[2, 0]),
}
DESTS = ["none", "rel-existing", "abs-existing", "rel-missing", "abs-missing", "rel-nested-missing", "abs-nested-missing"]


def _launch(case, args, cwd):
    cmd = ([EKO_BIN] if case.get("launcher", "script") == "script" else list(MODULE_LAUNCH)) + [str(a) for a in args]
    env = dict(os.environ)
    env["NUMBA_DISABLE_JIT"] = "1"
    p = subprocess.run(cmd, cwd=str(cwd), env=env, capture_output=True, text=True, timeout=1500)
    return p.returncode, p.stdout, p.stderr


def _exc_class(stderr):
    """Discrete class of a failure: last 'Name: message' line of a traceback, or the click usage error."""
    lines = [ln for ln in stderr.strip().split("\n") if ln.strip()]
    if any(ln.startswith("Usage:") for ln in lines):
        return "usage-error"
    for ln in reversed(lines):
        head = ln.split(":")[0].strip()
        if head and " " not in head and (head.endswith("Error") or head.endswith("Exception")):
            return head.split(".")[-1]
    return "unknown"


def _norm(o):
    """Plain-Python image of a raw card (numpy scalars/arrays and tuples normalised)."""
    if isinstance(o, dict):
        return {str(k): _norm(v) for k, v in o.items()}
    if isinstance(o, (list, tuple)):
        return [_norm(v) for v in o]
    if isinstance(o, np.ndarray):
        return _norm(o.tolist())
    if isinstance(o, (bool, np.bool_)):
        return bool(o)
    if isinstance(o, (int, np.integer)):
        return int(o)
    if isinstance(o, (float, np.floating)):
        return float(o)
    return o


def _diff(a, b, path=""):
    """First difference between two normalised structures (nan equals nan), or None."""
    if isinstance(a, dict) and isinstance(b, dict):
        if sorted(a) != sorted(b):
            return f"{path}: keys {sorted(a)} vs {sorted(b)}"
        for k in a:
            d = _diff(a[k], b[k], f"{path}.{k}")
            if d:
                return d
        return None
    if isinstance(a, list) and isinstance(b, list):
        if len(a) != len(b):
            return f"{path}: length {len(a)} vs {len(b)}"
        for i, (x, y) in enumerate(zip(a, b)):
            d = _diff(x, y, f"{path}[{i}]")
            if d:
                return d
        return None
    if isinstance(a, float) and isinstance(b, float) and math.isnan(a) and math.isnan(b):
        return None
    if isinstance(a, (int, float)) and isinstance(b, (int, float)) and not isinstance(a, bool) and not isinstance(b, bool):
        return None if float(a) == float(b) else f"{path}: {a!r} vs {b!r}"
    return None if a == b and type(a) is type(b) else f"{path}: {a!r} vs {b!r}"


def _built_example_cards(scratch):
    """The cards `eko runcards example` hands to the dumper (captured in-process; nothing is written)."""
    import ekobox.cards as ec
    from ekobox.cli import runcards as rc

    seen = {}
    orig = ec.dump
    ec.dump = lambda card, path: seen.__setitem__(pathlib.Path(path).name, card)
    try:
        rc.sub_example.callback(destination=scratch / "inproc")
    finally:
        ec.dump = orig
    return seen


def _load_cards(tpath, opath):
    import yaml
    from eko.io.runcards import OperatorCard, TheoryCard

    t = TheoryCard.from_dict(yaml.safe_load(pathlib.Path(tpath).read_text(encoding="utf-8")))
    o = OperatorCard.from_dict(yaml.safe_load(pathlib.Path(opath).read_text(encoding="utf-8")))
    return t, o


def _tail(s, n=300):
    s = s.strip()
    return s[-n:] if len(s) > n else s


def _example(case, base, res):
    from eko.io.runcards import OperatorCard, TheoryCard

    cwd = base / "cwd"
    cwd.mkdir()
    if case["default_dir"]:
        (cwd / "runcards").mkdir()
    dest = case["dest"]
    where = f"case={case}"
    args = ["runcards", "example"]
    if dest == "none":
        target = cwd / "runcards"
    else:
        rel = dest.startswith("rel")
        nested = "nested" in dest  # the parents of the destination do not exist either
        target = (cwd / "mycards") if rel else (base / "elsewhere" / "cards")
        if nested:
            target = (cwd / "out" / "deep" / "mycards") if rel else (base / "elsewhere2" / "a" / "b" / "cards")
        if dest.endswith("existing"):
            target.mkdir(parents=True)
        elif not rel and not nested:
            target.parent.mkdir(parents=True)
        args += ["-d", ("out/deep/mycards" if nested else "mycards") if rel else str(target)]
    existed = target.exists()
    rc, out, err = _launch(case, args, cwd)
    cls = _exc_class(err) if rc != 0 else "-"
    if rc != 0:
        if dest.endswith("missing") and rc == 2 and cls == "usage-error" and not target.exists():
            # an explicit destination that does not exist may be refused (nothing may be left behind)
            res.outcome = "example:refused-missing-explicit-destination"
            res.nontrivial = False
            return
        what = "default-destination-absent" if (dest == "none" and not existed and cls == "usage-error") else cls
        res.outcome = f"example:exit={rc}:{what}"
        res.fail(
            f"cli/runcards-example/exit={rc}/{what}",
            f"{where}: `eko {' '.join(args)}` in a fresh directory ({'with' if case['default_dir'] else 'without'} ./runcards) "
            f"exits with {rc}: ...{_tail(err)}",
        )
        return
    tp, op = target / "theory.yaml", target / "operator.yaml"
    if not tp.is_file() or not op.is_file():
        res.outcome = "example:files-missing"
        res.fail("cli/runcards-example/files-missing", f"{where}: exit 0 but {target} holds {sorted(p.name for p in target.iterdir()) if target.is_dir() else 'nothing'}")
        return
    try:
        t, o = _load_cards(tp, op)
    except Exception as exc:  # noqa
        res.outcome = "example:unloadable"
        res.fail("cli/runcards-example/cards-do-not-load", f"{where}: {type(exc).__name__}: {str(exc)[:300]}")
        return
    built = _built_example_cards(base)
    bt = TheoryCard.from_dict(built["theory.yaml"])
    bo = OperatorCard.from_dict(built["operator.yaml"])
    for label, a, b in (("theory", t, bt), ("operator", o, bo)):
        d = _diff(_norm(a.raw), _norm(b.raw))
        if d:
            res.fail(f"cli/runcards-example/{label}-card-differs", f"{where}: loaded {label} card differs from the one built by the command at {d}")
    res.outcome = f"example:ok:dest={'default' if dest == 'none' else dest}"
    res.nontrivial = True


def _run(case, base, res):
    import eko
    from ekobox import cards as ec

    cwd = base / "cwd"
    cwd.mkdir()
    where = f"case={case}"
    th, opc = cards.build(CARDS[case["card"]])
    form = case["form"]
    if form == 1:
        job = cwd / "job"
        job.mkdir()
        tp, op, outp = job / "theory.yaml", job / "operator.yaml", job / "eko.tar"
        rels = ["job"]
        abss = [job]
    else:
        (cwd / "t").mkdir()
        (cwd / "o").mkdir()
        tp, op = cwd / "t" / "my_theory.yaml", cwd / "o" / "my_operator.yaml"
        rels, abss = ["t/my_theory.yaml", "o/my_operator.yaml"], [tp, op]
        outp = cwd / "o" / "eko.tar"
        if form == 3:
            (cwd / "out").mkdir()
            outp = cwd / "out" / "result.tar"
            rels.append("out/result.tar")
            abss.append(outp)
    ec.dump(th.raw, tp)
    ec.dump(opc.raw, op)
    before = {p for p in cwd.rglob("*")}
    args = ["run"] + (rels if case["paths"] == "rel" else [str(a) for a in abss])
    rc, out, err = _launch(case, args, cwd)
    if rc != 0:
        cls = _exc_class(err)
        res.outcome = f"run:exit={rc}:{cls}"
        res.fail(f"cli/run/exit={rc}/{cls}", f"{where}: `eko {' '.join(args)}` exits with {rc}: ...{_tail(err)}")
        return
    new = sorted(str(p.relative_to(cwd)) for p in set(cwd.rglob("*")) - before)
    if not outp.is_file() or new != [str(outp.relative_to(cwd))]:
        res.outcome = "run:output-misplaced"
        res.fail(f"cli/run/output-location/form={form}", f"{where}: expected exactly {outp.relative_to(cwd)} to be created, new entries: {new}")
        if not outp.is_file():
            return
    # the library on the same card files
    lt, lo = _load_cards(tp, op)
    lib = base / "lib.tar"
    eko.solve(lt, lo, path=lib)
    got, ref = cards.read_ops(outp), cards.read_ops(lib)
    if sorted(got) != sorted(ref):
        res.fail("cli/run/points-differ", f"{where}: CLI archive has {sorted(got)}, library {sorted(ref)}")
        return
    worst = 0.0
    for ep in ref:
        for k, (a, b) in enumerate(zip(got[ep], ref[ep])):
            if (a is None) != (b is None):
                res.fail("cli/run/error-presence", f"{where}: at {ep} {'error' if k else 'operator'} present in one archive only")
                continue
            if a is None:
                continue
            scale = float(np.max(np.abs(b))) or 1.0
            dev = float(np.max(np.abs(a - b))) / scale
            worst = max(worst, dev)
            if not dev <= 1e-12:
                res.fail(
                    "cli/run/operators-differ",
                    f"{where}: at {ep} {'error' if k else 'operator'} tensors differ by {dev:.3g} (relative to the largest element)",
                )
    # sanity of the comparison: the operator is not the identity everywhere (something was computed)
    moved = max(float(np.max(np.abs(v[0] - np.eye(v[0].shape[0] * v[0].shape[1]).reshape(v[0].shape)))) for v in ref.values())
    res.info = {"max_cli_vs_library_reldev": worst, "distance_from_identity": moved}
    res.outcome = f"run:ok:form={form}:paths={case['paths']}"
    res.nontrivial = moved > 1e-3


def evaluate(case):
    res = Result()
    base = cards.scratch_path("c49").with_suffix("")
    base.mkdir(parents=True)
    try:
        if case["kind"] == "example":
            _example(case, base, res)
        else:
            _run(case, base, res)
        return res
    finally:
        shutil.rmtree(base, ignore_errors=True)


def _cases(thorough):
    cases = []
    for launcher in ("script", "module") if thorough else ("script",):
        for dd in (False, True):
            for dest in DESTS:
                cases.append(dict(kind="example", default_dir=dd, dest=dest, launcher=launcher))
    names = list(CARDS) if thorough else ["lo-1", "lo-2", "lo-trunc"]
    for form in (1, 2, 3):
        for card in names:
            for paths in ("rel", "abs"):
                if not thorough and paths == "abs" and card != "lo-1":
                    continue
                cases.append(dict(kind="run", form=form, card=card, paths=paths, launcher="script"))
    return cases


def run(ctx):
    if not os.access(EKO_BIN, os.X_OK):
        from vf.core.ctx import HarnessError

        raise HarnessError(f"{EKO_BIN} not found")
    cases = _cases(ctx.thorough())
    ctx.run_cases(cases, evaluate, chunksize=1)
    ctx.rule = (
        "complete product {./runcards present, absent} x destination {none, relative existing, absolute existing, relative "
        "missing, absolute missing, relative/absolute missing together with its parents} (thorough: x {console script, python -c entry point}) for `eko runcards example`; "
        "{1, 2, 3 arguments} x cards {LO one target across a threshold, LO two targets, LO truncated; thorough: + LO polarised, NLO} x "
        "{relative, absolute paths} (quick: absolute only for the first card) for `eko run`; each in its own subprocess and "
        "fresh working directory; non-trivial = cards written and re-loaded / a non-identity operator compared with the library"
    )
    ctx.assumptions += [
        "an explicit destination that does not exist may either be created or be refused with a usage error leaving nothing behind",
        "expected example cards = the objects the command passes to ekobox.cards.dump (captured in-process)",
        "card files for `eko run` are written by ekobox.cards.dump from cards with plain Python numbers",
        "CLI and library archives must agree to 1e-12 relative to the largest element (same code, same machine)",
    ]
