"""C49 the command-line interface produces valid runcards and the library's EKO (X-conf, subprocesses).

Every scenario runs the installed `eko` entry point in a subprocess with a private, fresh working
directory below the scratch directory:
  * `eko runcards example` x {./runcards present, absent} x {no -d, -d relative/absolute existing,
    -d relative/absolute missing}: exit status 0, both files load back into cards equal to the ones the
    command handed to the dumper;
  * `eko run` in its three argument forms x tiny cards x relative/absolute paths: exit status 0, the
    archive is where the help text says, and holds the operators `eko.solve` gives for the same files.

Equality of cards is decided on an attribute image of the card OBJECTS (walk over the dataclass fields, written
here, independent of DictLike.raw): the cards loaded from the written files against the objects the command built
(captured where `ekobox.cards.example` hands them out) / the cards the harness built in memory.
"""

import dataclasses
import enum
import hashlib
import math
import os
import pathlib
import shutil
import subprocess
import sys

import numpy as np

from vf.core import cards
from vf.core.ctx import Result

ID = "C49"
LEVEL = "exploration"
TECHNIQUE = "complete scenario product of CLI invocations in subprocesses with private working directories, compared with the library"
LEVEL_TEXT = (
    "each scenario of the product is executed through the real console entry point in a fresh directory; "
    "written cards are re-loaded with yaml.safe_load + from_dict and compared (i) as raw cards with what the command handed to the dumper, "
    "(ii) attribute by attribute (walk over the dataclass fields, not DictLike.raw) with the card objects the command built, and are put through "
    "the solver set-up up to the first integral; nothing but the two cards may appear or change below the scenario directory; "
    "archives are compared with eko.solve on the same card files: operators and errors element-wise identical, stored cards and metadata equal; "
    "outputs the library refuses must be refused by the command with the same exception"
)
LEVEL_NOTE = (
    "scenario lattice only (17-34 example scenarios, 16-48 run scenarios, LO/NLO/QED cards on 3-point grids, one card with every field away from its default); "
    "trusted: subprocess, yaml.safe_load, the archive reader; interpreted mode (NUMBA_DISABLE_JIT=1); legacy-format card files are not covered"
)
FLOOR_NONTRIVIAL = 3

EKO_BIN = "/venv/bin/eko"
PY = "/venv/bin/python"
MODULE_LAUNCH = [PY, "-c", "import sys; from ekobox.cli import command; sys.exit(command())"]

CARDS = {
    "lo-1": dict(xgrid=[0.1, 0.5, 1.0], mugrid=[[10.0, 5]]),
    "lo-2": dict(xgrid=[0.1, 0.5, 1.0], mugrid=[[10.0, 5], [3.0, 4]]),
    "lo-trunc": dict(xgrid=[0.2, 0.6, 1.0], mugrid=[[4.0, 4]], method="truncated"),
    "lo-pol": dict(xgrid=[0.1, 0.5, 1.0], mugrid=[[6.0, 5]], polarized=True),
    "nlo-1": dict(xgrid=[0.1, 0.5, 1.0], mugrid=[[5.0, 5]], order=[2, 0]),
    # every card field with its own (de)serialisation branch away from its default: linear grid (written as a dict), enum-valued
    # optional fields, MSbar references (no nan), floats that are not short decimals, downward path
    "sink": dict(
        xgrid=[1 / 3, 0.7, 1.0], is_log=False, mugrid=[[3.0, 4]], init=[10.0, 5], inversion="exact", sv="exponentiated", xif=1.3,
        scheme="MSBAR", mass_refs=[2.0, 4.5, 173.07], alphas=0.118 / 3, n3lo_ad_variation=[1, 0, 2, 0, 0, 1, 0], use_fhmruvv=False,
        matching_order=[0, 0], max_order=[7, 0], iterations=3, method="perturbative-exact",
    ),
    "qed": dict(xgrid=[0.1, 0.5, 1.0], mugrid=[[10.0, 5]], order=[1, 1], em_running=True, alphaem=0.007496252 / 1.1),
}
OUTS = ["tar", "notar", "missing-dir", "exists"]
DESTS = ["none", "rel-existing", "abs-existing", "rel-missing", "abs-missing", "rel-nested-missing", "abs-nested-missing"]


def _launch(case, args, cwd):
    cmd = ([EKO_BIN] if case.get("launcher", "script") == "script" else list(MODULE_LAUNCH)) + [str(a) for a in args]
    env = dict(os.environ)
    env["NUMBA_DISABLE_JIT"] = "1"
    p = subprocess.run(cmd, cwd=str(cwd), env=env, capture_output=True, text=True, timeout=1500)
    return p.returncode, p.stdout, p.stderr


def _exc_class(stderr):
    """Discrete class of a failure: last 'Name: message' line of a traceback, or the click usage error."""
    lines = [ln for ln in stderr.strip().split("\n") if ln.strip()]
    if any(ln.startswith("Usage:") for ln in lines):
        return "usage-error"
    for ln in reversed(lines):
        head = ln.split(":")[0].strip()
        if head and " " not in head and (head.endswith("Error") or head.endswith("Exception") or head.split(".")[-1] in _EKO_EXC):
            return head.split(".")[-1]
    return "unknown"


_EKO_EXC = ("OutputNotTar",)  # exception classes of eko.io.exceptions whose name does not end in Error


def _image(o):
    """Attribute image of a card object: plain data obtained by walking the dataclass fields (not through DictLike.raw)."""
    from eko.interpolation import XGrid

    if isinstance(o, XGrid):
        return {"points": [float(x) for x in np.asarray(o.raw).tolist()], "log": bool(o.log)}
    if dataclasses.is_dataclass(o) and not isinstance(o, type):
        return {f.name: _image(getattr(o, f.name)) for f in dataclasses.fields(o)}
    if isinstance(o, enum.Enum):
        return ["enum", type(o).__name__, o.name]
    if isinstance(o, dict):
        return {str(k): _image(v) for k, v in o.items()}
    if isinstance(o, (list, tuple)):
        return [_image(v) for v in o]
    if isinstance(o, np.ndarray):
        return _image(o.tolist())
    if isinstance(o, (bool, np.bool_)):
        return bool(o)
    if isinstance(o, (int, np.integer)):
        return int(o)
    if isinstance(o, (float, np.floating)):
        return float(o)
    if isinstance(o, pathlib.Path):
        return str(o)
    return o


def _snapshot(root):
    """{relative path: content hash | 'dir'} of everything below root."""
    snap = {}
    for p in sorted(root.rglob("*")):
        snap[str(p.relative_to(root))] = "dir" if p.is_dir() else hashlib.sha1(p.read_bytes()).hexdigest()
    return snap


def _norm(o):
    """Plain-Python image of a raw card (numpy scalars/arrays and tuples normalised)."""
    if isinstance(o, dict):
        return {str(k): _norm(v) for k, v in o.items()}
    if isinstance(o, (list, tuple)):
        return [_norm(v) for v in o]
    if isinstance(o, np.ndarray):
        return _norm(o.tolist())
    if isinstance(o, (bool, np.bool_)):
        return bool(o)
    if isinstance(o, (int, np.integer)):
        return int(o)
    if isinstance(o, (float, np.floating)):
        return float(o)
    return o


def _diff(a, b, path=""):
    """First difference between two normalised structures (nan equals nan), or None."""
    if isinstance(a, dict) and isinstance(b, dict):
        if sorted(a) != sorted(b):
            return f"{path}: keys {sorted(a)} vs {sorted(b)}"
        for k in a:
            d = _diff(a[k], b[k], f"{path}.{k}")
            if d:
                return d
        return None
    if isinstance(a, list) and isinstance(b, list):
        if len(a) != len(b):
            return f"{path}: length {len(a)} vs {len(b)}"
        for i, (x, y) in enumerate(zip(a, b)):
            d = _diff(x, y, f"{path}[{i}]")
            if d:
                return d
        return None
    if isinstance(a, float) and isinstance(b, float) and math.isnan(a) and math.isnan(b):
        return None
    if isinstance(a, (int, float)) and isinstance(b, (int, float)) and not isinstance(a, bool) and not isinstance(b, bool):
        return None if float(a) == float(b) else f"{path}: {a!r} vs {b!r}"
    return None if a == b and type(a) is type(b) else f"{path}: {a!r} vs {b!r}"


def _built_example_cards(scratch):
    """The cards `eko runcards example` hands to the dumper (captured in-process; nothing is written).

    Returns ({file name: raw card passed to ekobox.cards.dump}, {"theory"|"operator": the card OBJECT the command obtained from
    ekobox.cards.example and modified}).
    """
    import ekobox.cards as ec
    from ekobox.cli import runcards as rc

    seen, kept = {}, {}
    orig, orig_example = ec.dump, ec.example

    class Spy(orig_example):
        @classmethod
        def theory(cls):
            kept["theory"] = orig_example.theory()
            return kept["theory"]

        @classmethod
        def operator(cls):
            kept["operator"] = orig_example.operator()
            return kept["operator"]

    ec.dump = lambda card, path: seen.__setitem__(pathlib.Path(path).name, card)
    ec.example = Spy
    try:
        rc.sub_example.callback(destination=scratch / "inproc")
    finally:
        ec.dump = orig
        ec.example = orig_example
    return seen, kept


def _runnable(t, o, base):
    """Everything the solver does with a pair of cards before the numerics start; returns a description of what is wrong, or None."""
    from eko.io.struct import EKO
    from eko.runner import commons, recipes

    with EKO.create(base / "valid.tar") as b:
        e = b.load_cards(t, o).build()
        recipes.create(e)
        nev, nmatch = len(list(e.recipes)), len(list(e.recipes_matching))
        tc, oc = e.theory_card, e.operator_card
        at = commons.atlas(tc, oc)
        cp = commons.couplings(tc, oc)
        ip = commons.interpolator(oc)
        a = [float(cp.a_s(mu2, nf)) for mu2, nf in oc.evolgrid]
        npath = [len(at.matched_path(ep)) for ep in oc.evolgrid]
    if nev < 1 or min(npath) < 1:
        return f"no evolution recipe ({nev} evolutions, {nmatch} matchings, paths {npath})"
    if not all(math.isfinite(x) and x > 0 for x in a):
        return f"strong coupling at the targets: {a}"
    nb = sum(1 for _ in ip)
    if nb != len(oc.xgrid) or len(oc.xgrid) <= oc.configs.interpolation_polynomial_degree:
        return f"{nb} basis functions for {len(oc.xgrid)} grid points of degree {oc.configs.interpolation_polynomial_degree}"
    return None


def _load_cards(tpath, opath):
    import yaml
    from eko.io.runcards import OperatorCard, TheoryCard

    t = TheoryCard.from_dict(yaml.safe_load(pathlib.Path(tpath).read_text(encoding="utf-8")))
    o = OperatorCard.from_dict(yaml.safe_load(pathlib.Path(opath).read_text(encoding="utf-8")))
    return t, o


def _tail(s, n=300):
    s = s.strip()
    return s[-n:] if len(s) > n else s


def _example(case, base, res):
    from eko.io.runcards import OperatorCard, TheoryCard

    cwd = base / "cwd"
    cwd.mkdir()
    if case["default_dir"]:
        (cwd / "runcards").mkdir()
    dest = case["dest"]
    where = f"case={case}"
    args = ["runcards", "example"]
    if dest == "none":
        target = cwd / "runcards"
    else:
        rel = dest.startswith("rel")
        nested = "nested" in dest  # the parents of the destination do not exist either
        target = (cwd / "mycards") if rel else (base / "elsewhere" / "cards")
        if nested:
            target = (cwd / "out" / "deep" / "mycards") if rel else (base / "elsewhere2" / "a" / "b" / "cards")
        if dest.endswith("existing"):
            target.mkdir(parents=True)
        elif not rel and not nested:
            target.parent.mkdir(parents=True)
        args += ["-d", ("out/deep/mycards" if nested else "mycards") if rel else str(target)]
    existed = target.exists()
    if case.get("stale"):
        # files of an earlier generation are in the way: they have to be replaced
        for name in ("theory.yaml", "operator.yaml"):
            (target / name).write_text("stale: true\n", encoding="utf-8")
        if dest != "none" and case["default_dir"]:
            (cwd / "runcards" / "operator.yaml").write_text("other: 1\n", encoding="utf-8")
    before = _snapshot(base)
    rc, out, err = _launch(case, args, cwd)
    cls = _exc_class(err) if rc != 0 else "-"
    if rc != 0:
        if dest.endswith("missing") and rc == 2 and cls == "usage-error" and not target.exists():
            # an explicit destination that does not exist may be refused (nothing may be left behind)
            res.outcome = "example:refused-missing-explicit-destination"
            res.nontrivial = False
            return
        what = "default-destination-absent" if (dest == "none" and not existed and cls == "usage-error") else cls
        res.outcome = f"example:exit={rc}:{what}"
        res.fail(
            f"cli/runcards-example/exit={rc}/{what}",
            f"{where}: `eko {' '.join(args)}` in a fresh directory ({'with' if case['default_dir'] else 'without'} ./runcards) "
            f"exits with {rc}: ...{_tail(err)}",
        )
        return
    tp, op = target / "theory.yaml", target / "operator.yaml"
    if not tp.is_file() or not op.is_file():
        res.outcome = "example:files-missing"
        res.fail("cli/runcards-example/files-missing", f"{where}: exit 0 but {target} holds {sorted(p.name for p in target.iterdir()) if target.is_dir() else 'nothing'}")
        return
    try:
        t, o = _load_cards(tp, op)
    except Exception as exc:  # noqa
        res.outcome = "example:unloadable"
        res.fail("cli/runcards-example/cards-do-not-load", f"{where}: {type(exc).__name__}: {str(exc)[:300]}")
        return
    # nothing but the two cards (and the destination folder with its parents) may have appeared or changed
    after = _snapshot(base)
    tr = str(target.relative_to(base))
    allowed = {f"{tr}/theory.yaml", f"{tr}/operator.yaml"} | {str(pp.relative_to(base)) for pp in [target, *target.parents] if base in pp.parents}
    stray = sorted(k for k in set(before) | set(after) if before.get(k) != after.get(k) and k not in allowed)
    if stray:
        res.fail("cli/runcards-example/stray-output", f"{where}: besides the two cards in {tr} the command created/changed/removed {stray}")
    built, kept = _built_example_cards(base)
    bt = TheoryCard.from_dict(built["theory.yaml"])
    bo = OperatorCard.from_dict(built["operator.yaml"])
    for label, a, b in (("theory", t, bt), ("operator", o, bo)):
        d = _diff(_norm(a.raw), _norm(b.raw))
        if d:
            res.fail(f"cli/runcards-example/{label}-card-differs", f"{where}: loaded {label} card differs from the one built by the command at {d}")
    # (i) the file content is the raw card handed to the dumper; (ii) the loaded card OBJECT equals, attribute by attribute, the
    # card OBJECT the command built (neither side of (ii) passes through DictLike.raw after the file was read)
    import yaml

    for label, fpath, loaded in (("theory", tp, t), ("operator", op, o)):
        d = _diff(_norm(yaml.safe_load(fpath.read_text(encoding="utf-8"))), _norm(built[f"{label}.yaml"]))
        if d:
            res.fail(f"cli/runcards-example/{label}-file-differs-from-dumped-raw", f"{where}: content of {fpath.name} differs from the raw card handed to the dumper at {d}")
        if label not in kept:
            res.fail(f"cli/runcards-example/{label}-object-not-captured", f"{where}: the command did not obtain its {label} card from ekobox.cards.example")
            continue
        d = _diff(_image(loaded), _image(kept[label]))
        if d:
            res.fail(f"cli/runcards-example/{label}-card-object-differs", f"{where}: {label} card loaded from the written file differs from the card object built by the command at attribute {d}")
    # valid runcards: the pair is accepted by everything the solver does before the numerics start
    try:
        bad = _runnable(t, o, base)
    except Exception as exc:  # noqa
        bad = f"{type(exc).__name__}: {str(exc)[:300]}"
        res.fail(f"cli/runcards-example/cards-not-runnable/{type(exc).__name__}", f"{where}: the generated pair is refused by the solver set-up: {bad}")
    else:
        if bad:
            res.fail("cli/runcards-example/cards-not-runnable", f"{where}: the generated pair is not a runnable job: {bad}")
    res.outcome = f"example:ok:dest={'default' if dest == 'none' else dest}" + (":stale-replaced" if case.get("stale") else "")
    res.nontrivial = True


def _library(lt, lo, path):
    """eko.solve on loaded cards; returns the class name of the exception it raises, or None."""
    import eko

    try:
        eko.solve(lt, lo, path=path)
    except Exception as exc:  # noqa
        return type(exc).__name__
    return None


def _archive_image(path):
    """Cards and metadata stored in an archive (attribute images)."""
    from eko.io.struct import EKO

    with EKO.read(path) as e:
        md = e.metadata
        return {
            "theory": _image(e.theory_card),
            "operator": _image(e.operator_card),
            "metadata": {"origin": _image(md.origin), "xgrid": _image(md.xgrid), "version": md.version, "data_version": md.data_version},
        }


def _run(case, base, res):
    from ekobox import cards as ec

    cwd = base / "cwd"
    cwd.mkdir()
    where = f"case={case}"
    th, opc = cards.build(CARDS[case["card"]])
    form = case["form"]
    out_kind = case.get("out", "tar")
    lib = base / "lib.tar"
    if form == 1:
        job = cwd / "job"
        job.mkdir()
        tp, op, outp = job / "theory.yaml", job / "operator.yaml", job / "eko.tar"
        rels = ["job"]
        abss = [job]
    else:
        (cwd / "t").mkdir()
        (cwd / "o").mkdir()
        tp, op = cwd / "t" / "my_theory.yaml", cwd / "o" / "my_operator.yaml"
        rels, abss = ["t/my_theory.yaml", "o/my_operator.yaml"], [tp, op]
        outp = cwd / "o" / "eko.tar"
        if form == 3:
            (cwd / "out").mkdir()
            outp = cwd / "out" / "result.tar"
            if out_kind == "notar":  # an output name the library does not accept
                outp, lib = cwd / "out" / "result.dat", base / "lib.dat"
            elif out_kind == "missing-dir":  # output below a folder that does not exist
                outp, lib = cwd / "nodir" / "result.tar", base / "nolibdir" / "lib.tar"
            elif out_kind == "exists":  # something is already there
                outp.write_bytes(b"")
                lib.write_bytes(b"")
            rels.append(str(outp.relative_to(cwd)))
            abss.append(outp)
    ec.dump(th.raw, tp)
    ec.dump(opc.raw, op)
    before = {p for p in cwd.rglob("*")}
    args = ["run"] + (rels if case["paths"] == "rel" else [str(a) for a in abss])
    rc, out, err = _launch(case, args, cwd)
    # the card files represent the cards: what is loaded from them equals, attribute by attribute, what was built in memory
    lt, lo = _load_cards(tp, op)
    for label, a, b in (("theory", lt, th), ("operator", lo, opc)):
        d = _diff(_image(a), _image(b))
        if d:
            res.fail(f"cli/run/{label}-card-file-differs-from-card", f"{where}: {label} card loaded from the dumped file differs from the card object at attribute {d}")
    if rc != 0:
        cls = _exc_class(err)
        libexc = _library(lt, lo, lib) if out_kind != "tar" else None
        if libexc is not None and libexc == cls:
            # the library refuses the same request with the same exception: nothing to compare
            res.outcome = f"run:refused-like-library:{cls}:out={out_kind}"
            res.nontrivial = False
            return
        res.outcome = f"run:exit={rc}:{cls}"
        res.fail(
            f"cli/run/exit={rc}/{cls}" + ("" if out_kind == "tar" else f"/out={out_kind}/library={libexc or 'succeeds'}"),
            f"{where}: `eko {' '.join(args)}` exits with {rc}: ...{_tail(err)}" + ("" if out_kind == "tar" else f"; eko.solve on the same cards with an output of the same kind: {libexc or 'succeeds'}"),
        )
        return
    new = sorted(str(p.relative_to(cwd)) for p in set(cwd.rglob("*")) - before)
    expected_new = [str(outp.relative_to(cwd))] if out_kind != "missing-dir" else sorted([str(outp.parent.relative_to(cwd)), str(outp.relative_to(cwd))])
    if not outp.is_file() or new != expected_new:
        res.outcome = "run:output-misplaced"
        res.fail(f"cli/run/output-location/form={form}", f"{where}: expected exactly {outp.relative_to(cwd)} to be created, new entries: {new}")
        if not outp.is_file():
            return
    # the library on the same card files
    libexc = _library(lt, lo, lib)
    if libexc is not None:
        res.outcome = f"run:ok-but-library-refuses:{libexc}"
        res.fail(f"cli/run/accepted-what-library-refuses/out={out_kind}/{libexc}", f"{where}: the command exits with 0, eko.solve on the same cards with an output of the same kind raises {libexc}")
        return
    got, ref = cards.read_ops(outp), cards.read_ops(lib)
    if sorted(got) != sorted(ref):
        res.fail("cli/run/points-differ", f"{where}: CLI archive has {sorted(got)}, library {sorted(ref)}")
        return
    worst = 0.0
    for ep in ref:
        for k, (a, b) in enumerate(zip(got[ep], ref[ep])):
            if (a is None) != (b is None):
                res.fail("cli/run/error-presence", f"{where}: at {ep} {'error' if k else 'operator'} present in one archive only")
                continue
            if a is None:
                continue
            scale = float(np.max(np.abs(b))) or 1.0
            dev = float(np.max(np.abs(a - b))) / scale
            worst = max(worst, dev)
            if not dev <= 1e-12:
                res.fail(
                    "cli/run/operators-differ",
                    f"{where}: at {ep} {'error' if k else 'operator'} tensors differ by {dev:.3g} (relative to the largest element)",
                )
            elif a.shape != b.shape or a.dtype != b.dtype or not np.array_equal(a, b):
                # same code on the same machine: element by element the same numbers (a relative-to-largest tolerance would hide
                # a change confined to small entries)
                i = np.unravel_index(int(np.argmax(np.abs(a - b))), a.shape) if a.shape == b.shape else None
                res.fail(
                    "cli/run/operators-not-identical",
                    f"{where}: at {ep} {'error' if k else 'operator'} tensors are not element-wise identical (shape {a.shape} vs {b.shape}, dtype {a.dtype} vs {b.dtype}, "
                    f"largest difference at {i}: {a[i] if i else '-'} vs {b[i] if i else '-'})",
                )
    # the rest of the archive: stored cards and metadata
    ia, ib = _archive_image(outp), _archive_image(lib)
    for part in ("theory", "operator", "metadata"):
        d = _diff(ia[part], ib[part])
        if d:
            res.fail(f"cli/run/archive-{part}-differs", f"{where}: {part} stored in the CLI archive differs from the library archive at {d}")
    for part, card in (("theory", lt), ("operator", lo)):
        d = _diff(ia[part], _image(card))
        if d:
            res.fail(f"cli/run/archive-{part}-is-not-the-input-card", f"{where}: {part} card stored in the CLI archive differs from the card file it was run on at {d}")
    # sanity of the comparison: the operator is not the identity everywhere (something was computed)
    moved = max(float(np.max(np.abs(v[0] - np.eye(v[0].shape[0] * v[0].shape[1]).reshape(v[0].shape)))) for v in ref.values())
    res.info = {"max_cli_vs_library_reldev": worst, "distance_from_identity": moved}
    res.outcome = f"run:ok:form={form}:paths={case['paths']}" + ("" if out_kind == "tar" else f":out={out_kind}")
    res.nontrivial = moved > 1e-3


def evaluate(case):
    res = Result()
    base = cards.scratch_path("c49").with_suffix("")
    base.mkdir(parents=True)
    try:
        if case["kind"] == "example":
            _example(case, base, res)
        else:
            _run(case, base, res)
        return res
    finally:
        shutil.rmtree(base, ignore_errors=True)


def _cases(thorough):
    cases = []
    for launcher in ("script", "module") if thorough else ("script",):
        for dd in (False, True):
            for dest in DESTS:
                cases.append(dict(kind="example", default_dir=dd, dest=dest, launcher=launcher))
        # cards of an earlier generation already at the destination (and, with an explicit destination, a foreign file in ./runcards)
        cases.append(dict(kind="example", default_dir=True, dest="none", launcher=launcher, stale=True))
        cases.append(dict(kind="example", default_dir=False, dest="rel-existing", launcher=launcher, stale=True))
        cases.append(dict(kind="example", default_dir=True, dest="abs-existing", launcher=launcher, stale=True))
    names = list(CARDS) if thorough else ["lo-1", "lo-2", "lo-trunc"]
    for form in (1, 2, 3):
        for card in names:
            for paths in ("rel", "abs"):
                if not thorough and paths == "abs" and card != "lo-1":
                    continue
                cases.append(dict(kind="run", form=form, card=card, paths=paths, launcher="script"))
    if not thorough:
        cases.append(dict(kind="run", form=2, card="sink", paths="rel", launcher="script"))
    # third argument: outputs the library accepts or refuses
    for out in OUTS[1:]:
        for paths in ("rel", "abs") if thorough else ("rel",):
            cases.append(dict(kind="run", form=3, card="lo-1", paths=paths, launcher="script", out=out))
    return cases


def run(ctx):
    if not os.access(EKO_BIN, os.X_OK):
        from vf.core.ctx import HarnessError

        raise HarnessError(f"{EKO_BIN} not found")
    cases = _cases(ctx.thorough())
    ctx.run_cases(cases, evaluate, chunksize=1)
    ctx.rule = (
        "complete product {./runcards present, absent} x destination {none, relative existing, absolute existing, relative "
        "missing, absolute missing, relative/absolute missing together with its parents} + 3 scenarios with cards of an earlier generation already at the "
        "destination (default, relative, absolute; a foreign file in ./runcards when the destination is explicit) "
        "(thorough: x {console script, python -c entry point}) for `eko runcards example`; "
        "{1, 2, 3 arguments} x cards {LO one target across a threshold, LO two targets, LO truncated; thorough: + LO polarised, NLO, LO QCDxQED with running "
        "alpha_em, and the card with every field away from its default (linear grid, MSbar, scale variation, exact inversion, downward, non-decimal floats)} x "
        "{relative, absolute paths} (quick: absolute only for the first card; the all-fields card once with 2 arguments) + third argument in "
        "{not a .tar name, below a missing folder, already existing} (quick: relative paths) for `eko run`; each in its own subprocess and "
        "fresh working directory; non-trivial = cards written and re-loaded / a non-identity operator compared with the library"
    )
    ctx.assumptions += [
        "an explicit destination that does not exist may either be created or be refused with a usage error leaving nothing behind",
        "expected example cards = the objects the command obtains from ekobox.cards.example and modifies, and the raw cards it passes to ekobox.cards.dump (both captured in-process)",
        "card files for `eko run` are written by ekobox.cards.dump from cards with plain Python numbers; the loaded cards must equal the built ones attribute by attribute",
        "CLI and library archives must agree element by element (same code, same machine, single-threaded BLAS), stored cards and metadata included",
        "an output request that eko.solve refuses (name not .tar, missing folder, existing file) must be refused by the command with the same exception class; such scenarios count as trivial",
        "valid example cards = accepted by EKO.create/build, recipes.create, atlas, couplings (finite positive a_s at the targets) and the interpolation dispatcher",
    ]
