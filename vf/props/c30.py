"""C30 the QED-extended anomalous-dimension grids embed the QCD ones.

Complete product  nf 3-6 x QED orders (1..4, 1..2) x N3LO variant x variation tuples x 12 complex N.
Oracle: the QCD entry points themselves (gamma_singlet, gamma_ns) for the pure-QCD slots - the statement
*is* an equality between two public functions - exact zeros for the photon, exact charge ratios typed
here (e_u^2 = 4/9, e_d^2 = 1/9) for the pure-QED non-singlet slots, and the abelian limit of the QCD
non-singlet functions (CF, TR typed here) for the functions multiplying the charges.
"""

import math

import numpy as np

from vf.core.ctx import Result

ID = "C30"
LEVEL = "exploration"
TECHNIQUE = "exhaustive lattice nf x QED order x N3LO variant/variation x complex N; block-by-block comparison of the QED grids with the QCD entry points"
LEVEL_TEXT = (
    "on every lattice point each pure-QCD slot (k,0) of gamma_singlet_qed / gamma_valence_qed / "
    "gamma_ns_qed is compared entry by entry with gamma_singlet / gamma_ns called with the same "
    "arguments (singlet block, Sdelta = ns+, valence = ns_v, Vdelta = ns-), the photon row and column and "
    "the (0,0) slot are required to vanish identically, and the up/down non-singlet entries at O(aem), "
    "O(as aem) have to be in the ratio e_u^2 : e_d^2 while at O(aem^2) they have to be e_q^2 (e_q^2 A(N) + "
    "e_Sigma^2(nf) B(N)) with the same A, B for both charges and all nf; the functions themselves are anchored "
    "in the QCD ones by the abelian limit: O(aem) = e_q^2 gamma_ns^(1,0)/CF, A = slot(1,1)/(2 CF e_q^2), "
    "B = nf-term of gamma_ns^(2,0) / (CF TR), so the absolute charges 4/9, 1/9 are decided, not only their ratio"
)
LEVEL_NOTE = (
    "equalities are between two code paths of ekore evaluated in double precision (tolerance 1e-12 "
    "relative to the largest entry of the slot, at least 1); decided on the lattice only; the O(aem^2) structure is "
    "the reading of 'charge-squared multiples of the same function' that is true of the physical kernels; the "
    "abelian-limit anchors (CF -> e_q^2, CA -> 0, TR nf -> NC sum e_q^2) use CF=4/3, TR=1/2 typed here and eko's QCD "
    "non-singlet functions; the O(as aem) function is tied to the O(aem^2) one but has no anchor of its own; the "
    "recorded defect of the FHMRUVV (4,0) Sdelta entry is pinned to its model (entry = ns+ with variation[4]:=variation[3], "
    "only for use_fhmruvv and variation[3]!=variation[4]); any other failure of that entry is a violation"
)
FLOOR_NONTRIVIAL = 50

EU2, ED2 = 4.0 / 9.0, 1.0 / 9.0
NC = 3.0
CF, TR = 4.0 / 3.0, 0.5  # typed here (SU(3)); used only to take the abelian limit of the QCD non-singlet functions
RTOL = 1e-12
NLAT = [
    2.0,
    3.7,
    1.2,
    30.0,
    complex(0.5, 2.0),
    complex(1.0, 1.0),
    complex(1.5, -3.0),
    complex(5.0, 5.0),
    complex(0.3, 10.0),
    complex(10.0, 0.5),
    complex(2.0, -40.0),
    complex(1.0001, 0.0001),
]
ORDERS = [(i, j) for i in (1, 2, 3, 4) for j in (1, 2)]
# (gg, gq, qg, qq, nsp, nsm, nsv): uniform tuples and all single-entry deviations from the central one
VARIATIONS = [(0,) * 7, (1,) * 7, (2,) * 7] + [
    tuple(v if k == pos else 0 for k in range(7)) for pos in range(7) for v in (1, 2)
]


def _N(n):
    return complex(n["re"], n["im"]) if isinstance(n, dict) else n


def _nup(nf):
    return nf // 2  # u,c,t among the first nf flavours d,u,s,c,b,t


class _Cmp:
    def __init__(self, res, where):
        self.res, self.where = res, where
        self.n = 0
        self.maxrel = 0.0
        self.maxpass = 0.0
        self.nknown = 0
        self.maxmodel = 0.0

    def eq(self, sig, got, ref, scale, what, known_model=None, beyond=""):
        """`known_model`: the value the recorded defect of this entry produces (None outside the class of inputs
        where that defect exists).  A failure keeps the listed signature `sig` only if the entry equals that model
        within RTOL; every other failure of the entry is reported as `sig + beyond`."""
        self.n += 1
        got, ref = complex(got), complex(ref)
        d = abs(got - ref)
        if not (math.isfinite(d)):
            self.res.fail(sig + "/not-finite", f"{self.where} {what}: {got} vs {ref}")
            return
        scale = max(scale, 1.0)  # near N=1 the non-singlet entries cancel to ~1e-2: compare on the O(1) natural size
        rel = d / scale
        if rel > RTOL and known_model is not None:
            dm = abs(got - complex(known_model)) / scale
            if dm <= RTOL:
                # the recorded defect, exactly: counted, kept out of the measured maxima
                self.nknown += 1
                self.maxmodel = max(self.maxmodel, dm)
                self.res.fail(sig, f"{self.where} {what}: grid={got} reference={ref} relative difference {rel:.3e}")
                return
        self.maxrel = max(self.maxrel, rel)
        if rel <= RTOL:
            self.maxpass = max(self.maxpass, rel)
        if rel > RTOL:
            self.res.fail(sig + beyond, f"{self.where} {what}: grid={got} reference={ref} relative difference {rel:.3e}")

    def zero_exact(self, sig, got, what):
        self.n += 1
        if complex(got) != 0:
            self.res.fail(sig, f"{self.where} {what}: {got} != 0")


def _grid_case(case):
    import ekore.anomalous_dimensions.unpolarized.space_like as ad

    nf, order, fh = case["nf"], tuple(case["order"]), case["fhmruvv"]
    res = Result()
    refused = 0
    n_eval = 0
    maxrel = 0.0
    maxpass = 0.0
    nknown = 0
    maxmodel = 0.0
    for var in [tuple(case["variation"])]:
        for Nraw in NLAT:
            N = Nraw
            where = f"nf={nf} order={order} fhmruvv={fh} variation={var} N={N}"
            cmp = _Cmp(res, where)
            qorder = (order[0], 0)
            try:
                Q = ad.gamma_singlet(qorder, N, nf, var, fh)
                q_err = None
            except NotImplementedError as e:
                Q, q_err = None, e
            try:
                S = ad.gamma_singlet_qed(order, N, nf, var, fh)
                s_err = None
            except NotImplementedError as e:
                S, s_err = None, e
            except Exception as e:  # noqa
                res.fail(f"gamma_singlet_qed/order={order}/raises", f"{where}: {type(e).__name__}: {e}")
                continue
            if (Q is None) != (S is None):
                res.fail(
                    f"gamma_singlet_qed/order={order}/refusal-differs",
                    f"{where}: QCD -> {q_err!r}, QED -> {s_err!r}",
                )
                continue
            nsp = ad.gamma_ns(qorder, 10101, N, nf, var, fh)
            nsm = ad.gamma_ns(qorder, 10201, N, nf, var, fh)
            nsv = ad.gamma_ns(qorder, 10200, N, nf, var, fh)
            if S is None:
                refused += 1
            else:
                n_eval += 1
                if S.shape != (order[0] + 1, order[1] + 1, 4, 4):
                    res.fail(f"gamma_singlet_qed/order={order}/shape", f"{where}: {S.shape}")
                    continue
                for a in range(4):
                    for b in range(4):
                        cmp.zero_exact("singlet_qed/slot=(0,0)/not-zero", S[0, 0][a, b], f"[0,0][{a},{b}]")
                for k in range(1, order[0] + 1):
                    m = S[k, 0]
                    q = Q[k - 1]
                    sc = max(np.abs(q).max(), abs(nsp[k - 1]))
                    sig = f"singlet_qed/slot=({k},0)"
                    # basis (g, ph, S, Sdelta)  <-  QCD basis (S, g)
                    cmp.eq(sig + "/gg", m[0, 0], q[1, 1], sc, "gg")
                    cmp.eq(sig + "/gq", m[0, 2], q[1, 0], sc, "gq")
                    cmp.eq(sig + "/qg", m[2, 0], q[0, 1], sc, "qg")
                    cmp.eq(sig + "/qq", m[2, 2], q[0, 0], sc, "qq")
                    # recorded defect (known_findings: singlet_qed/slot=(4,0)/Sdelta-is-ns+): the FHMRUVV N3LO grid
                    # builds the Sdelta entry with variation[3] ('qq') instead of variation[4] ('nsp').  It exists
                    # only for k=4, use_fhmruvv=True, variation[3] != variation[4], and then the entry equals
                    # gamma_ns+ evaluated with variation[4] := variation[3].  Anything else is a new failure.
                    model, beyond = None, ""
                    if k == 4:
                        beyond = f"/beyond-known/fhmruvv={fh}/var[3]{'!=' if var[3] != var[4] else '=='}var[4]"
                        if fh and var[3] != var[4]:
                            varm = tuple(var[3] if i == 4 else v for i, v in enumerate(var))
                            model = ad.gamma_ns(qorder, 10101, N, nf, varm, fh)[3]
                    cmp.eq(
                        sig + "/Sdelta-is-ns+", m[3, 3], nsp[k - 1], sc, "Sdelta.Sdelta vs gamma_ns(10101)",
                        known_model=model, beyond=beyond,
                    )
                    for a in range(4):
                        cmp.zero_exact(sig + "/photon-row", m[1, a], f"[ph,{a}]")
                        cmp.zero_exact(sig + "/photon-column", m[a, 1], f"[{a},ph]")
                    for a, b in ((0, 3), (3, 0), (2, 3), (3, 2)):
                        cmp.zero_exact(sig + "/Sdelta-mixing", m[a, b], f"[{a},{b}]")
            # valence grid
            try:
                V = ad.gamma_valence_qed(order, N, nf, var, fh)
            except Exception as e:  # noqa
                res.fail(f"gamma_valence_qed/order={order}/raises", f"{where}: {type(e).__name__}: {e}")
                V = None
            if V is not None:
                n_eval += 1
                for a in range(2):
                    for b in range(2):
                        cmp.zero_exact("valence_qed/slot=(0,0)/not-zero", V[0, 0][a, b], f"[0,0][{a},{b}]")
                for k in range(1, order[0] + 1):
                    m = V[k, 0]
                    sc = max(abs(nsv[k - 1]), abs(nsm[k - 1]))
                    sig = f"valence_qed/slot=({k},0)"
                    cmp.eq(sig + "/V-is-nsv", m[0, 0], nsv[k - 1], sc, "V.V vs gamma_ns(10200)")
                    cmp.eq(sig + "/Vdelta-is-ns-", m[1, 1], nsm[k - 1], sc, "Vdelta.Vdelta vs gamma_ns(10201)")
                    cmp.zero_exact(sig + "/mixing", m[0, 1], "[V,Vdelta]")
                    cmp.zero_exact(sig + "/mixing", m[1, 0], "[Vdelta,V]")
            # non-singlet grids
            g = {}
            for mode in (10102, 10103, 10202, 10203):
                try:
                    g[mode] = ad.gamma_ns_qed(order, mode, N, nf, var, fh)
                except Exception as e:  # noqa
                    res.fail(f"gamma_ns_qed/order={order}/mode={mode}/raises", f"{where}: {type(e).__name__}: {e}")
            if len(g) == 4:
                n_eval += 1
                for mode, ref, name in ((10102, nsp, "ns+u"), (10103, nsp, "ns+d"), (10202, nsm, "ns-u"), (10203, nsm, "ns-d")):
                    cmp.zero_exact(f"ns_qed/{name}/slot=(0,0)/not-zero", g[mode][0, 0], "[0,0]")
                    for k in range(1, order[0] + 1):
                        cmp.eq(
                            f"ns_qed/{name}/slot=({k},0)",
                            g[mode][k, 0],
                            ref[k - 1],
                            abs(ref[k - 1]),
                            f"vs gamma_ns({10101 if ref is nsp else 10201})",
                        )
                # charge-squared multiples at O(aem) and O(as aem)
                for up, dn, name in ((10102, 10103, "ns+"), (10202, 10203, "ns-")):
                    for slot in ((0, 1), (1, 1)):
                        u, d = g[up][slot], g[dn][slot]
                        cmp.eq(
                            f"ns_qed/{name}/slot={slot}/charge-ratio",
                            u * ED2,
                            d * EU2,
                            max(abs(u) * ED2, abs(d) * EU2),
                            f"up={u} down={d}: up*e_d^2 vs down*e_u^2",
                        )
                # the function itself at O(aem): abelian limit of the leading-order QCD non-singlet anomalous
                # dimension, gamma^(0,1)_q = e_q^2 gamma_ns^(1,0) / CF (absolute charges, not only their ratio)
                for mode, e2, name in ((10102, EU2, "ns+u"), (10103, ED2, "ns+d"), (10202, EU2, "ns-u"), (10203, ED2, "ns-d")):
                    want = e2 * nsp[0] / CF
                    cmp.eq(
                        f"ns_qed/{name}/slot=(0,1)/is-abelian-limit-of-(1,0)",
                        g[mode][0, 1],
                        want,
                        abs(want),
                        f"vs e_q^2 gamma_ns((1,0),10101)[0]/CF with e_q^2={e2:.6g}",
                    )
            maxrel = max(maxrel, cmp.maxrel)
            maxpass = max(maxpass, cmp.maxpass)
            nknown += cmp.nknown
            maxmodel = max(maxmodel, cmp.maxmodel)
    res.info = {
        "max_rel_difference": maxrel,
        "max_rel_difference_of_passing_comparisons": maxpass,
        "max_rel_difference_from_model_of_known_defect": maxmodel,
        "known_defect_comparisons": nknown,
        "grids": n_eval,
        "refused": refused,
    }
    res.nontrivial = n_eval > 0
    res.outcome = ("fail" if res.fails else "ok") + (":refused-consistently" if refused and not n_eval else "")
    if refused and n_eval <= 2 * refused:
        res.outcome = ("fail" if res.fails else "ok") + ":singlet-refused-nf6"
    return res


def _aem2_case(case):
    """O(aem^2): gamma_q = e_q^2 (e_q^2 A(N) + e_Sigma^2(nf) B(N)), A and B independent of charge and nf."""
    import ekore.anomalous_dimensions.unpolarized.space_like as ad

    N = _N(case["N"])
    res = Result()
    maxrel = 0.0
    max_anchor = 0.0
    n = 0
    for name, mu, md in (("ns+", 10102, 10103), ("ns-", 10202, 10203)):
        rows, rhs = [], []
        for nf in (3, 4, 5, 6):
            es2 = NC * (_nup(nf) * EU2 + (nf - _nup(nf)) * ED2)
            for mode, e2 in ((mu, EU2), (md, ED2)):
                try:
                    v = ad.gamma_ns_qed((1, 2), mode, N, nf, (0,) * 7)[0, 2]
                except Exception as e:  # noqa
                    res.fail(f"gamma_ns_qed/order=(1,2)/mode={mode}/raises", f"N={N} nf={nf}: {type(e).__name__}: {e}")
                    continue
                rows.append((e2, es2, nf, mode))
                rhs.append(v / e2)
        if len(rows) != 8:
            continue
        # determine A, B from the two nf=3 points, predict the other six
        (e1, s1, _, _), (e2_, s2, _, _) = rows[0], rows[1]
        det = e1 * s2 - e2_ * s1
        A = (rhs[0] * s2 - rhs[1] * s1) / det
        B = (e1 * rhs[1] - e2_ * rhs[0]) / det
        sc = max(abs(x) for x in rhs)
        for (e2q, es2, nf, mode), v in zip(rows[2:], rhs[2:]):
            n += 1
            pred = e2q * A + es2 * B
            rel = abs(v - pred) / sc
            maxrel = max(maxrel, rel)
            if rel > 1e-11:
                res.fail(
                    f"ns_qed/{name}/slot=(0,2)/charge-structure",
                    f"N={N} nf={nf} mode={mode}: gamma/e_q^2={v} but e_q^2 A + e_Sigma^2 B = {pred} "
                    f"(A={A}, B={B} fixed at nf=3); relative {rel:.3e}",
                )
        # ---- the functions themselves (abelian limit CF -> e_q^2, CA -> 0, TR nf -> NC sum e_q'^2 of the QCD ones):
        #   A(N) = gamma^(1,1)_q / (2 CF e_q^2)        (the CF^2 part of gamma_ns^(1), as carried by the O(as aem) slot)
        #   B(N) = [gamma_ns^(2,0)(nf+1) - gamma_ns^(2,0)(nf)] / (CF TR)   (the nf part of gamma_ns^(1), same for ns+ and ns-)
        qmode = 10101 if name == "ns+" else 10201
        for e2q, es2, nf, mode in rows:
            try:
                g11 = ad.gamma_ns_qed((1, 2), mode, N, nf, (0,) * 7)[1, 1]
                q_hi = ad.gamma_ns((2, 0), qmode, N, nf + 1, (0,) * 7)[1]
                q_lo = ad.gamma_ns((2, 0), qmode, N, nf, (0,) * 7)[1]
            except Exception as e:  # noqa
                res.fail(f"ns_qed/{name}/slot=(0,2)/anchor-raises", f"N={N} nf={nf} mode={mode}: {type(e).__name__}: {e}")
                continue
            A_ref = g11 / (e2q * 2.0 * CF)
            B_ref = (q_hi - q_lo) / (CF * TR)
            sc_a = max(abs(A_ref), abs(A), 1.0)
            sc_b = max((abs(q_hi) + abs(q_lo)) / (CF * TR), abs(B), 1.0)
            n += 2
            ra, rb = abs(A - A_ref) / sc_a, abs(B - B_ref) / sc_b
            max_anchor = max(max_anchor, ra, rb)
            if not ra <= 1e-11:
                res.fail(
                    f"ns_qed/{name}/slot=(0,2)/A-is-(1,1)/2CF",
                    f"N={N} nf={nf} mode={mode}: A (from the nf=3 entries of slot (0,2)) = {A} but "
                    f"slot(1,1)/(2 CF e_q^2) = {A_ref}; relative {ra:.3e}",
                )
            if not rb <= 1e-11:
                res.fail(
                    f"ns_qed/{name}/slot=(0,2)/B-is-nf-term-of-(2,0)",
                    f"N={N} nf={nf} mode={mode}: B (from the nf=3 entries of slot (0,2)) = {B} but "
                    f"[gamma_ns((2,0),{qmode},nf+1)-gamma_ns((2,0),{qmode},nf)]/(CF TR) = {B_ref}; relative {rb:.3e}",
                )
            # and the entry itself, predicted without any fit
            v = ad.gamma_ns_qed((1, 2), mode, N, nf, (0,) * 7)[0, 2]
            pred = e2q * (e2q * A_ref + es2 * B_ref)
            scp = max(e2q * e2q * abs(A_ref) + e2q * es2 * (abs(q_hi) + abs(q_lo)) / (CF * TR), 1.0)
            n += 1
            rp = abs(v - pred) / scp
            max_anchor = max(max_anchor, rp)
            if not rp <= 1e-11:
                res.fail(
                    f"ns_qed/{name}/slot=(0,2)/is-abelian-limit",
                    f"N={N} nf={nf} mode={mode}: entry={v} but e_q^2 (e_q^2 A + e_Sigma^2 B) = {pred} with A from slot (1,1), "
                    f"B from the QCD nf-term; relative {rp:.3e}",
                )
    res.info = {"max_rel_aem2_structure": maxrel, "max_rel_aem2_anchor": max_anchor, "predictions": n}
    res.nontrivial = n > 0
    res.outcome = "aem2:" + ("fail" if res.fails else "ok")
    return res


def evaluate(case):
    if case["kind"] == "grid":
        return _grid_case(case)
    return _aem2_case(case)


def run(ctx):
    cases = []
    for nf in (3, 4, 5, 6):
        for order in ORDERS:
            for fh in (True, False) if order[0] >= 4 else (True,):
                if order[0] < 4:
                    variations = VARIATIONS[:1]
                elif order[1] == 2 or ctx.thorough():
                    variations = VARIATIONS
                else:
                    variations = VARIATIONS[:3]  # quick: the single-entry deviations only on the (4,2) grid
                for var in variations:
                    cases.append({"kind": "grid", "nf": nf, "order": list(order), "fhmruvv": fh, "variation": list(var)})
    for N in NLAT:
        cases.append({"kind": "aem2", "N": {"re": complex(N).real, "im": complex(N).imag}})
    results = ctx.run_cases(cases, evaluate)
    ctx.extra["grids_compared"] = sum((r[1][3] or {}).get("grids", 0) for r in results)
    ctx.rule = (
        "complete product nf 3-6 x QED orders {1..4}x{1,2} x (order 4: both N3LO variants x 17 variation "
        "tuples = 3 uniform + all 14 single-entry deviations; quick tier: the 14 deviations on the (4,2) grid only) x 12 complex N (real, on and off the "
        "inversion contours, near N=1, large |Im N|); per point the three QED grids are compared slot by "
        "slot with gamma_singlet/gamma_ns, the O(aem) non-singlet entries also with e_q^2 gamma_ns^(1,0)/CF; plus 12 N for "
        "the O(aem^2) charge structure across nf 3-6 (fit at nf=3 predicts nf 4-6; A and B against slot (1,1) and the "
        "nf-term of the QCD gamma_ns^(2,0); the entry against the fit-free prediction); "
        "non-trivial = at least one grid was produced and compared "
        "(FHMRUVV singlet at nf=6 is refused by both the QCD and the QED entry point)"
    )
    ctx.assumptions += [
        "equality is demanded for identical arguments (order, N, nf, n3lo_ad_variation, use_fhmruvv) of the QCD and QED entry points",
        f"relative tolerance {RTOL:g} on max(largest entry of the slot, 1); zeros must be exact zeros",
        "quark charges e_u^2=4/9, e_d^2=1/9, NC=3, CF=4/3, TR=1/2 and the number of up-type flavours nf//2 are typed here",
        "known finding singlet_qed/slot=(4,0)/Sdelta-is-ns+ is reported only where the entry equals gamma_ns+ with "
        "variation[4]:=variation[3] within 1e-12 (FHMRUVV, variation[3]!=variation[4]); these comparisons are counted "
        "(known_defect_comparisons) and kept out of max_rel_difference; other failures of the entry carry /beyond-known/...",
    ]
