"""C53 EKOs are continuous in the target scale within a flavour-number patch (X-conf, S2 + S3).

Targets exactly on each matching scale (with the lower and with the upper nf) and on the initial
scale are compared with targets displaced by a relative eps in {1e-7, 1e-6} (on mu^2) *inside the
same patch*, for orders 1-3, scale-variation schemes none / expanded / exponentiated with
xi^2 in {1/4, 4}. Oracle: max|E(mu^2) - E(mu^2 (1 +- eps))| <= 50 eps (1 + max|E|).
Continuity is a statement about kernels, couplings and the cliff logic, independent of the x
grid: decided on exact Mellin moments through the real runner, tied to x-space by S3 cards.
"""

import math

import numpy as np

from vf.core import cards, probe
from vf.core.ctx import Result

ID = "C53"
LEVEL = "exploration"
TECHNIQUE = "exhaustive enumeration of (order, sv scheme, ratio, boundary target) through the real runner; Lipschitz oracle at eps = 1e-7, 1e-6"
LEVEL_TEXT = (
    "every patch boundary (matching scale with lower/upper nf) and the initial scale, for every order 1-3 x scheme x ratio x "
    "direction of the path, is solved together with its two displaced neighbours; the difference must be O(eps)"
)
LEVEL_NOTE = "two displacements only (as in the property text); masses/scales fixed; S2 probe for the bulk, real quadrature on 3-point grids for a subset"
FLOOR_NONTRIVIAL = 30

M = [2.0, 4.5, 100.0]
SV = [(None, 1.0), ("expanded", 0.5), ("expanded", 2.0), ("exponentiated", 0.5), ("exponentiated", 2.0)]
# (init, target mu, target nf, direction of the displacement that stays inside the patch)
TARGETS = {
    "init": ([3.0, 4], 3.0, 4, +1),
    "init-": ([3.0, 4], 3.0, 4, -1),
    "mc-upper": ([3.0, 4], 2.0, 4, +1),
    "mc-lower": ([3.0, 4], 2.0, 3, -1),
    "mb-lower": ([3.0, 4], 4.5, 4, -1),
    "mb-upper": ([3.0, 4], 4.5, 5, +1),
    "mb-lower-from-above": ([10.0, 5], 4.5, 4, -1),
    "mb-upper-from-above": ([10.0, 5], 4.5, 5, +1),
    "mc-lower-from-below": ([1.5, 3], 2.0, 3, -1),
    "mc-upper-from-below": ([1.5, 3], 2.0, 4, +1),
    "mt-lower": ([10.0, 5], 100.0, 5, -1),
    "mt-upper": ([10.0, 5], 100.0, 6, +1),
}
EPS = [1e-7, 1e-6]
MOMENTS = [2.0, 3.3, 5.0]


def evaluate(case):
    init, mu, nf, sgn = TARGETS[case["target"]]
    sv, xif = case["sv"], case["xif"]
    mus = [mu] + [mu * math.sqrt(1.0 + sgn * e) for e in EPS]
    co = case.get("co")  # a further target far beyond, computed in the same EKO (first or last in the list)
    cfg = dict(
        order=[case["qcd"], 0],
        method=case.get("method", "truncated"),
        masses=M,
        init=list(init),
        mugrid=([[60.0, 5]] if co == "first" else []) + [[m, nf] for m in mus] + ([[60.0, 5]] if co == "last" else []),
        sv=sv,
        xif=xif,
        iterations=4,
        inversion="expanded",
    )
    cfg.update(case.get("extra", {}))
    res = Result()
    where = f"qcd={case['qcd']} sv={sv} xif={xif} target={case['target']} init={init} mu={mu} nf={nf} seam={case['seam']}"
    try:
        if case["seam"] == "s2":
            out = probe.moment_solve(cfg, MOMENTS)
        else:
            ops = cards.solve_ops(dict(cfg, xgrid=[0.2, 0.6, 1.0], degree=1), tag="c53")
            out = {ep: o for ep, (o, e) in ops.items()}
    except (NotImplementedError, ValueError) as e:
        res.outcome = "refused"
        res.nontrivial = False
        return res
    except Exception as e:  # noqa
        res.fail(f"solve/crash/{type(e).__name__}", f"{where}: {type(e).__name__}: {str(e)[:200]}")
        return res
    if co:
        out = {k: v for k, v in out.items() if not (abs(k[0] - 3600.0) < 1e-6 and k[1] == 5)}
    byscale = sorted(out.items(), key=lambda kv: abs(kv[0][0] - mu**2))
    if len(byscale) != 3:
        res.fail("solve/points", f"{where}: expected 3 evolution points, got {sorted(out)}")
        return res
    E0 = byscale[0][1]
    kind = "init" if case["target"].startswith("init") else "wall"
    ratios = []
    for (ep, E), eps in zip(byscale[1:], EPS):
        d = float(np.abs(E - E0).max())
        bound = 50.0 * eps * (1.0 + float(np.abs(E0).max()))
        ratios.append(d / eps)
        if not np.isfinite(d) or d > bound:
            res.fail(
                f"solve/{kind}/sv={sv}/discontinuous",
                f"{where}: |E(mu2) - E(mu2(1{'+' if sgn > 0 else '-'}{eps}))| = {d:.3e} > 50 eps (1+|E|) = {bound:.3e}",
            )
    res.info = {"max_d_over_eps": max(ratios)}
    res.outcome = f"{kind}:{sv}:{'zero' if max(ratios) == 0 else 'smooth'}"
    return res


def run(ctx):
    cases = []
    tnames = list(TARGETS) if ctx.thorough() else [t for t in TARGETS if not t.startswith("mt")]
    for qcd in (1, 2, 3):
        for sv, xif in SV:
            for t in tnames:
                cases.append(dict(seam="s2", qcd=qcd, sv=sv, xif=xif, target=t))
    if ctx.thorough():
        for qcd in (2, 3):
            for sv, xif in SV:
                for t in tnames:
                    cases.append(dict(seam="s2", qcd=qcd, sv=sv, xif=xif, target=t, method="iterate-exact"))
                    cases.append(dict(seam="s2", qcd=qcd, sv=sv, xif=xif, target=t, extra=dict(polarized=True)))
    # the boundary targets computed together with a target beyond the matching scales (shared segments)
    for qcd in ((1, 2) if not ctx.thorough() else (1, 2, 3)):
        for sv, xif in SV:
            if sv != "expanded" and not ctx.thorough():
                continue
            for t in ("mc-lower-from-below", "mc-upper-from-below", "mb-lower", "mb-upper", "init"):
                for co in ("first", "last"):
                    cases.append(dict(seam="s2", qcd=qcd, sv=sv, xif=xif, target=t, co=co))
    for qcd, sv, xif, t in (
        (1, None, 1.0, "mb-lower"),
        (2, "expanded", 2.0, "mb-lower"),
        (2, "expanded", 0.5, "mb-upper"),
        (2, "exponentiated", 2.0, "mc-lower"),
        (1, "expanded", 2.0, "init"),
    ):
        cases.append(dict(seam="s3", qcd=qcd, sv=sv, xif=xif, target=t))
    if ctx.thorough():
        for sv, xif in SV:
            for t in ("mb-lower", "mb-upper", "mc-lower", "init"):
                cases.append(dict(seam="s3", qcd=2, sv=sv, xif=xif, target=t))
    ctx.run_cases(cases, evaluate, chunksize=1)
    ctx.rule = (
        "QCD order 1-3 x 5 (scheme, xi) settings x boundary targets (initial scale both directions; charm/bottom"
        + ("/top" if ctx.thorough() else "")
        + " matching scale with the lower and the upper nf, reached from below, from inside and from above) at the moment seam, "
        "plus un-stubbed 3-point-grid cards; each case solves the boundary target with its 1e-7 and 1e-6 neighbours; non-trivial = solved"
    )
    ctx.assumptions += ["Lipschitz constant 50 (1 + max|E|): smooth cases measure d/eps of order 0.1-1, a jump is >= 1e-3 absolute"]
