"""C53 EKOs are continuous in the target scale within a flavour-number patch (X-conf, S2 + S3).

Targets exactly on each matching scale (with the lower and with the upper nf) and on the initial
scale are compared with a ladder of targets displaced *inside the same patch* (relative, on mu^2):
1e-8, 1e-7, 1e-6, a pair straddling the edge of each former `np.isclose` window (rtol 1e-5, atol 1e-8:
`Operator.compute` skipped a final segment that short, `Couplings.a` skipped the running over a
segment that short; the operator was frozen inside and jumped at the edge - repaired in eko
3dd82389, the windows are now at rounding level, rtol 1e-14), and 3e-5, 1e-4,
for orders 1-3, scale-variation schemes none / expanded / exponentiated with xi^2 in {1/4, 4}.
Oracles: every displaced target against the boundary target, and every pair of consecutive ladder
points: |E(t) - E(t')| <= LIP |t - t'|/b (1 + max|E(b)|); no displaced target (>= 1e-8) may return the
bit-identical operator of the boundary (a locally constant operator is a step function).
Continuity is a statement about kernels, couplings and the cliff logic, independent of the x
grid: decided on exact Mellin moments through the real runner, tied to x-space by S3 cards.
"""

import math

import numpy as np

from vf.core import cards, probe
from vf.core.ctx import Result

ID = "C53"
LEVEL = "exploration"
TECHNIQUE = (
    "exhaustive enumeration of (order, sv scheme, ratio, boundary target) through the real runner; Lipschitz oracle on a ladder of "
    "7-9 displaced targets (1e-8 ... 1e-4, incl. pairs straddling the former isclose-window edges), against the boundary and pairwise"
)
LEVEL_TEXT = (
    "every patch boundary (matching scale with lower/upper nf, reached directly, through another matching scale, or being the initial "
    "scale) and the initial scale, for every order 1-3 x scheme x ratio x direction of the path, is solved together with its ladder of "
    "displaced neighbours; all differences (to the boundary and between consecutive neighbours) must be O(distance), and no neighbour "
    "may be bit-identical to the boundary operator"
)
LEVEL_NOTE = (
    "displacements 1e-8..1e-4 and the two former isclose-window edges (1e-5) only, the present rounding-level windows (1e-14) are not resolved; masses/scales fixed (matching ratios 1.3/0.7 in thorough); S2 probe "
    "for the bulk, real quadrature on 3-point grids for a subset; a jump elsewhere in the interior of a patch is not looked for"
)
FLOOR_NONTRIVIAL = 250

M = [2.0, 4.5, 100.0]
SV = [(None, 1.0), ("expanded", 0.5), ("expanded", 2.0), ("exponentiated", 0.5), ("exponentiated", 2.0)]
# name: (init, target mu, target nf, direction of the displacement that stays inside the patch,
#        former short-segment windows (rtol 1e-5) of the code that contained the boundary target for sv None / exponentiated
#        (kept to attribute a re-appearing edge jump to the recorded, repaired finding):
#        "op"  = the final evolution segment starts at the boundary (Operator.compute: isclose(q2_from, q2_to)),
#        "cpl" = the last segment of the coupling path (from the reference (91.2, 5)) starts at the boundary
#                (Couplings.a: isclose(seg.origin, seg.target)),
#        extra config)
TARGETS = {
    "init": ([3.0, 4], 3.0, 4, +1, ("op",), {}),
    "init-": ([3.0, 4], 3.0, 4, -1, ("op",), {}),
    "mc-upper": ([3.0, 4], 2.0, 4, +1, (), {}),
    "mc-lower": ([3.0, 4], 2.0, 3, -1, ("op", "cpl"), {}),
    "mb-lower": ([3.0, 4], 4.5, 4, -1, ("cpl",), {}),
    "mb-upper": ([3.0, 4], 4.5, 5, +1, ("op",), {}),
    "mb-lower-from-above": ([10.0, 5], 4.5, 4, -1, ("op", "cpl"), {}),
    "mb-upper-from-above": ([10.0, 5], 4.5, 5, +1, (), {}),
    "mc-lower-from-below": ([1.5, 3], 2.0, 3, -1, ("cpl",), {}),
    "mc-upper-from-below": ([1.5, 3], 2.0, 4, +1, ("op",), {}),
    "mt-lower": ([10.0, 5], 100.0, 5, -1, (), {}),
    "mt-upper": ([10.0, 5], 100.0, 6, +1, ("op", "cpl"), {}),
    # final segment from a matching scale to a matching scale (the path crosses another matching scale first)
    "mb-lower-via-mc": ([1.5, 3], 4.5, 4, -1, ("cpl",), {}),
    "mb-upper-via-mc": ([1.5, 3], 4.5, 5, +1, ("op",), {}),
    "mc-upper-via-mb": ([10.0, 5], 2.0, 4, +1, (), {}),
    "mc-lower-via-mb": ([10.0, 5], 2.0, 3, -1, ("op", "cpl"), {}),
    # the initial scale sits on a matching scale
    "init-on-mc-lower": ([2.0, 3], 2.0, 3, -1, ("op", "cpl"), {}),
    "init-on-mc-upper": ([2.0, 3], 2.0, 4, +1, ("op",), {}),
    "init-on-mb-lower": ([4.5, 5], 4.5, 4, -1, ("op", "cpl"), {}),
    "init-on-mb-upper": ([4.5, 5], 4.5, 5, +1, ("op",), {}),
    # matching scale k*m_b with k != 1: (k m)^2 of the atlas and mu^2 of the target need not be the same float
    "mb-lower-k1.3": ([3.0, 4], 1.3 * 4.5, 4, -1, ("cpl",), dict(ratios=[1.0, 1.3, 1.0])),
    "mb-upper-k1.3": ([3.0, 4], 1.3 * 4.5, 5, +1, ("op",), dict(ratios=[1.0, 1.3, 1.0])),
    "mb-lower-k0.7": ([3.0, 4], 0.7 * 4.5, 4, -1, ("cpl",), dict(ratios=[1.0, 0.7, 1.0])),
    "mb-upper-k0.7": ([3.0, 4], 0.7 * 4.5, 5, +1, ("op",), dict(ratios=[1.0, 0.7, 1.0])),
}
QUICK_OLD = [t for t in list(TARGETS)[:12] if not t.startswith("mt")]
VIA = [t for t in TARGETS if "-via-" in t or t.startswith("init-on-")]
RATIO = [t for t in TARGETS if "-k" in t]
EPS = [1e-7, 1e-6]  # the displacements of the property text
EPS_IN = [1e-8]  # further displacement inside the former windows
EPS_OUT = [3e-5, 1e-4]  # outside the former windows
W = 1e-10  # half width of the pair straddling a window edge
RTOL, ATOL = 1e-5, 1e-8  # numpy.isclose defaults, used at both call sites before eko 3dd82389 (now rtol=1e-14, atol=0)
MOMENTS = [2.0, 3.3, 5.0]
LIP = 10.0  # Lipschitz constant (times 1 + max|E0|); measured maximum 0.62 (quick) / 0.68 (thorough)
WINDOW_NAME = {("op",): "Operator.compute-skip", ("cpl",): "Couplings.a-skip", ("cpl", "op"): "Operator.compute-skip+Couplings.a-skip"}


def _edge(b, sgn):
    """Relative displacement d where isclose(b, b (1 + sgn d)) flips: b d = ATOL + RTOL b (1 + sgn d)."""
    return (RTOL + ATOL / b) / (1.0 - sgn * RTOL)


def ladder(case):
    """[(label, relative displacement)] sorted by displacement, and {edge displacement: windows expected there}."""
    init, mu, nf, sgn, windows, extra = TARGETS[case["target"]]
    sv, xif = case["sv"], case["xif"]
    b = mu**2
    pts = [("b", 0.0)] + [(f"{e:g}", e) for e in EPS_IN + EPS + EPS_OUT]
    # edges: Operator.compute compares the factorization scales; Couplings.a compares the (for the exponentiated
    # scheme: xi^2-rescaled) renormalization scales, which moves the atol term
    edges = {}
    d_op = _edge(b, sgn)
    d_cpl = _edge(b * (xif**2 if sv == "exponentiated" else 1.0), sgn)
    edges[d_op] = ["op"]
    edges.setdefault(d_cpl, []).append("cpl")
    expected = {}
    for k, (d, who) in enumerate(sorted(edges.items())):
        pts += [(f"edge{k}-in", d - W), (f"edge{k}-out", d + W)]
        expected[f"edge{k}"] = tuple(sorted(w for w in who if w in windows and sv != "expanded"))
    pts.sort(key=lambda p: p[1])
    return pts, expected


def evaluate(case):
    init, mu, nf, sgn, windows, extra = TARGETS[case["target"]]
    sv, xif = case["sv"], case["xif"]
    pts, expected = ladder(case)
    mus = [mu * math.sqrt(1.0 + sgn * d) if d else mu for _, d in pts]
    co = case.get("co")  # a further target far beyond, computed in the same EKO (first or last in the list)
    cfg = dict(
        order=[case["qcd"], 0],
        method=case.get("method", "truncated"),
        masses=M,
        init=list(init),
        mugrid=([[60.0, 5]] if co == "first" else []) + [[m, nf] for m in mus] + ([[60.0, 5]] if co == "last" else []),
        sv=sv,
        xif=xif,
        iterations=4,
        inversion="expanded",
    )
    cfg.update(extra)
    cfg.update(case.get("extra", {}))
    res = Result()
    where = f"qcd={case['qcd']} sv={sv} xif={xif} target={case['target']} init={init} mu={mu} nf={nf} seam={case['seam']}"
    try:
        if case["seam"] == "s2":
            out = probe.moment_solve(cfg, MOMENTS)
        else:
            ops = cards.solve_ops(dict(cfg, xgrid=[0.2, 0.6, 1.0], degree=1), tag="c53")
            out = {ep: o for ep, (o, e) in ops.items()}
    except (NotImplementedError, ValueError) as e:
        res.outcome = "refused"
        res.nontrivial = False
        return res
    except Exception as e:  # noqa
        res.fail(f"solve/crash/{type(e).__name__}", f"{where}: {type(e).__name__}: {str(e)[:200]}")
        return res
    if co:
        out = {k: v for k, v in out.items() if not (abs(k[0] - 3600.0) < 1e-6 and k[1] == 5)}
    # one evolution point per requested target
    keys = sorted(out)
    Es = []
    used = set()
    for m_ in mus:
        k = min(keys, key=lambda kk: abs(kk[0] - m_ * m_)) if keys else None
        if k is None or k[1] != nf or abs(k[0] - m_ * m_) > 1e-13 * m_ * m_ or k in used:
            k = None
            break
        used.add(k)
        Es.append(out[k])
    if k is None or len(keys) != len(mus):
        res.fail("solve/points", f"{where}: expected {len(mus)} evolution points {[m_ * m_ for m_ in mus]}, got {keys}")
        return res
    E0 = Es[0]
    norm = 1.0 + float(np.abs(E0).max())
    if case["target"].startswith("init-on"):
        kind = "init+wall"
    else:
        kind = "init" if case["target"].startswith("init") else "wall"
    ratios, lips, jumps, moved = [], [], {}, False
    # (1) every displaced target against the boundary target
    for (lab, d), E in zip(pts[1:], Es[1:]):
        diff = float(np.abs(E - E0).max())
        moved = moved or diff > 0
        ratios.append(diff / d)
        lips.append(diff / d / norm)
        if not np.isfinite(diff) or diff > LIP * d * norm:
            res.fail(
                f"solve/{kind}/sv={sv}/discontinuous",
                f"{where}: |E(mu2) - E(mu2(1{'+' if sgn > 0 else '-'}{d:.10e}))| = {diff:.3e} > {LIP:g} eps (1+|E|) = {LIP * d * norm:.3e}",
            )
        # (3) a displaced target with the bit-identical operator: locally constant, i.e. a step somewhere (the short-segment
        # windows of the code are at rtol 1e-14, six orders below the smallest displacement)
        if diff == 0.0:
            res.fail(
                f"solve/{kind}/sv={sv}/frozen",
                f"{where}: the target displaced by {d:.10e} has the bit-identical operator of the boundary target",
            )
    # (2) consecutive ladder points against each other
    for ((la, da), Ea), ((lb, db), Eb) in zip(zip(pts, Es), zip(pts[1:], Es[1:])):
        diff = float(np.abs(Eb - Ea).max())
        step = db - da
        if diff <= LIP * step * norm and np.isfinite(diff):
            lips.append(diff / step / norm)
            continue
        if la.endswith("-in") and lb.endswith("-out"):
            exp = expected[la[:-3]]
            jumps[la[:-3]] = diff
            # the recorded defect, pinned: inside the window the operator is the one of the boundary target (bitwise), the
            # window is one the path analysis predicts, and the jump is the first-order change over the skipped distance
            # (bit-identical at the moment seam; in x-space a segment with a_s(to) == a_s(from) is the identity up to the quadrature: 1e-13)
            frozen = Ea.tobytes() == E0.tobytes() or float(np.abs(Ea - E0).max()) <= 1e-9 * norm
            pinned = bool(exp) and frozen and diff <= LIP * db * norm
            if pinned:
                res.fail(
                    f"solve/edge-jump/{WINDOW_NAME[exp]}",
                    f"{where}: targets mu2(1{'+' if sgn > 0 else '-'}{da:.10e}) (np.isclose to the boundary: operator identical to the boundary one) and "
                    f"mu2(1{'+' if sgn > 0 else '-'}{db:.10e}) (not close), relative distance {step:.1e}, differ by {diff:.3e} > {LIP:g} eps (1+|E|) = {LIP * step * norm:.3e}",
                )
                continue
            res.fail(
                f"solve/{kind}/sv={sv}/edge-discontinuous",
                f"{where}: pair straddling the isclose edge at {da:.10e}/{db:.10e} (windows expected there: {list(exp)}; inner operator "
                f"{'==' if Ea.tobytes() == E0.tobytes() else '!='} boundary operator) differs by {diff:.3e} > {LIP * step * norm:.3e}",
            )
            continue
        res.fail(
            f"solve/{kind}/sv={sv}/discontinuous",
            f"{where}: consecutive targets displaced by {da:.10e} and {db:.10e} differ by {diff:.3e} > {LIP:g} eps (1+|E|) = {LIP * step * norm:.3e}",
        )
    res.info = {"max_d_over_eps": max(ratios), "max_lipschitz_over_norm": max(lips), "edge_jumps": jumps}
    if jumps:
        res.info["max_known_edge_jump_abs"] = max(jumps.values())
    res.nontrivial = moved
    res.outcome = f"{kind}:{sv}:{'zero' if not moved else ('edge-jump' if jumps else 'smooth')}"
    return res


def run(ctx):
    cases = []
    tnames = (list(TARGETS)[:12] if ctx.thorough() else QUICK_OLD) + VIA + (RATIO if ctx.thorough() else [])
    for qcd in (1, 2, 3):
        for sv, xif in SV:
            for t in tnames:
                cases.append(dict(seam="s2", qcd=qcd, sv=sv, xif=xif, target=t))
    cases.append(dict(seam="s2", qcd=2, sv="expanded", xif=2.0, target="mb-upper", method="iterate-exact"))
    cases.append(dict(seam="s2", qcd=2, sv=None, xif=1.0, target="mb-lower", method="iterate-exact"))
    if ctx.thorough():
        for qcd in (2, 3):
            for sv, xif in SV:
                for t in tnames:
                    if t in RATIO:
                        continue
                    cases.append(dict(seam="s2", qcd=qcd, sv=sv, xif=xif, target=t, method="iterate-exact"))
                    cases.append(dict(seam="s2", qcd=qcd, sv=sv, xif=xif, target=t, extra=dict(polarized=True)))
    # the boundary targets computed together with a target beyond the matching scales (shared segments)
    for qcd in ((1, 2) if not ctx.thorough() else (1, 2, 3)):
        for sv, xif in SV:
            if sv != "expanded" and not ctx.thorough():
                continue
            for t in ("mc-lower-from-below", "mc-upper-from-below", "mb-lower", "mb-upper", "init"):
                for co in ("first", "last"):
                    cases.append(dict(seam="s2", qcd=qcd, sv=sv, xif=xif, target=t, co=co))
    for qcd, sv, xif, t in (
        (1, None, 1.0, "mb-lower"),
        (2, "expanded", 2.0, "mb-lower"),
        (2, "expanded", 0.5, "mb-upper"),
        (2, "exponentiated", 2.0, "mc-lower"),
        (1, "expanded", 2.0, "init"),
    ):
        cases.append(dict(seam="s3", qcd=qcd, sv=sv, xif=xif, target=t))
    if ctx.thorough():
        for sv, xif in SV:
            for t in ("mb-lower", "mb-upper", "mc-lower", "init"):
                cases.append(dict(seam="s3", qcd=2, sv=sv, xif=xif, target=t))
    ctx.run_cases(cases, evaluate, chunksize=1)
    ctx.rule = (
        "QCD order 1-3 x 5 (scheme, xi) settings x boundary targets (initial scale both directions; charm/bottom"
        + ("/top" if ctx.thorough() else "")
        + " matching scale with the lower and the upper nf, reached from below, from inside, from above, through the other matching scale, "
        "and as initial scale" + ("; bottom matching at 1.3 m_b and 0.7 m_b" if ctx.thorough() else "") + ") at the moment seam, "
        "plus un-stubbed 3-point-grid cards; each case solves, in one EKO, the boundary target and its neighbours displaced by 1e-8, 1e-7, 1e-6, "
        "edge -+ 1e-10 of each former isclose window (Operator.compute / Couplings.a: 1e-5 + 1e-8/mu2), 3e-5, 1e-4; "
        "non-trivial = solved and at least one neighbour differs from the boundary operator"
    )
    ctx.assumptions += [
        "Lipschitz constant 10 (1 + max|E|) against the boundary target and between consecutive neighbours: smooth cases measure "
        "at most 0.68 (1 + max|E|); a jump between consecutive neighbours is seen if it is >= 20 x their relative distance (>= 4e-9 absolute at a window edge)",
        "which former short-segment windows contained a boundary target (table TARGETS) is derived by hand from the evolution path and the coupling path "
        "from the reference (91.2, 5); a window-edge jump is attributed to the recorded (repaired) finding only where that table predicts the window",
    ]
