"""C13 evolution integrals equal their defining integrals / Taylor truncations; N3LO cubic roots.

Complete product (beta set) x (a0) x (a1); per point every function of
eko.kernels.evolution_integrals and eko.kernels.as4_evolution_integrals is evaluated.
Reference: 30-digit mpmath quadrature of a^k / (beta0 a^2 (1 + b1 a + ... )) written from the
definition, power-series division for the expanded forms, mp.polyroots for the cubic.
"""

import math

import numpy as np

from vf.core.ctx import Result

ID = "C13"
LEVEL = "exploration"
TECHNIQUE = "exhaustive (beta set x a0 x a1) lattice against 30-digit mpmath quadrature and series division"
LEVEL_TEXT = (
    "every exact evolution integral is compared with mpmath quadrature of its defining integrand, every "
    "expanded integral with the termwise integral of the Taylor-truncated integrand, and roots() with "
    "mp.polyroots, on the complete product of 8 beta-coefficient sets (nf 3-6 incl. the complex-Delta "
    "case nf=6, 4 synthetic positive sets) and a 5x5 (thorough 8x8) lattice of coupling pairs in both orders; every "
    "deviation is bounded twice: by the global tolerance and relative to the natural size |a1^(k-1) - a0^(k-1)|/((k-1) beta0) "
    "of the individual integral j^(k,m) (so that the high-k integrals are decided at small couplings too)"
)
LEVEL_NOTE = (
    "decides the property on the lattice only; beta coefficients are inputs (typed from the literature "
    "formulae, not taken from eko); sign convention = the per-function docstrings (positive denominator)"
)
FLOOR_NONTRIVIAL = 50

ZETA3 = 1.2020569031595942


def _beta_nf(nf):
    b0 = 11.0 - 2.0 * nf / 3.0
    b1 = 102.0 - 38.0 * nf / 3.0
    b2 = 2857.0 / 2.0 - 5033.0 * nf / 18.0 + 325.0 * nf**2 / 54.0
    b3 = (
        149753.0 / 6.0
        + 3564.0 * ZETA3
        - (1078361.0 / 162.0 + 6508.0 * ZETA3 / 27.0) * nf
        + (50065.0 / 162.0 + 6472.0 * ZETA3 / 81.0) * nf**2
        + 1093.0 / 729.0 * nf**3
    )
    return b0, [b1 / b0, b2 / b0, b3 / b0]


# name -> (beta0, [b1, b2, b3]); "class" tells which branch of the cubic formula is exercised
BSETS = {
    "nf3": _beta_nf(3),
    "nf4": _beta_nf(4),
    "nf5": _beta_nf(5),
    "nf6": _beta_nf(6),  # 4 b2 - b1^2 < 0: complex Delta
    "syn-a": (4.0, [2.0, 5.0, 30.0]),
    "syn-b": (11.5, [5.5, 1.2, 100.0]),
    "syn-3real": (6.0, [11.0 / 6.0, 1.0, 1.0 / 6.0]),  # (1+a)(1+a/2)(1+a/3): three real roots
    "syn-negrad": (2.5, [0.3, 20.0, 7.0]),  # one real root, negative cube-root radicand
}
A_QUICK = [0.001, 0.003, 0.01, 0.03, 0.1]
A_THOROUGH = [0.001, 0.002, 0.003, 0.01, 0.02, 0.03, 0.06, 0.1]

RTOL = 1e-9  # relative to the reference value
ATOL_REL = 1e-10  # x |a1 - a0| / beta0: rounding of the cancelling closed forms (log - atan, sum over roots)
ATOL_EXPANDED = 1e-13  # x |a1 - a0| / beta0 for the (polynomial + log) expanded forms
EQ_TOL = 1e-12  # x a0 / beta0 for an empty interval
ROOT_TOL = 1e-12
# second assertion, relative to the natural size of each integral, S_k = |int a^(k-2) da| / beta0: what remains is the
# rounding of the cancelling closed forms, which is absolute (~ eps x size of the partial-fraction terms) and therefore grows
# like 1/a per unit of k relative to S_k.  Measured maxima of dev / S_k on the thorough lattice (a >= 0.001):
#   physical sets (nf 3-6): k=1 1.7e-15, k=2 4.7e-14, k=3 1.6e-11, k=4 1.1e-10
#   synthetic sets:         k=1 2.3e-15, k=2 7.5e-13, k=3 7.6e-10, k=4 5.6e-7 (syn-3real, 0.001 -> 0.003)
#   expanded forms (all sets, all k): 4e-16
KTOL_EXACT = {"phys": {1: 1e-13, 2: 1e-12, 3: 1e-9, 4: 5e-9}, "syn": {1: 1e-13, 2: 1e-11, 3: 1e-8, 4: 1e-5}}
KTOL_EXPANDED = 1e-14


def _refs(beta0, bl, a0, a1):
    """All reference values at 30 digits."""
    import mpmath as mp

    out = {}
    with mp.workdps(30):
        A0, A1 = mp.mpf(a0), mp.mpf(a1)
        B0 = mp.mpf(beta0)
        b = [mp.mpf(1)] + [mp.mpf(x) for x in bl]
        pts = [A0 * (A1 / A0) ** (mp.mpf(i) / 6) for i in range(7)]

        def exact(k, m):
            # j^(k,m) = int a^k / (beta0 a^2 + ... + beta_{m-2} a^m)
            def f(a):
                return a ** (k - 2) / (B0 * sum(b[i] * a**i for i in range(m - 1)))

            return mp.quad(f, pts) if a0 != a1 else mp.mpf(0)

        def expanded(k, m):
            # integrand a^(k-2)/beta0 * sum_n c_n a^n, c = 1/(1 + b1 a + ...) ; total power <= m - 3
            c = [mp.mpf(1)]
            bb = b[: m - 1]
            for n in range(1, 8):
                c.append(-sum(bb[i] * c[n - i] for i in range(1, min(n, len(bb) - 1) + 1)))
            tot = mp.mpf(0)
            for n in range(0, 8):
                p = k - 2 + n
                if p > m - 3:
                    break
                if p == -1:
                    tot += c[n] * mp.log(A1 / A0)
                else:
                    tot += c[n] * (A1 ** (p + 1) - A0 ** (p + 1)) / (p + 1)
            return tot / B0

        def scale(k):
            return abs(A1 - A0) / B0

        def kscale(k):
            # natural size of j^(k,m): |int a^(k-2) da| / beta0
            if k == 1:
                return abs(mp.log(A1 / A0)) / B0
            return abs(A1 ** (k - 1) - A0 ** (k - 1)) / ((k - 1) * B0)

        for m in (2, 3, 4, 5):
            for k in range(1, m):
                out[("exact", k, m)] = exact(k, m)
                out[("expanded", k, m)] = expanded(k, m)
                out[("scale", k, m)] = scale(k)
                out[("kscale", k, m)] = kscale(k)
        out["roots"] = [complex(r) for r in mp.polyroots([b[3], b[2], b[1], b[0]], maxsteps=200, extraprec=200)]
        # positivity of the truncated beta polynomials on the interval (no pole inside)
        lo, hi = min(a0, a1), max(a0, a1)
        ok = True
        for m in (3, 4, 5):
            for i in range(0, 65):
                a = lo + (hi - lo) * i / 64.0
                if sum(float(b[j]) * a**j for j in range(m - 1)) <= 0:
                    ok = False
        out["regular"] = ok
    return {k: (complex(v) if isinstance(v, mp.mpf) or isinstance(v, mp.mpc) else v) for k, v in out.items()}


def evaluate(case):
    from eko.kernels import as4_evolution_integrals as a4
    from eko.kernels import evolution_integrals as ei

    name, a0, a1 = case["b"], float(case["a0"]), float(case["a1"])
    beta0, bl = BSETS[name]
    bvec = [1.0] + list(bl)
    res = Result()
    R = _refs(beta0, bl, a0, a1)
    if not R["regular"]:
        res.nontrivial = False
        res.outcome = "pole-inside-interval"
        return res
    info = {}
    order_rel = "eq" if a0 == a1 else ("fwd" if a1 < a0 else "bwd")
    where = f"b={name} beta0={beta0} b_list={bl} a0={a0} a1={a1}"

    def cmp(fname, kind, k, m, call):
        sig = f"{fname}/b={name}/{order_rel}"
        try:
            with np.errstate(all="ignore"):
                val = complex(call())
        except Exception as e:  # noqa
            res.fail(sig + "/raises", f"{where}: {type(e).__name__}: {e}")
            return
        ref = R[(kind, k, m)]
        tol = RTOL * abs(ref) + (ATOL_REL if kind == "exact" else ATOL_EXPANDED) * abs(R[("scale", k, m)])
        dev = abs(val - ref)
        if not math.isfinite(dev):
            res.fail(sig + "/nonfinite", f"{where}: got {val}, reference {ref.real!r}")
            return
        if a0 == a1:
            info["max_empty_interval_over_tol"] = max(info.get("max_empty_interval_over_tol", 0.0), dev / (EQ_TOL * a0 / beta0))
            if not dev <= EQ_TOL * a0 / beta0:
                res.fail(sig, f"{where}: got {val} for an empty interval")
            return
        key = f"max_{kind}_dev_over_tol"
        info[key] = max(info.get(key, 0.0), dev / tol)
        info["max_rel_dev_" + fname.replace(".", "_")] = max(
            info.get("max_rel_dev_" + fname.replace(".", "_"), 0.0), dev / abs(ref) if ref != 0 else 0.0
        )
        if not dev <= tol:
            res.fail(sig, f"{where}: got {val!r}, reference ({kind} j^({k},{m})) {ref.real!r}, |diff|={dev:.3e} > tol={tol:.3e}")
            return
        # per-k absolute scale: the absolute term above is sized like the k = 2 integral for every k and is
        # 1/a^(k-2) too generous for the high-k integrals at small couplings
        ks = abs(R[("kscale", k, m)])
        grp = "phys" if name.startswith("nf") else "syn"
        ktol = KTOL_EXACT[grp][k] if kind == "exact" else KTOL_EXPANDED
        kk = f"max_kscale_dev_{kind}_{grp}_k{k}"
        info[kk] = max(info.get(kk, 0.0), dev / ks)
        kk = f"max_kscale_dev_over_tol_{kind}_{grp}"
        info[kk] = max(info.get(kk, 0.0), dev / ks / ktol)
        if not dev <= ktol * ks:
            res.fail(
                sig + "/k-scale",
                f"{where}: got {val!r}, reference ({kind} j^({k},{m})) {ref.real!r}, |diff|={dev:.3e} > {ktol} x "
                + (f"|a1^{k-1} - a0^{k-1}|/({k-1} beta0)" if k > 1 else "|ln a1/a0|/beta0")
                + f" = {ktol * ks:.3e} (the size of this integral)",
            )

    # ---- evolution_integrals (LO, NLO, NNLO)
    cmp("ei.j12", "exact", 1, 2, lambda: ei.j12(a1, a0, beta0))
    cmp("ei.j23_exact", "exact", 2, 3, lambda: ei.j23_exact(a1, a0, beta0, bvec))
    cmp("ei.j13_exact", "exact", 1, 3, lambda: ei.j13_exact(a1, a0, beta0, bvec))
    cmp("ei.j34_exact", "exact", 3, 4, lambda: ei.j34_exact(a1, a0, beta0, bvec))
    cmp("ei.j24_exact", "exact", 2, 4, lambda: ei.j24_exact(a1, a0, beta0, bvec))
    cmp("ei.j14_exact", "exact", 1, 4, lambda: ei.j14_exact(a1, a0, beta0, bvec))
    cmp("ei.j23_expanded", "expanded", 2, 3, lambda: ei.j23_expanded(a1, a0, beta0))
    cmp("ei.j13_expanded", "expanded", 1, 3, lambda: ei.j13_expanded(a1, a0, beta0, bvec))
    cmp("ei.j34_expanded", "expanded", 3, 4, lambda: ei.j34_expanded(a1, a0, beta0))
    cmp("ei.j24_expanded", "expanded", 2, 4, lambda: ei.j24_expanded(a1, a0, beta0, bvec))
    cmp("ei.j14_expanded", "expanded", 1, 4, lambda: ei.j14_expanded(a1, a0, beta0, bvec))

    # ---- N3LO: roots
    rsig = f"as4_ei.roots/b={name}"
    roots_ok = False
    try:
        with np.errstate(all="ignore"):
            roots = [complex(r) for r in a4.roots(list(bl))]
        if not all(math.isfinite(abs(r)) for r in roots):
            res.fail(rsig + "/nonfinite", f"{where}: roots={roots}, reference {R['roots']}")
        else:
            worst = 0.0
            for r in roots:
                terms = [1.0, bl[0] * r, bl[1] * r**2, bl[2] * r**3]
                resid = abs(sum(terms)) / sum(abs(t) for t in terms)
                worst = max(worst, resid)
            info["max_root_residual_over_tol"] = worst / ROOT_TOL
            if not worst <= ROOT_TOL:
                res.fail(rsig + "/residual", f"{where}: roots={roots} relative residual {worst:.3e}")
            # the three values must be the three roots (as a multiset)
            import itertools

            rr = R["roots"]
            d = min(max(abs(roots[i] - rr[p[i]]) for i in range(3)) for p in itertools.permutations(range(3)))
            rs = max(abs(x) for x in rr)
            info["max_root_set_dev_over_tol"] = d / rs / 1e-10
            if not d <= 1e-10 * rs:
                res.fail(rsig + "/set", f"{where}: roots={roots} are not the three roots {rr} (distance {d:.3e})")
            else:
                roots_ok = worst <= ROOT_TOL
    except Exception as e:  # noqa
        res.fail(rsig + "/raises", f"{where}: {type(e).__name__}: {e}")
    # exact N3LO integrals: with eko's own roots when they are usable, else with reference roots so
    # that a defect of roots() is reported once (under its own signature) and the integrals still run
    use = roots if roots_ok else R["roots"]
    tag = "" if roots_ok else "[reference roots]"

    def j03():
        j12 = ei.j12(a1, a0, beta0)
        j13 = a4.j13_exact(a1, a0, beta0, list(bl), use)
        j23 = a4.j23_exact(a1, a0, beta0, list(bl), use)
        j33 = a4.j33_exact(a1, a0, beta0, list(bl), use)
        return a4.j03_exact(j12, j13, j23, j33, list(bl))

    def j03e():
        j12 = ei.j12(a1, a0, beta0)
        j13 = a4.j13_expanded(a1, a0, beta0, list(bl))
        j23 = a4.j23_expanded(a1, a0, beta0, list(bl))
        j33 = a4.j33_expanded(a1, a0, beta0)
        return a4.j03_expanded(j12, j13, j23, j33, list(bl))

    cmp("as4_ei.j33_exact" + tag, "exact", 4, 5, lambda: a4.j33_exact(a1, a0, beta0, list(bl), use))
    cmp("as4_ei.j23_exact" + tag, "exact", 3, 5, lambda: a4.j23_exact(a1, a0, beta0, list(bl), use))
    cmp("as4_ei.j13_exact" + tag, "exact", 2, 5, lambda: a4.j13_exact(a1, a0, beta0, list(bl), use))
    cmp("as4_ei.j03_exact" + tag, "exact", 1, 5, j03)
    cmp("as4_ei.j33_expanded", "expanded", 4, 5, lambda: a4.j33_expanded(a1, a0, beta0))
    cmp("as4_ei.j23_expanded", "expanded", 3, 5, lambda: a4.j23_expanded(a1, a0, beta0, list(bl)))
    cmp("as4_ei.j13_expanded", "expanded", 2, 5, lambda: a4.j13_expanded(a1, a0, beta0, list(bl)))
    cmp("as4_ei.j03_expanded", "expanded", 1, 5, j03e)

    res.info = info
    res.outcome = f"{order_rel}/" + ("complexDelta" if 4 * bl[1] - bl[0] ** 2 < 0 else "realDelta") + (
        "/ok" if not res.fails else "/fail"
    )
    return res


def cases(tier):
    lat = A_THOROUGH if tier == "thorough" else A_QUICK
    return [{"b": n, "a0": a0, "a1": a1} for n in BSETS for a0 in lat for a1 in lat]


def run(ctx):
    lat = A_THOROUGH if ctx.thorough() else A_QUICK
    ctx.run_cases(cases(ctx.tier), evaluate)
    ctx.rule = (
        f"complete product of {len(BSETS)} beta-coefficient sets (nf=3..6 from the literature formulae, nf=6 being the "
        f"complex-Delta branch, and 4 synthetic positive sets covering both branches of the cubic formula) x a0 x a1 on "
        f"{lat} (both orders and a0 = a1); per point all 11 functions of evolution_integrals, roots() and the 8 N3LO "
        "integrals; non-trivial = the truncated beta polynomial has no zero inside the interval (all points)"
    )
    ctx.assumptions += [
        "j^(k,m)(a1,a0) = int_a0^a1 a^k / (beta0 a^2 + ... + beta_{m-2} a^m) da (sign of the per-function docstrings); "
        "in eko's N3LO module j03,j13,j23,j33 are k = 1,2,3,4 with m = 5",
        "expanded = termwise integral of the Taylor expansion of the integrand truncated at total power a^(m-3), "
        "i.e. the integral through O(a^(m-2)) as the module docstring states",
        f"tolerance {RTOL} relative + {ATOL_REL} x |a1-a0|/beta0 absolute (rounding of the cancelling closed forms: measured "
        "<= 3e-12 |a1-a0|/beta0 on the synthetic sets, <= 5e-14 for nf 3-6; 1e-13 for the expanded forms); a0 = a1 must give 0 within 1e-12 a0/beta0; roots: relative residual 1e-12 and equality with mp.polyroots as a multiset (1e-10)",
        "and, in addition, per integral |diff| <= c_k S_k with S_k = |a1^(k-1) - a0^(k-1)| / ((k-1) beta0) (k = 1: |ln a1/a0| / beta0) the size of "
        f"j^(k,m) itself: exact forms c_k = {KTOL_EXACT['phys']} for nf 3-6 and {KTOL_EXACT['syn']} for the synthetic sets (the rounding of the "
        "cancelling closed forms is absolute, so relative to S_k it grows like 1/a per unit of k: measured 1.1e-10 at k = 4 for nf 3-6, 5.6e-7 for the "
        f"three-real-roots synthetic set at a = 0.001 -> 0.003), expanded forms {KTOL_EXPANDED} (measured 4e-16); per-k maxima are recorded as "
        "max_kscale_dev_*",
        "beta coefficients are inputs; whether eko's beta table is right is C20",
    ]
