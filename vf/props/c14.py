"""C14 QED x QCD kernels reduce to the QCD kernels when alpha_em vanishes.

Kernel level (complete lattice): QCD towers embedded in QED grids exactly as the statement says (photon
decoupled, Sdelta / Vdelta carrying the non-singlet entries), *non-zero* QED entries on top, a_em = 0 on
every step; the QED kernels must reproduce the QCD kernels of the same sector on the same coupling steps.
End to end (moment probe, real runner): D(aem, n) = |QED op - QCD op| on the parton channels must become
independent of aem linearly as aem -> 0 and the remainder must vanish like the discretisation error of the
iterated solution (second order in 1/n).
"""

import math

import numpy as np

from vf.core.ctx import Result
from vf.ref import c11_ode as ode
from vf.ref import c11_towers as tw

ID = "C14"
LEVEL = "exploration"
TECHNIQUE = "exhaustive kernel lattice (QED kernels at a_em=0 vs QCD kernels on identical steps) + moment-probe solves over alpha_em x iterations"
LEVEL_TEXT = (
    "kernel level: every (tower, QED order, nf, step shape, coupling pair, iteration count) of a fixed product is evaluated with a_em = 0 and "
    "compared entry by entry with the pure-QCD kernels on the same steps (eko's QCD kernels and, for the (S,g) block, the check's own product of "
    "one-step Taylor matrix exponentials with the supplied step middles, which in the 'param' shape are not the means of the borders); the QED "
    "expanded scale-variation factors and the a_em^0 column of the exponentiated varied grids are compared with the QCD prescriptions at a_em = 0; "
    "end to end: the real runner is driven through the Mellin-moment probe "
    "for alpha_em in {1e-4,1e-6,1e-8} x iterations {10,40,160} and compared with the pure-QCD run, on forward paths, scale-varied paths and a "
    "backward VFNS path (exact inverse matching; thorough also the expanded inverse)"
)
LEVEL_NOTE = (
    "decides the property on the lattice only; the end-to-end part sees exact Mellin moments (no x-space interpolation, see DESIGN 2.2); "
    "the QCD kernels are the reference by the statement itself (differential property)"
)
FLOOR_NONTRIVIAL = 20

QED_ORDERS = [[1, 1], [1, 2], [2, 1], [2, 2], [3, 1], [3, 2], [4, 1], [4, 2]]
NS_T = {"real": [2.875, 24.5, 230.0, 2600.0], "cplx": [2.75 - 1.0j, 22.0 + 3.0j, 200.0 + 45.0j, 1800.0 - 400.0j]}
V_T = {"real": [2.875, 24.5, 236.0, 2650.0], "cplx": [2.75 - 1.0j, 22.0 + 3.0j, 206.0 + 40.0j, 1850.0 - 380.0j]}
NS_QED = {(0, 1): 1.5 - 0.5j, (1, 1): 3.0 + 0.25j, (0, 2): 4.0 + 1.0j}
# singlet towers: two generic ones and a momentum-conserving one (eigenvalue 0 degenerate with the photon)
S_TOWERS = {"real": ("G", "real"), "cplx": ("G", "cplx"), "mom": ("M", "real")}
KTOL = 2.5e-13  # kernel-level equality (relative to max(1,|K|)); measured 2.2e-14
OWN_TOL = 1e-12  # (S,g) block vs the check's own Taylor-expm step product (two different matrix exponentials over <= 160 steps); measured 4.4e-14
ITERS_EXACT = [1, 4, 10, 40, 160]
ITERS_CONV = [10, 40, 160]
RATIO_MIN = 12.0
E2E_RATIO_MIN = 10.0  # measured 13.5-16 (10 -> 40 iterations is not yet asymptotic on the longest paths); first order gives 4
PAIRS = [[0.03, 0.0125], [0.0125, 0.03], [0.05, 0.005]]

# end to end
AEMS = [1e-4, 1e-6, 1e-8]
E2E_ITERS = [10, 40, 160]
MOMENTS = [2.0, 3.5, 6.0]
E2E_CLOSE = 5e-4  # |QED(aem=1e-8, n=160) - QCD| on O(1) operator entries; measured 3.1e-5
E2E_VARIANTS = {
    "vfns45": dict(init=[1.65, 4], mugrid=[[100.0, 5]]),
    "ffns3": dict(init=[1.3, 3], mugrid=[[30.0, 3]], ratios=["inf", "inf", "inf"], ref=[91.2, 3]),
    "vfns56": dict(init=[10.0, 5], mugrid=[[300.0, 6]]),
    "running": dict(init=[1.65, 4], mugrid=[[100.0, 5]], em_running=True),
    "ffns4-sv": dict(init=[3.0, 4], mugrid=[[50.0, 4]], ratios=[1.0, "inf", "inf"], ref=[91.2, 4], sv="expanded", xif=2.0),
    "ffns4-svexp": dict(init=[3.0, 4], mugrid=[[50.0, 4]], ratios=[1.0, "inf", "inf"], ref=[91.2, 4], sv="exponentiated", xif=0.5),
    # backward VFNS paths: inverse matching (build_ome exact / expanded inverse) embedded in the QED unified-evolution basis
    "vfns54-back": dict(init=[100.0, 5], mugrid=[[1.65, 4]], inversion="exact"),
    "vfns54-back-expanded": dict(init=[100.0, 5], mugrid=[[1.65, 4]], inversion="expanded"),
}
SV_LS = [-1.3862943611198906, 0.5, 1.3862943611198906]  # ln 1/4, 0.5, ln 4
MOMENTS_N3LO = [2.3, 3.5, 6.0]  # the as3 matching elements are 0/0 at N = 2 exactly


def _steps(shape, a0, a1, n):
    if shape == "geom":
        al = np.geomspace(a0, a1, 1 + n)
    else:  # uneven borders: uniform in 1/a
        al = 1.0 / (1.0 / a0 + np.arange(n + 1) / n * (1.0 / a1 - 1.0 / a0))
        al[0], al[-1] = a0, a1
    ah = (al[1:] + al[:-1]) / 2.0
    if shape == "param":
        # borders as in "uneven", but the supplied a_s of each step is a_s at the middle of the parameter (as the runner supplies
        # a_s at the scale midpoint), NOT the arithmetic mean of the borders
        ah = 1.0 / (1.0 / a0 + (np.arange(n) + 0.5) / n * (1.0 / a1 - 1.0 / a0))
    return al, np.stack([ah, np.zeros(n)], axis=1)


def _step_product2(T, betas, al, ahs):
    """Own QCD kernel 'for the same coupling steps': prod_k expm( sum_i T_i ah_k^i / sum_i beta_i ah_k^(i+1) (al_{k+1} - al_k) ),
    later steps on the left, with the SUPPLIED step middles ah_k (Taylor scaling-and-squaring, no eigen-decomposition)."""
    Q = np.eye(2, dtype=complex)
    for k in range(len(al) - 1):
        a = float(ahs[k])
        num = sum(T[i] * a**i for i in range(len(betas)))
        den = sum(betas[i] * a ** (i + 1) for i in range(len(betas)))
        Q = ode.expm_small(num / den * (al[k + 1] - al[k])) @ Q
    return Q


def _midpoint_product(g, betas, al, ahs=None):
    """prod_k exp( sum_i g_i ah^i / sum_i beta_i ah^(i+1) * (a_{k+1}-a_k) ) for a scalar tower; ah = supplied middles
    (default: arithmetic mean of the borders)."""
    tot = 0.0
    for k in range(len(al) - 1):
        ah = (al[k + 1] + al[k]) / 2.0 if ahs is None else float(ahs[k])
        num = sum(g[i] * ah**i for i in range(len(betas)))
        den = sum(betas[i] * ah ** (i + 1) for i in range(len(betas)))
        tot += num / den * (al[k + 1] - al[k])
    return np.exp(tot)


def _embed_singlet(T, nsp):
    """(S,g)-basis 2x2 -> (g, ph, S, Sdelta) 4x4 with the photon decoupled and Sdelta = ns+."""
    qq, qg, gq, gg = T[0][0], T[0][1], T[1][0], T[1][1]
    return np.array([[gg, 0, gq, 0], [0, 0, 0, 0], [qg, 0, qq, 0], [0, 0, 0, nsp]], dtype=complex)


def _sv_at_aem0(res, eq, T, nsp, vt, vd, G4, G2, G1, order, nf, a1, base, where0):
    """With a_em = 0 the QED scale-variation prescriptions must be the QCD ones of the same sector: expanded factors entry by
    entry; exponentiated: the a_em^0 column of the varied QED grid (the only one a kernel at a_em = 0 reads) is the embedding of the
    varied QCD towers."""
    from eko.scale_variations import expanded as sv_exp
    from eko.scale_variations import exponentiated as sv_expo

    o0, o1 = order
    qo = (o0, 0)
    c = lambda x: np.array(x, dtype=complex)  # noqa
    eq0 = eq
    eq = lambda sig, where, got, want, what: eq0(sig, where, got, want, what, KTOL, "max_kernel_sv_dev_over_tol")  # noqa
    for L in SV_LS:
        f2 = np.asarray(sv_exp.singlet_variation(T.copy(), a1, qo, nf, L, 2))
        fn, fv, fd = [complex(sv_exp.non_singlet_variation(c(t), a1, qo, nf, L)) for t in (nsp, vt, vd)]
        gT = np.asarray(sv_expo.gamma_variation(T.copy(), qo, nf, L))
        gn, gv, gd = [np.asarray(sv_expo.gamma_variation(c(t), qo, nf, L)) for t in (nsp, vt, vd)]
        for run in (False, True):
            where = f"{where0} L={L} em_running={run} a_s={a1} a_em=0"
            sig = f"expanded.singlet_variation_qed/{base}/aem=0"
            try:
                F = np.asarray(sv_exp.singlet_variation_qed(G4.copy(), a1, 0.0, run, order, nf, L))
                eq(sig, where, np.array([[F[2, 2], F[2, 0]], [F[0, 2], F[0, 0]]]), f2, "(S,g) block vs expanded.singlet_variation")
                eq(sig, where, F[3, 3], fn, "Sdelta entry vs expanded.non_singlet_variation(ns+)")
                rest = np.array([F[1, 0], F[1, 2], F[1, 3], F[0, 1], F[2, 1], F[3, 1], F[1, 1] - 1.0, F[3, 0], F[3, 2], F[0, 3], F[2, 3]])
                eq(sig, where, rest, np.zeros(11), "photon row/column minus identity and Sdelta off-diagonal entries")
            except Exception as e:  # noqa
                res.fail(sig + "/raises", f"{where}: {type(e).__name__}: {e}")
            sig = f"expanded.valence_variation_qed/{base}/aem=0"
            try:
                F = np.asarray(sv_exp.valence_variation_qed(G2.copy(), a1, 0.0, run, order, nf, L))
                eq(sig, where, F, np.diag([fv, fd]), "factor vs diag(non_singlet_variation(V), non_singlet_variation(Vdelta))")
            except Exception as e:  # noqa
                res.fail(sig + "/raises", f"{where}: {type(e).__name__}: {e}")
            sig = f"expanded.non_singlet_variation_qed/{base}/aem=0"
            try:
                F = complex(sv_exp.non_singlet_variation_qed(G1.copy(), a1, 0.0, run, order, nf, L))
                eq(sig, where, F, fn, "factor vs expanded.non_singlet_variation")
            except Exception as e:  # noqa
                res.fail(sig + "/raises", f"{where}: {type(e).__name__}: {e}")
            for sector, G, want in (
                ("singlet", G4, [_embed_singlet(gT[i], gn[i]) for i in range(o0)]),
                ("valence", G2, [np.diag([gv[i], gd[i]]) for i in range(o0)]),
                ("ns", G1, [gn[i] for i in range(o0)]),
            ):
                sig = f"exponentiated.gamma_variation_qed/{sector}/{base}/aem=0"
                try:
                    work = G.copy()
                    out = sv_expo.gamma_variation_qed(work, order, nf, 3, L, run)
                    out = work if out is None else np.asarray(out)
                    eq(sig, where, out[1:, 0], np.array(want), "a_em^0 column of the varied grid vs embedded exponentiated.gamma_variation")
                except Exception as e:  # noqa
                    res.fail(sig + "/raises", f"{where}: {type(e).__name__}: {e}")


def eval_kernel(case, res, info):
    from eko import beta
    from eko.kernels import EvoMethods as EM
    from eko.kernels import non_singlet as ns
    from eko.kernels import non_singlet_qed as nsq
    from eko.kernels import singlet as s
    from eko.kernels import singlet_qed as sq
    from eko.kernels import valence_qed as vq

    tname, (o0, o1), nf, shape, (a0, a1) = case["tower"], case["order"], case["nf"], case["shape"], case["pair"]
    kind, sub = S_TOWERS[tname]
    T = tw.arr((tw.GENERIC2 if kind == "G" else tw.MOMENTUM2)[sub])[:o0]
    nsp = NS_T[sub][:o0]
    vt, vd = V_T[sub][:o0], NS_T[sub][:o0]
    betas = [float(beta.beta_qcd((2 + i, 0), nf)) for i in range(o0)]
    # grids: dense QED entries from the generic towers, pure-QCD entries by embedding
    G4 = tw.qed_singlet_generic(sub, o0, o1)
    G2 = tw.qed_valence_generic(sub, o0, o1)
    G1 = np.zeros((o0 + 1, o1 + 1), dtype=complex)
    for (i, j), z in NS_QED.items():
        if i <= o0 and j <= o1:
            G1[i, j] = z
    for i in range(1, o0 + 1):
        G4[i, 0] = _embed_singlet(T[i - 1], nsp[i - 1])
        G2[i, 0] = np.diag([vt[i - 1], vd[i - 1]])
        G1[i, 0] = nsp[i - 1]
    base = f"order=({o0},{o1})"
    where0 = f"tower={tname} {base} nf={nf} steps={shape} a0={a0} a1={a1}"
    order = (o0, o1)

    def dev(x, y):
        return float(np.abs(np.asarray(x) - np.asarray(y)).max() / max(1.0, float(np.abs(np.asarray(y)).max())))

    def eq(sig, where, got, want, what, tol=KTOL, key="max_kernel_dev_over_tol"):
        d = dev(got, want)
        info[key] = max(info.get(key, 0.0), d / tol)
        if not d <= tol:
            res.fail(sig, f"{where}: {what}: got {np.asarray(got).tolist()} expected {np.asarray(want).tolist()} (deviation {d:.3e})")

    conv = {"Sdelta": [], "V": [], "Vdelta": [], "LO-singlet": []}
    exact_ns = complex(ns.dispatcher((o0, 0), EM.ITERATE_EXACT, np.array(nsp, dtype=complex), a1, a0, nf))
    exact_v = complex(ns.dispatcher((o0, 0), EM.ITERATE_EXACT, np.array(vt, dtype=complex), a1, a0, nf))
    lo_ref = np.asarray(s.dispatcher((o0, 0), EM.ITERATE_EXACT, T.copy(), a1, a0, nf, 1, (10, 0))) if o0 == 1 else None
    for n in ITERS_EXACT:
        al, ah = _steps(shape, a0, a1, n)
        where = f"{where0} iterations={n}"
        # ---------------- singlet 4x4
        sig = f"singlet_qed.eko_iterate/{base}"
        try:
            E = np.asarray(sq.dispatcher(order, EM.ITERATE_EXACT, G4.copy(), al, ah, nf, n, (10, 0)))
            blk = np.array([[E[2, 2], E[2, 0]], [E[0, 2], E[0, 0]]])
            if shape != "param":
                # QCD kernel on the same steps: product of one-step iterated kernels (midpoint = arithmetic mean)
                Q = np.eye(2, dtype=complex)
                for k in range(n):
                    Q = np.asarray(s.eko_iterate(T.copy(), al[k + 1], al[k], betas, (o0, 0), 1)) @ Q
                eq(sig + "/singlet-block", where, blk, Q, "(S,g) block vs product of QCD one-step kernels")
            # every shape: the check's own step product with the supplied middles (for "param" they are not the border means)
            eq(sig + "/singlet-block", where, blk, _step_product2(T, betas, al, ah[:, 0]), "(S,g) block vs own step product with the supplied step middles", OWN_TOL, "max_kernel_own_step_product_over_tol")
            if shape == "geom":
                Qn = np.asarray(s.eko_iterate(T.copy(), a1, a0, betas, (o0, 0), n))
                eq(sig + "/singlet-block", where, blk, Qn, "(S,g) block vs singlet.eko_iterate with the same number of steps")
                if o0 >= 2:
                    Qd = np.asarray(s.dispatcher((o0, 0), EM.ITERATE_EXACT, T.copy(), a1, a0, nf, n, (10, 0)))
                    eq(sig + "/singlet-block", where, blk, Qd, "(S,g) block vs singlet.dispatcher(iterate-exact)")
            ph = np.array([E[1, 0], E[1, 2], E[1, 3], E[0, 1], E[2, 1], E[3, 1], E[1, 1] - 1.0])
            eq(sig + "/photon-trivial", where, ph, np.zeros(7), "photon row/column minus identity")
            sd = np.array([E[3, 0], E[3, 1], E[3, 2], E[0, 3], E[1, 3], E[2, 3]])
            eq(sig + "/Sdelta-decoupled", where, sd, np.zeros(6), "Sdelta off-diagonal entries")
            eq(sig + "/Sdelta-follows-ns", where, E[3, 3], _midpoint_product(nsp, betas, al, ah[:, 0]), "Sdelta entry vs midpoint product of the ns+ tower")
            if n in ITERS_CONV:
                conv["Sdelta"].append(abs(E[3, 3] - exact_ns) / abs(exact_ns))
                if lo_ref is not None:
                    conv["LO-singlet"].append(float(np.abs(blk - lo_ref).max() / np.abs(lo_ref).max()))
        except Exception as e:  # noqa
            res.fail(sig + "/raises", f"{where}: {type(e).__name__}: {e}")
        # ---------------- valence 2x2
        sig = f"valence_qed.eko_iterate/{base}"
        try:
            E = np.asarray(vq.dispatcher(order, EM.ITERATE_EXACT, G2.copy(), al, ah, nf, n, (10, 0)))
            want = np.diag([_midpoint_product(vt, betas, al, ah[:, 0]), _midpoint_product(vd, betas, al, ah[:, 0])])
            eq(sig + "/diagonal", where, E, want, "valence kernel vs midpoint products of the V / Vdelta towers")
            if n in ITERS_CONV:
                conv["V"].append(abs(E[0, 0] - exact_v) / abs(exact_v))
                conv["Vdelta"].append(abs(E[1, 1] - exact_ns) / abs(exact_ns))
        except Exception as e:  # noqa
            res.fail(sig + "/raises", f"{where}: {type(e).__name__}: {e}")
        # ---------------- non-singlet
        sig = f"non_singlet_qed.exact/{base}"
        try:
            k = complex(nsq.dispatcher(order, EM.ITERATE_EXACT, G1.copy(), al, ah[:, 1], bool(n % 2), nf, n, 2.0, 50.0))
            prod = 1.0 + 0.0j
            for i in range(n):
                prod *= complex(ns.dispatcher((o0, 0), EM.ITERATE_EXACT, np.array(nsp, dtype=complex), al[i + 1], al[i], nf))
            eq(sig + "/stepwise", where, k, prod, "QED ns kernel vs product of QCD exact ns kernels on the same steps")
            eq(sig + "/endpoints", where, k, exact_ns, "QED ns kernel vs QCD exact ns kernel between the end points")
        except Exception as e:  # noqa
            res.fail(sig + "/raises", f"{where}: {type(e).__name__}: {e}")
    # ---------------- scale-variation factors / varied anomalous dimensions at a_em = 0 (independent of the steps: once per
    # (tower, order, nf, a1), i.e. in the geometric-shape cases)
    if shape == "geom":
        _sv_at_aem0(res, eq, T, nsp, vt, vd, G4, G2, G1, order, nf, a1, base, where0)
    for name, errs in conv.items():
        if len(errs) != len(ITERS_CONV):
            continue
        for i in range(len(errs) - 1):
            if errs[i + 1] < 1e-12:
                continue
            r = errs[i] / errs[i + 1]
            info["max_kernel_inverse_ratio_x16"] = max(info.get("max_kernel_inverse_ratio_x16", 0.0), 16.0 / r)
            if not r >= RATIO_MIN:
                res.fail(
                    f"qed-kernel-discretisation/{name}/{base}",
                    f"{where0}: distance to the exact QCD kernel {errs[i]:.3e} with {ITERS_CONV[i]} steps, {errs[i+1]:.3e} with "
                    f"{ITERS_CONV[i+1]}: ratio {r:.2f} < {RATIO_MIN}",
                )
    return f"kernel/{base}/{shape}"


def _inf(cfg):
    return cfg


def eval_e2e(case, res, info):
    from vf.core.probe import FLAVOR_PIDS, moment_solve

    (o0, o1), vname = case["order"], case["variant"]
    base = dict(E2E_VARIANTS[vname])
    keep = [i for i, p in enumerate(FLAVOR_PIDS) if p != 22]
    svm = base.get("sv")
    # one defect = one signature: a failure of the scale-varied runs is not specific to the order
    sig0 = f"e2e/sv={svm}" if svm else f"e2e/sv=None/order=({o0},{o1})/{vname}"
    MOMENTS = MOMENTS_N3LO if o0 == 4 else globals()["MOMENTS"]

    def sub(m):
        return m[:, keep][:, :, keep]

    C = {}
    norm = 1.0
    full = bool(case.get("full"))
    scan_n = E2E_ITERS if full else E2E_ITERS[1:2]
    try:
        for n in E2E_ITERS:
            qcd = moment_solve(dict(base, order=[o0, 0], iterations=n, method="iterate-exact"), MOMENTS)
            ((ep, Q),) = qcd.items()
            norm = max(norm, float(np.abs(sub(Q)).max()))
            for aem in AEMS if n in scan_n else AEMS[-1:]:
                qed = moment_solve(dict(base, order=[o0, o1], iterations=n, method="iterate-exact", alphaem=aem), MOMENTS)
                E = qed[ep]
                if not np.all(np.isfinite(E)):
                    res.fail(sig0 + "/nonfinite", f"aem={aem} iterations={n}: non-finite operator")
                    return sig0
                C[(aem, n)] = (float(np.abs(sub(E) - sub(Q)).max()), sub(E))
    except NotImplementedError as e:
        # a clean refusal (e.g. nf = 6 at N3LO) is not a statement about the limit
        res.nontrivial = False
        info["refused"] = str(e)
        return f"e2e/refused/order=({o0},{o1})/{vname}"
    except Exception as e:  # noqa
        res.fail(sig0 + "/raises", f"order=({o0},{o1}) variant={vname}: {type(e).__name__}: {e}")
        return sig0
    tab = {f"aem={a:g},n={n}": round(C[(a, n)][0], 12) for a in AEMS for n in E2E_ITERS if (a, n) in C}
    info["table"] = tab
    where = f"order=({o0},{o1}) variant={vname} moments={MOMENTS}: |QED-QCD| on parton channels = {tab}"
    # (A) the aem-dependent part vanishes linearly: QED(aem) - QED(1e-8) at the same n
    for n in scan_n:
        d4 = float(np.abs(C[(1e-4, n)][1] - C[(1e-8, n)][1]).max())
        d6 = float(np.abs(C[(1e-6, n)][1] - C[(1e-8, n)][1]).max())
        info["max_e2e_aem_slope_dev"] = max(info.get("max_e2e_aem_slope_dev", 0.0), abs(d4 / max(d6, 1e-300) / 101.0 - 1.0) if d6 > 1e-12 else 0.0)
        info["max_e2e_d6"] = max(info.get("max_e2e_d6", 0.0), d6)
        if not (d6 <= d4 / 30.0 + 1e-11 and d4 <= 1e-2 * norm):
            res.fail(
                sig0 + "/aem-limit",
                f"{where}; iterations={n}: |QED(1e-4)-QED(1e-8)| = {d4:.3e}, |QED(1e-6)-QED(1e-8)| = {d6:.3e}: not vanishing linearly in alpha_em",
            )
    # (C) the distance is small in absolute terms at the finest setting
    cl = C[(1e-8, E2E_ITERS[-1])][0] / norm
    info["max_e2e_closest_over_tol"] = cl / E2E_CLOSE
    if not cl <= E2E_CLOSE:
        res.fail(sig0 + "/not-close", f"{where}: relative distance {cl:.3e} > {E2E_CLOSE} at alpha_em=1e-8, {E2E_ITERS[-1]} iterations")
        return f"e2e/order=({o0},{o1})/{vname}"
    # (B) the remainder is the discretisation error: second order in 1/n
    for i in range(len(E2E_ITERS) - 1):
        c0, c1 = C[(1e-8, E2E_ITERS[i])][0], C[(1e-8, E2E_ITERS[i + 1])][0]
        if c1 < 1e-9:
            continue
        r = c0 / c1
        info["max_e2e_inverse_ratio_x16"] = max(info.get("max_e2e_inverse_ratio_x16", 0.0), 16.0 / r)
        if not r >= E2E_RATIO_MIN:
            res.fail(
                sig0 + "/discretisation",
                f"{where}: at alpha_em=1e-8 the distance goes {c0:.3e} -> {c1:.3e} for {E2E_ITERS[i]} -> {E2E_ITERS[i+1]} iterations (ratio {r:.2f} < {E2E_RATIO_MIN})",
            )
    return f"e2e/order=({o0},{o1})/{vname}"


def evaluate(case):
    res = Result()
    info = {}
    with np.errstate(all="ignore"):
        cls = eval_kernel(case, res, info) if case["kind"] == "kernel" else eval_e2e(case, res, info)
    res.info = info
    res.outcome = cls + ("/ok" if not res.fails else "/fail")
    return res


E2E_QUICK = [
    ([1, 1], "vfns45"),
    ([2, 1], "vfns45"),
    ([3, 2], "vfns45"),
    ([2, 2], "ffns3"),
    ([2, 1], "running"),
    ([1, 2], "vfns56"),
    ([2, 1], "ffns4-sv"),
    ([2, 2], "ffns4-svexp"),
    ([2, 1], "vfns54-back"),
    ([4, 1], "vfns45"),  # N3LO through the quick tier as well
]


def cases(tier):
    th = tier == "thorough"
    out = []
    if th:
        for order in QED_ORDERS:
            for v in E2E_VARIANTS:
                out.append({"kind": "e2e", "order": order, "variant": v, "full": True})
    else:
        for order, v in E2E_QUICK:
            out.append({"kind": "e2e", "order": order, "variant": v})
    for t in S_TOWERS:
        for order in QED_ORDERS:
            for nf in (3, 4, 5, 6) if th else (4, 6):
                for shape in ("geom", "uneven", "param"):
                    for pair in PAIRS if th else PAIRS[:2]:
                        out.append({"kind": "kernel", "tower": t, "order": order, "nf": nf, "shape": shape, "pair": pair})
    return out


def run(ctx):
    cs = cases(ctx.tier)
    # the long end-to-end cases first
    ctx.run_cases(cs, evaluate, chunksize=1)
    ne = sum(1 for c in cs if c["kind"] == "e2e")
    ctx.extra.update(e2e_solves=ne * (len(E2E_ITERS) * (1 + len(AEMS)) if ctx.thorough() else len(E2E_ITERS) * 2 + len(AEMS) - 1))
    ctx.rule = (
        f"kernel level: complete product of 3 singlet towers (2 generic, 1 momentum-conserving whose zero eigenvalue is degenerate with the photon) "
        f"x 8 QED orders (1-4,1-2) x nf x 3 step shapes (geometric; uneven = uniform in 1/a_s with the arithmetic mean as middle; param = same borders "
        f"with a_s at the middle of the parameter as middle) x coupling pairs x iterations {ITERS_EXACT}, a_em = 0 on every step, "
        f"dense non-zero QED entries in the grids ({len(cs) - ne} cases x 3 kernels); in the geometric cases also the scale-variation prescriptions at "
        f"a_em = 0: L in {{ln 1/4, 0.5, ln 4}} x em_running on/off x (3 expanded QED factors, 3 exponentiated varied grids); "
        f"end to end: {ne} (order, path variant) cases over variants {sorted(set(c['variant'] for c in cs if c['kind'] == 'e2e'))}, each "
        f"iterations {E2E_ITERS} x (1 QCD + QED at alpha_em {AEMS}; quick: the alpha_em scan only at {E2E_ITERS[1]} iterations, 1e-8 elsewhere) "
        f"moment-probe solves at N = {MOMENTS}; non-trivial = all"
    )
    ctx.assumptions += [
        "embedding by the statement: (g,ph,S,Sdelta) with only g and S mixing, photon row/column zero, Sdelta = ns+; valence = diag(V, Vdelta)",
        "QCD kernel 'for the same coupling steps' = product of singlet.eko_iterate one-step kernels (the step middle is the arithmetic mean of its borders; "
        "shapes geometric / uneven) and, in every shape, the check's own prod_k expm(gamma(ah_k)/beta(ah_k) (al_k+1 - al_k)) with the SUPPLIED middles ah_k "
        f"(to {OWN_TOL}: two different matrix exponentials over up to 160 steps; measured 4.4e-14); Sdelta / V / Vdelta: scalar midpoint products with the supplied middles; "
        "the exact QCD non-singlet kernels compose exactly, so the QED ns kernel is compared both stepwise and between the end points",
        f"kernel equality to {KTOL} relative to max(1,|K|); distance to the exact (not iterated) QCD kernels must fall by >= {RATIO_MIN} per x4 steps",
        f"end to end: [QED(1e-6)-QED(1e-8)] <= [QED(1e-4)-QED(1e-8)]/30, distance at alpha_em=1e-8 falls by >= {E2E_RATIO_MIN} per x4 iterations and is <= {E2E_CLOSE} at 160",
        "pure-QCD reference run uses iterate-exact with the same number of iterations",
        "scale variation at a_em = 0: the expanded QED factors equal the QCD factors of the same sector entry by entry (photon row/column = identity, Sdelta = ns+ "
        "factor); of the exponentiated varied QED grids only the a_em^0 column is constrained (the other entries multiply powers of a_em = 0); eko's QCD "
        "prescriptions are the reference by the statement itself",
        "backward end-to-end variants compare QED and QCD runs with the same inversion method",
    ]
