"""C07 exact non-singlet kernels solve the DGLAP equation (QCD and QCDxQED with fixed alpha_em).

Complete product  order x nf x gamma-tower x (a0, a1) lattice  (and x a_em x scale pairs for QED);
every point is compared with the 40-digit solution of  dE/da = gamma(a)/beta(a) E, E(a0)=1  obtained
by a Taylor-series ODE solver that shares nothing with eko (vf/ref/c07_ode.py); the reference itself
is cross-checked on every point against exp(quadrature) (a disagreement is a harness error).
"""

import numpy as np

from vf.core.ctx import HarnessError, Result
from vf.ref import c07_ode as R

ID = "C07"
LEVEL = "exploration"
TECHNIQUE = "exhaustive input lattice vs independent 40-digit ODE solution"
LEVEL_TEXT = (
    "every point of the stated finite lattice (orders 1-4, nf 3-6, 6 complex gamma towers, all ordered "
    "coupling pairs of the lattice incl. a1=a0; QED: orders (1-4,1-2), a_em values, scale pairs) agrees "
    "with the independent solution of the truncated DGLAP equation to 1e-13 relative; nothing is claimed "
    "between lattice points"
)
LEVEL_NOTE = (
    "trusted: mpmath arithmetic, my transcription of beta_0..beta_3 and beta^(2,1) (typed twice, "
    "cross-checked at import), the Taylor ODE solver (cross-checked against quadrature on every point)"
)
FLOOR_NONTRIVIAL = 50

# measured maxima on the unchanged tree: 8.4e-16 (QCD), 1.3e-15 (QED) (quick and thorough) -> >= x75 head-room; ln E is linear in
# the beta-dependent integrals, so 1e-13 resolves relative errors of ~3e-11 in beta_1 and ~3e-11..3e-10 in beta_2, beta_3
TOL = 1e-13
REF_XCHECK = 1e-27

LA_QUICK = [0.002, 0.005, 0.0125, 0.03, 0.05]
LA_THOROUGH = [0.002, 0.003, 0.005, 0.008, 0.0125, 0.02, 0.03, 0.04, 0.05]
LA_QED_QUICK = [0.002, 0.005, 0.03, 0.05]
NFS = [3, 4, 5, 6]

# gamma towers, |gamma_k| <= 10^k (two real, two complex, one with gamma_0 = 0, one on the bound)
TOWERS = [
    [[0.8, 0.0], [7.5, 0.0], [61.0, 0.0], [880.0, 0.0]],
    [[-0.45, 0.0], [9.1, 0.0], [-83.0, 0.0], [410.0, 0.0]],
    [[0.6, 0.3], [-4.2, 6.1], [55.0, -38.0], [-320.0, 710.0]],
    [[-0.2, -0.9], [8.8, -1.7], [-12.0, 95.0], [640.0, 120.0]],
    [[0.0, 0.0], [3.3, -2.2], [-47.0, 21.0], [150.0, -930.0]],
    [[-1.0, 0.0], [0.0, 10.0], [-100.0, 0.0], [0.0, 1000.0]],
]
# QED towers gamma[k][j]: power a_s^k a_em^j  (k = 0..4, j = 0..2)
TOWERS_QED = [
    [  # physical shape: gamma[0][0] = 0
        [[0.0, 0.0], [0.7, 0.0], [5.0, 0.0]],
        [[0.8, 0.0], [6.0, 0.0], [40.0, 0.0]],
        [[7.5, 0.0], [50.0, 0.0], [300.0, 0.0]],
        [[61.0, 0.0], [400.0, 0.0], [900.0, 0.0]],
        [[880.0, 0.0], [700.0, 0.0], [600.0, 0.0]],
    ],
    [  # general complex, gamma[0][0] != 0
        [[0.05, -0.02], [0.4, 0.9], [-7.0, 3.0]],
        [[0.6, 0.3], [-3.0, 8.0], [60.0, -20.0]],
        [[-4.2, 6.1], [70.0, 10.0], [-500.0, 100.0]],
        [[55.0, -38.0], [-90.0, 600.0], [300.0, 300.0]],
        [[-320.0, 710.0], [500.0, -500.0], [1000.0, 0.0]],
    ],
    [
        [[0.0, 0.0], [-0.9, 0.2], [9.0, 0.0]],
        [[-0.2, -0.9], [1.0, 1.0], [0.0, -80.0]],
        [[8.8, -1.7], [0.0, 0.0], [250.0, 250.0]],
        [[-12.0, 95.0], [800.0, 0.0], [0.0, 0.0]],
        [[640.0, 120.0], [-300.0, 40.0], [10.0, 10.0]],
    ],
]
AEMS_QUICK = [0.00058, 0.002]
# a_em = 0 (0**0 in the contraction of the 2-D tower, vanishing beta_0 shift: must reduce to the QCD kernel): quick tier for tower 0
AEMS_QUICK_TOWER0 = [0.0, 0.00058, 0.002]
AEMS_THOROUGH = [0.0, 0.00058, 0.002]
MU2_PAIRS = [[2.7225, 10000.0], [10000.0, 2.7225], [30.0, 30.0]]


def _ref(gamma, order, nf, a0, a1, aem=None):
    """40-digit reference, by ODE, cross-checked by quadrature."""
    import mpmath as mp

    r = R.ns_exact_ode(gamma, order, nf, a0, a1, aem)
    q = R.ns_exact_quad(gamma, order, nf, a0, a1, aem)
    d = float(abs(r - q) / abs(r))
    if d > REF_XCHECK:
        raise HarnessError(f"reference disagreement ode/quad {d} at {gamma} {order} {nf} {a0} {a1} {aem}")
    return r, d, mp


def evaluate(case):
    from eko.kernels import EvoMethods
    from eko.kernels import non_singlet as ns
    from eko.kernels import non_singlet_qed as qed

    res = Result()
    a0 = case["a0"]
    nf = case["nf"]
    maxdev = 0.0
    maxx = 0.0
    npts = 0
    if case["kind"] == "qcd":
        o = case["order"]
        tower = TOWERS[case["tower"]]
        g = np.array([R.to_c(z) for z in tower[:o]], dtype=np.complex128)
        if o == 1:
            methods = list(EvoMethods)
        else:
            methods = [EvoMethods.ITERATE_EXACT, EvoMethods.PERTURBATIVE_EXACT, EvoMethods.DECOMPOSE_EXACT]
        for a1 in case["a1s"]:
            r, d, _ = _ref(tower, o, nf, a0, a1)
            maxx = max(maxx, d)
            rc = complex(r)
            for m in methods:
                sig = f"non_singlet.dispatcher->exact/order={o}"
                try:
                    e = complex(ns.dispatcher((o, 0), m, g, a1, a0, nf))
                except Exception as ex:  # noqa
                    res.fail(sig + "/raises", f"{type(ex).__name__}: {ex} method={m.name} tower={case['tower']} a0={a0} a1={a1} nf={nf}")
                    continue
                dev = abs(e - rc) / abs(rc) if np.isfinite(e) else float("inf")
                maxdev = max(maxdev, dev if np.isfinite(dev) else 1e300)
                npts += 1
                if not dev <= TOL:
                    res.fail(
                        sig,
                        f"method={m.name} nf={nf} tower={case['tower']} a0={a0} a1={a1}: eko={e!r} ode-solution={rc!r} rel.dev={dev:.3e} (tol {TOL})",
                    )
        res.info = {"max_rel_dev_qcd": maxdev, "max_ref_ode_vs_quad": maxx, "points": npts}
    else:
        o, q = case["order"]
        tower = TOWERS_QED[case["tower"]]
        g2 = np.array([[R.to_c(z) for z in row[: q + 1]] for row in tower[: o + 1]], dtype=np.complex128)
        import mpmath as mp

        for a1 in case["a1s"]:
            for aem in case["aems"]:
                # contracted QCD tower gamma_k(aem) = sum_j gamma[k+1][j] aem^j  and the pure-QED part
                amp = mp.mpf(aem)
                contr = [sum(R._c(tower[k][j]) * amp**j for j in range(q + 1)) for k in range(o + 1)]
                gq = [[mp.re(z), mp.im(z)] for z in contr[1:]]
                rq = R.ns_exact_ode(gq, o, nf, a0, a1, aem)
                qq = R.ns_exact_quad(gq, o, nf, a0, a1, aem)
                d = float(abs(rq - qq) / abs(rq))
                if d > REF_XCHECK:
                    raise HarnessError(f"reference disagreement ode/quad {d} (qed) {case} a1={a1} aem={aem}")
                maxx = max(maxx, d)
                for mu2_from, mu2_to in MU2_PAIRS:
                    # d E / d ln mu^2 = -gamma_0(aem) E  on top of the QCD running
                    ref = complex(rq * mp.exp(-contr[0] * mp.log(mp.mpf(mu2_to) / mp.mpf(mu2_from))))
                    sig = f"non_singlet_qed.fixed_alphaem_exact/order=({o},{q})"
                    where = f"nf={nf} tower={case['tower']} a0={a0} a1={a1} aem={aem} mu2={mu2_from}->{mu2_to}"
                    try:
                        e = complex(qed.fixed_alphaem_exact((o, q), g2, a1, a0, aem, nf, mu2_from, mu2_to))
                    except Exception as ex:  # noqa
                        res.fail(sig + "/raises", f"{type(ex).__name__}: {ex} {where}")
                        continue
                    dev = abs(e - ref) / abs(ref) if np.isfinite(e) else float("inf")
                    maxdev = max(maxdev, dev if np.isfinite(dev) else 1e300)
                    npts += 1
                    if not dev <= TOL:
                        res.fail(sig, f"{where}: eko={e!r} ode-solution={ref!r} rel.dev={dev:.3e} (tol {TOL})")
                    # the stepped kernel with a constant a_em along the steps solves the same equation
                    for it in (1, 3):
                        sig2 = f"non_singlet_qed.dispatcher(constant aem)/order=({o},{q})"
                        as_list = np.geomspace(a0, a1, it + 1)
                        as_list[0], as_list[-1] = a0, a1
                        try:
                            e2 = complex(
                                qed.dispatcher(
                                    (o, q), EvoMethods.ITERATE_EXACT, g2, as_list, np.full(it, aem), False, nf, it, mu2_from, mu2_to
                                )
                            )
                        except Exception as ex:  # noqa
                            res.fail(sig2 + "/raises", f"{type(ex).__name__}: {ex} {where} it={it}")
                            continue
                        dev2 = abs(e2 - ref) / abs(ref) if np.isfinite(e2) else float("inf")
                        maxdev = max(maxdev, dev2 if np.isfinite(dev2) else 1e300)
                        npts += 1
                        if not dev2 <= TOL:
                            res.fail(sig2, f"{where} it={it}: eko={e2!r} ode-solution={ref!r} rel.dev={dev2:.3e}")
        res.info = {"max_rel_dev_qed": maxdev, "max_ref_ode_vs_quad": maxx, "points": npts}
    res.outcome = f"{case['kind']}:" + ("agree" if not res.fails else "DISAGREE")
    res.nontrivial = any(a1 != a0 for a1 in case["a1s"])
    return res


def run(ctx):
    la = LA_THOROUGH if ctx.thorough() else LA_QUICK
    cases = []
    for o in (1, 2, 3, 4):
        for nf in NFS:
            for t in range(len(TOWERS)):
                for a0 in la:
                    cases.append({"kind": "qcd", "order": o, "nf": nf, "tower": t, "a0": a0, "a1s": la})
    laq = LA_QUICK if ctx.thorough() else LA_QED_QUICK
    aems = AEMS_THOROUGH if ctx.thorough() else AEMS_QUICK
    tq = range(len(TOWERS_QED)) if ctx.thorough() else range(2)
    for o in (1, 2, 3, 4):
        for q in (1, 2):
            for nf in NFS:
                for t in tq:
                    for a0 in laq:
                        ae = AEMS_QUICK_TOWER0 if (t == 0 and not ctx.thorough()) else aems
                        cases.append({"kind": "qed", "order": [o, q], "nf": nf, "tower": t, "a0": a0, "a1s": laq, "aems": ae})
    results = ctx.run_cases(cases, evaluate)
    npts = sum((r[1][3] or {}).get("points", 0) for r in results)
    ctx.extra.update(points_compared=npts)
    ctx.rule = (
        f"complete product: QCD order 1-4 x nf 3-6 x {len(TOWERS)} fixed complex gamma towers (|gamma_k|<=10^k; real, "
        f"complex, gamma_0=0, on the bound) x all ordered pairs (a0,a1) of the {len(la)}-value coupling lattice "
        f"{la} incl. a1=a0, every method the dispatcher routes to the exact kernel (all 8 at LO); QED: order "
        f"(1-4,1-2) x nf x {len(list(tq))} 2-D towers x pairs of {laq} x a_em in {aems}{'' if ctx.thorough() else ' (tower 0 also at a_em = 0)'} x 3 scale pairs "
        "(up, down, equal), fixed_alphaem_exact and the stepped dispatcher with constant a_em (1 and 3 steps); a case "
        "= one (order, nf, tower, a0) with all its a1; non-trivial = contains a1 != a0"
    )
    ctx.assumptions += [
        "gamma and beta are truncated at the requested order exactly as the statement says; beta_0..beta_3 "
        "and beta^(2,1) from my own transcription of the literature (typed twice)",
        "QED: d E/d ln mu^2 = -(gamma_QCD-part(a_s) + gamma_0(a_em)) E with d a_s/d ln mu^2 = -beta(a_s), "
        "beta_0 -> beta_0 + a_em beta^(2,1); hence the pure-QED factor exp(-gamma_0(a_em) ln(mu2_to/mu2_from))",
        "couplings restricted to the lattice (range [0.002, 0.05] of the statement); nothing claimed off-lattice",
        "interpreted mode (NUMBA_DISABLE_JIT=1)",
    ]
