"""C48 JIT-compiled numerical kernels agree with their interpreted definitions (two programs).

Every unit of vf.tools.jit_units (solution kernels of all methods and orders, evolution integrals,
interpolation in x and N space, Mellin paths, scale variations, coupling solutions, harmonic-sum
cache, log/g functions, as1/as2 anomalous dimensions (QCD and QED bases) and matching elements, the
charge-weighted QED non-singlet selectors, matrix exponentials, build_ome, the element selectors of
the integration kernel; thorough: the full quad_ker_ad (QCD and QED branches) / quad_ker_ome and the
QED anomalous-dimension dispatchers) is executed in two fresh processes:
one with numba enabled and an EMPTY cache directory (so that everything is compiled from the
current sources; a compilation/typing error is a violation), one interpreted. The outputs are
compared label by label on the complete lattice of the unit.
"""

import json
import os
import shutil
import subprocess
import sys

import numpy as np

from vf.core.ctx import Result, HarnessError
from vf.tools import jit_units

ID = "C48"
LEVEL = "translation_validation"
TECHNIQUE = "differential execution of two programs (numba-compiled from a fresh cache vs interpreted) on complete explicit input lattices"
LEVEL_TEXT = (
    "each compiled entry point on the evolution path is compiled from the current tree and evaluated on its full lattice; every value "
    "is compared with the interpreted definition (1e-10 relative + 1e-13 absolute per output, and 1e-10 relative element by element "
    "up to 1e-13 of the largest element of the output)"
)
LEVEL_NOTE = (
    "lattices are those of vf/tools/jit_units.py; quick leaves out the full integration kernel (8 min compile; QCD and QED branches, QED "
    "anomalous-dimension dispatchers), thorough includes it; the element selectors of the kernel and the as1/as2/aem QED entries are quick"
)
FLOOR_NONTRIVIAL = 5

RTOL, ATOL = 1e-10, 1e-13
# element by element: 1e-10 of the element itself + 1e-13 of the largest element of the same output (cancellation noise)
ERTOL, ENOISE = 1e-10, 1e-13
# outputs that are differences of O(1) terms (exact evolution integrals vanish at a1 == a0, basis functions vanish outside their
# support): the two programs differ there by rounding noise of the O(1) terms, so they are judged on the absolute scale 1 only
# (the per-output rule above).  Measured on the current tree: every other family uses < 4e-4 (quick) / < 4e-3 (thorough: the
# integration kernel) of the element-wise tolerance, these use 0.8 ... 1e285 of it.
CANCELLING = {"ei.j34_exact", "a4.j03_exact", "a4.j13_exact", "a4.j23_exact", "a4.j33_exact", "interp.N", "interp.x", "evaluate_grid"}


def _run(unit, jit):
    env = dict(os.environ)
    scratch = os.environ["VERIF_SCRATCH_DIR"]
    cache = os.path.join(scratch, f"nbcache-{unit}-{os.getpid()}")
    shutil.rmtree(cache, ignore_errors=True)
    env["NUMBA_DISABLE_JIT"] = "0" if jit else "1"
    env["NUMBA_CACHE_DIR"] = cache
    env["NUMBA_NUM_THREADS"] = "1"
    try:
        out = subprocess.run([sys.executable, "-m", "vf.tools.jit_units", unit], env=env, capture_output=True, text=True, timeout=30000)
    finally:
        shutil.rmtree(cache, ignore_errors=True)
    for line in out.stdout.splitlines():
        if line.startswith("JITUNIT "):
            return json.loads(line[8:]), None
    return None, (out.stderr or out.stdout)[-1500:]


def evaluate(case):
    unit = case["unit"]
    res = Result()
    interp, err_i = _run(unit, jit=False)
    if interp is None:
        raise HarnessError(f"unit {unit} failed in interpreted mode (harness lattice wrong?): {err_i}")
    jit, err_j = _run(unit, jit=True)
    if jit is None:
        kind = "TypingError" if "TypingError" in err_j else ("LoweringError" if "LoweringError" in err_j else "error")
        res.fail(f"{unit}/compile-or-run/{kind}", f"compiled run of unit {unit} failed: ...{err_j[-700:]}")
        res.outcome = "jit-failed"
        return res
    if [l for l, _ in interp] != [l for l, _ in jit]:
        res.fail(f"{unit}/labels", "the two programs produced different label sequences")
        return res
    worst = 0.0
    worst_el = 0.0
    nvals = 0
    for (lab, a), (_, b) in zip(interp, jit):
        a = np.array([complex(x, y) for x, y in a])
        b = np.array([complex(x, y) for x, y in b])
        if a.shape != b.shape:
            res.fail(f"{unit}/{lab.split('/')[0]}/shape", f"{lab}: shapes {a.shape} vs {b.shape}")
            continue
        nvals += a.size
        fin = np.isfinite(a) & np.isfinite(b)
        if not np.array_equal(np.isfinite(a), np.isfinite(b)):
            res.fail(f"{unit}/{lab.split('/')[0]}/finiteness", f"{lab}: interpreted {a.tolist()[:4]} vs compiled {b.tolist()[:4]}")
            continue
        scale = max(1.0, float(np.abs(a[fin]).max())) if fin.any() else 1.0
        d = float(np.abs(a[fin] - b[fin]).max()) if fin.any() else 0.0
        worst = max(worst, d / scale)
        if d > ATOL + RTOL * scale:
            res.fail(f"{unit}/{lab.split('/')[0]}/value", f"{lab}: interpreted {a.tolist()[:3]} vs compiled {b.tolist()[:3]} (max diff {d:.3e})")
            continue
        if fin.any() and lab.split("/")[0] not in CANCELLING:
            # small outputs (couplings, small entries next to large ones) are judged relative to themselves
            mod = np.abs(a[fin])
            tol = ERTOL * mod + ENOISE * float(mod.max()) + 1e-300
            frac = np.abs(a[fin] - b[fin]) / tol
            k = int(np.argmax(frac))
            worst_el = max(worst_el, float(frac[k]))
            if frac[k] > 1.0:
                res.fail(
                    f"{unit}/{lab.split('/')[0]}/element-value",
                    f"{lab}: element {k}: interpreted {a[fin][k]!r} vs compiled {b[fin][k]!r} (diff {abs(a[fin][k] - b[fin][k]):.3e}, allowed {tol[k]:.3e}; largest element {float(mod.max()):.3e})",
                )
    res.info = {"max_rel_diff": worst, "max_elementwise_fraction_of_tolerance": worst_el, "values": nvals, "labels": len(interp)}
    res.outcome = f"{unit}:{'agree' if not res.fails else 'differ'}"
    return res


def run(ctx):
    units = jit_units.THOROUGH_UNITS if ctx.thorough() else jit_units.QUICK_UNITS
    cases = [dict(unit=u) for u in units]
    results = ctx.run_cases(cases, evaluate, chunksize=1)
    nvals = sum((r[3] or {}).get("values", 0) for _, r in results)
    nlabels = sum((r[3] or {}).get("labels", 0) for _, r in results)
    ctx.extra.update(
        programs=2,
        disagreements_checked=nlabels,
        values_compared=nvals,
        units=units,
    )
    ctx.rule = (
        f"{len(units)} units (one per group of compiled entry points), each run as two fresh processes: numba with an empty cache directory "
        "vs NUMBA_DISABLE_JIT=1; all labelled outputs of the unit's explicit lattice compared; a case = one unit; non-trivial = all"
    )
    ctx.assumptions += [
        "agreement is judged to 1e-10 relative (LLVM may contract/reorder floating-point operations; complex pow/exp differ in the last bits): "
        "per output 1e-13 + 1e-10*max(1, largest element), and element by element 1e-10*|element| + 1e-13*(largest element of the same output); "
        "the element-wise rule is not applied to the families " + ", ".join(sorted(CANCELLING)) + " (differences of O(1) terms, judged on the absolute scale 1)",
        "one type signature per entry point: the one the compiled integration kernel uses (complex N, int nf, float couplings, int tuples, IntEnum members)",
        "the interpreted run is the definition; a unit failing in interpreted mode is a harness error, not a finding",
    ]
