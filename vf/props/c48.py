"""C48 JIT-compiled numerical kernels agree with their interpreted definitions (two programs).

Every unit of vf.tools.jit_units (solution kernels of all methods and orders, evolution integrals,
interpolation in x and N space, Mellin path, scale variations, coupling solutions, harmonic-sum
cache, log/g functions, as1/as2 anomalous dimensions and matching elements, matrix exponentials,
build_ome; thorough: the full quad_ker_ad / quad_ker_ome) is executed in two fresh processes:
one with numba enabled and an EMPTY cache directory (so that everything is compiled from the
current sources; a compilation/typing error is a violation), one interpreted. The outputs are
compared label by label on the complete lattice of the unit.
"""

import json
import os
import shutil
import subprocess
import sys

import numpy as np

from vf.core.ctx import Result, HarnessError
from vf.tools import jit_units

ID = "C48"
LEVEL = "translation_validation"
TECHNIQUE = "differential execution of two programs (numba-compiled from a fresh cache vs interpreted) on complete explicit input lattices"
LEVEL_TEXT = (
    "each compiled entry point on the evolution path is compiled from the current tree and evaluated on its full lattice; every value "
    "is compared with the interpreted definition (1e-10 relative + 1e-13 absolute)"
)
LEVEL_NOTE = "lattices are those of vf/tools/jit_units.py; quick leaves out the full integration kernel (8 min compile), thorough includes it"
FLOOR_NONTRIVIAL = 5

RTOL, ATOL = 1e-10, 1e-13


def _run(unit, jit):
    env = dict(os.environ)
    scratch = os.environ["VERIF_SCRATCH_DIR"]
    cache = os.path.join(scratch, f"nbcache-{unit}-{os.getpid()}")
    shutil.rmtree(cache, ignore_errors=True)
    env["NUMBA_DISABLE_JIT"] = "0" if jit else "1"
    env["NUMBA_CACHE_DIR"] = cache
    env["NUMBA_NUM_THREADS"] = "1"
    try:
        out = subprocess.run([sys.executable, "-m", "vf.tools.jit_units", unit], env=env, capture_output=True, text=True, timeout=3000)
    finally:
        shutil.rmtree(cache, ignore_errors=True)
    for line in out.stdout.splitlines():
        if line.startswith("JITUNIT "):
            return json.loads(line[8:]), None
    return None, (out.stderr or out.stdout)[-1500:]


def evaluate(case):
    unit = case["unit"]
    res = Result()
    interp, err_i = _run(unit, jit=False)
    if interp is None:
        raise HarnessError(f"unit {unit} failed in interpreted mode (harness lattice wrong?): {err_i}")
    jit, err_j = _run(unit, jit=True)
    if jit is None:
        kind = "TypingError" if "TypingError" in err_j else ("LoweringError" if "LoweringError" in err_j else "error")
        res.fail(f"{unit}/compile-or-run/{kind}", f"compiled run of unit {unit} failed: ...{err_j[-700:]}")
        res.outcome = "jit-failed"
        return res
    if [l for l, _ in interp] != [l for l, _ in jit]:
        res.fail(f"{unit}/labels", "the two programs produced different label sequences")
        return res
    worst = 0.0
    nvals = 0
    for (lab, a), (_, b) in zip(interp, jit):
        a = np.array([complex(x, y) for x, y in a])
        b = np.array([complex(x, y) for x, y in b])
        if a.shape != b.shape:
            res.fail(f"{unit}/{lab.split('/')[0]}/shape", f"{lab}: shapes {a.shape} vs {b.shape}")
            continue
        nvals += a.size
        fin = np.isfinite(a) & np.isfinite(b)
        if not np.array_equal(np.isfinite(a), np.isfinite(b)):
            res.fail(f"{unit}/{lab.split('/')[0]}/finiteness", f"{lab}: interpreted {a.tolist()[:4]} vs compiled {b.tolist()[:4]}")
            continue
        scale = max(1.0, float(np.abs(a[fin]).max())) if fin.any() else 1.0
        d = float(np.abs(a[fin] - b[fin]).max()) if fin.any() else 0.0
        worst = max(worst, d / scale)
        if d > ATOL + RTOL * scale:
            res.fail(f"{unit}/{lab.split('/')[0]}/value", f"{lab}: interpreted {a.tolist()[:3]} vs compiled {b.tolist()[:3]} (max diff {d:.3e})")
    res.info = {"max_rel_diff": worst, "values": nvals, "labels": len(interp)}
    res.outcome = f"{unit}:{'agree' if not res.fails else 'differ'}"
    return res


def run(ctx):
    units = jit_units.THOROUGH_UNITS if ctx.thorough() else jit_units.QUICK_UNITS
    cases = [dict(unit=u) for u in units]
    results = ctx.run_cases(cases, evaluate, chunksize=1)
    nvals = sum((r[3] or {}).get("values", 0) for _, r in results)
    nlabels = sum((r[3] or {}).get("labels", 0) for _, r in results)
    ctx.extra.update(
        programs=2,
        disagreements_checked=nlabels,
        values_compared=nvals,
        units=units,
    )
    ctx.rule = (
        f"{len(units)} units (one per group of compiled entry points), each run as two fresh processes: numba with an empty cache directory "
        "vs NUMBA_DISABLE_JIT=1; all labelled outputs of the unit's explicit lattice compared; a case = one unit; non-trivial = all"
    )
    ctx.assumptions += [
        "agreement is judged to 1e-10 relative (LLVM may contract/reorder floating-point operations; complex pow/exp differ in the last bits)",
        "the interpreted run is the definition; a unit failing in interpreted mode is a harness error, not a finding",
    ]
