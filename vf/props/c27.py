"""C27 large-N behaviour of the diagonal anomalous dimensions against the cusp anomalous dimension.

gamma^{(k-1)}(N) = A_k ln N + B_k + (C_k ln N + D_k)/N + O(ln^p N / N^2)     (N -> oo)

Two estimators of A_k from values at real N in [1e3, 1e5]:
  * pair slopes (gamma(N2)-gamma(N1))/ln(N2/N1) for (1e3,1e4), (1e4,1e5), tolerance from the 1/N term;
  * the exact 4-point solve of the asymptotic form above on N = 1e3, 1e4, 3e4, 1e5 (removes the 1/N terms).
Oracle: literature cusp coefficients typed in twice (colour-factor / polynomial form and the published
decimal alpha_s-expansion form), cross-checked against each other at start-up.
"""

from __future__ import annotations

import math

import numpy as np

from vf.core.ctx import HarnessError, Result

ID = "C27"
LEVEL = "exploration"
TECHNIQUE = "complete product of sectors x orders x nf x variants; large-N slope and 4-point asymptotic fit vs literature cusp coefficients"
LEVEL_TEXT = (
    "For every diagonal non-singlet and gluon-gluon anomalous dimension (unpolarised, time-like, polarised; "
    "all N3LO variants) the coefficient of ln N extracted from N in [1e3,1e5] is compared with the cusp "
    "anomalous dimension A_1..A_4 from the literature."
)
LEVEL_NOTE = (
    "A_4 is only known approximately for the colour-summed QCD value used here (quark 20702(2)-5171.9(2)nf+.., "
    "gluon 40880(30)-11714(2)nf+..); at four loops the gluon coefficient is NOT (C_A/C_F) A_4 (quartic Casimirs), "
    "so the literature gluon value is used for k=4. Real N only. The recorded defect (time-like NNLO valence: -A_3) is "
    "not excused wholesale: it is accepted only while slope and fit equal -A_3 within the tolerances of the healthy cells."
)
FLOOR_NONTRIVIAL = 10

ZETA2 = math.pi**2 / 6
ZETA3 = 1.2020569031595942853997
CF, CA = 4.0 / 3.0, 3.0
FOURPI = 4 * math.pi

PAIRS = [(1e3, 1e4), (1e4, 1e5)]
FIT_N = [1e3, 1e4, 3e4, 1e5]
NFS = [3, 4, 5]


# --------------------------------------------------------------------------- literature, entry 1
def cusp_poly(nf):
    """[(A_k, literature uncertainty, natural scale S_k = sum |coefficients| nf^i)], a_s = alpha_s/(4 pi).

    A_1..A_3: Moch, Vermaseren, Vogt, Nucl.Phys.B688 (2004) 101, eq. (3.11) [hep-ph/0403192]
    A_4:      Moch, Ruijl, Ueda, Vermaseren, Vogt, JHEP 10 (2017) 041, eq. (4.4) [1707.08315]
    """
    a1 = 4 * CF
    a2 = 8 * CF * ((67 / 18 - ZETA2) * CA - 5 / 9 * nf)
    c30 = 16 * CF * CA**2 * (245 / 24 - 67 / 9 * ZETA2 + 11 / 6 * ZETA3 + 11 / 5 * ZETA2**2)
    c31 = 16 * CF**2 * (-55 / 24 + 2 * ZETA3) + 16 * CF * CA * (-209 / 108 + 10 / 9 * ZETA2 - 7 / 3 * ZETA3)
    c32 = 16 * CF * (-1 / 27)
    a3 = c30 + c31 * nf + c32 * nf**2
    a4 = 20702.0 - 5171.9 * nf + 195.5772 * nf**2 + 3.272344 * nf**3
    s2 = 8 * CF * ((67 / 18 - ZETA2) * CA + 5 / 9 * nf)
    s3 = abs(c30) + abs(c31) * nf + abs(c32) * nf**2
    s4 = 20702.0 + 5171.9 * nf + 195.5772 * nf**2 + 3.272344 * nf**3
    return [(a1, 0.0, a1), (a2, 0.0, s2), (a3, 0.0, s3), (a4, 2.0 + 0.2 * nf, s4)]


def cusp_gluon4(nf):
    """A_{g,4}: Moch, Ruijl, Ueda, Vermaseren, Vogt, Phys.Lett.B782 (2018) 627, eq. (13) [1805.09638]."""
    a = 40880.0 - 11714.0 * nf + 440.0488 * nf**2 + 7.362774 * nf**3
    s = 40880.0 + 11714.0 * nf + 440.0488 * nf**2 + 7.362774 * nf**3
    return (a, 30.0 + 2.0 * nf, s)


# --------------------------------------------------------------------------- literature, entry 2 (decimal form)
# A_q(alpha_s) = 0.42441 alpha_s [1 + c1 alpha_s + c2 alpha_s^2 + c3 alpha_s^3]   (1707.08315 eq. (4.5))
DEC_Q = {
    3: (0.42441, 0.72657, 0.73405, 0.6647),
    4: (0.42441, 0.63815, 0.50998, 0.3168),
    5: (0.42441, 0.54973, 0.28403, 0.0133),
}
# A_g(alpha_s) = 0.95493 alpha_s [1 + c1 alpha_s + c2 alpha_s^2 + c3 alpha_s^3]   (1805.09638 eq. (14))
DEC_G = {3: (0.95493, 0.72657, 0.73405, 0.415), 4: (0.95493, 0.63815, 0.50998, 0.064), 5: (0.95493, 0.54973, 0.28403, -0.243)}
# numerical MVV form of A_2, A_3 (hep-ph/0403192 eq. (4.?) / Pegasus): A_3 = 1174.898 - 183.187 nf - 0.790 nf^2
DEC_A3 = (1174.898, -183.187, -64.0 / 81.0)
DEC_A2 = (66.4732, -5.92593)


def crosscheck_tables():
    """The two transcriptions must agree; a typo of mine aborts the check instead of raising an alarm."""
    for nf in NFS:
        A = [a for a, _u, _s in cusp_poly(nf)]
        d = DEC_Q[nf]
        got = [A[0] / FOURPI] + [A[k] / A[0] / FOURPI**k for k in (1, 2, 3)]
        tol = [1e-5, 1.5e-5, 1.5e-5, 2.5e-4]
        for g, r, t in zip(got, d, tol):
            if abs(g - r) > t:
                raise HarnessError(f"cusp tables disagree (quark, nf={nf}): {got} vs {d}")
        ag4 = cusp_gluon4(nf)[0]
        gotg = [A[0] * CA / CF / FOURPI] + [A[k] / A[0] / FOURPI**k for k in (1, 2)] + [ag4 / (A[0] * CA / CF) / FOURPI**3]
        for g, r, t in zip(gotg, DEC_G[nf], [1e-5, 1.5e-5, 1.5e-5, 2.5e-3]):
            if abs(g - r) > t:
                raise HarnessError(f"cusp tables disagree (gluon, nf={nf}): {gotg} vs {DEC_G[nf]}")
        a3 = DEC_A3[0] + DEC_A3[1] * nf + DEC_A3[2] * nf**2
        a2 = DEC_A2[0] + DEC_A2[1] * nf
        if abs(a3 - A[2]) > 2e-3 or abs(a2 - A[1]) > 1e-4:
            raise HarnessError(f"cusp tables disagree (A2/A3 decimal, nf={nf}): {a2, a3} vs {A[1], A[2]}")
    # nf^2 and nf^3 parts of A_4 obey exact Casimir scaling
    if abs(440.0488 - 195.5772 * CA / CF) > 2e-4 or abs(7.362774 - 3.272344 * CA / CF) > 2e-6:
        raise HarnessError("A_4 quark/gluon nf^2, nf^3 coefficients are not Casimir scaled: typo")


# --------------------------------------------------------------------------- eko side
def gammas(case, n):
    """Return the real tower gamma^{(0..k-1)}(N) of the case's channel at real N."""
    import ekore.anomalous_dimensions.polarized.space_like as ad_ps
    import ekore.anomalous_dimensions.unpolarized.space_like as ad_us
    import ekore.anomalous_dimensions.unpolarized.time_like as ad_ut

    N = complex(n, 0.0)
    nf = case["nf"]
    fam = case["family"]
    ch = case["channel"]
    var = tuple([case.get("var", 0)] * 7)
    fh = case.get("fhmruvv", True)
    if fam == "us":
        k = 4
        g = ad_us.gamma_singlet((k, 0), N, nf, var, fh)[:, 1, 1] if ch == "gg" else ad_us.gamma_ns((k, 0), ch, N, nf, var, fh)
    elif fam == "ut":
        k = 3
        g = ad_ut.gamma_singlet((k, 0), N, nf)[:, 1, 1] if ch == "gg" else ad_ut.gamma_ns((k, 0), ch, N, nf)
    else:
        k = 3
        g = ad_ps.gamma_singlet((k, 0), N, nf)[:, 1, 1] if ch == "gg" else ad_ps.gamma_ns((k, 0), ch, N, nf)
    g = np.asarray(g, dtype=np.complex128)
    return g


F_PAIR = 4.0  # slope tolerance = unc + F_PAIR * S_k * ln(N1)/N1      (measured <= 0.41 S_k ln N1/N1)
F_FIT = 1e-5  # fit tolerance   = unc + F_FIT * S_k                     (measured <= 1.5e-6 S_k)
UNC_FACTOR = 1.5  # on the quoted literature uncertainty of A_4 (central approximations)
UNC_FACTOR_BAND = 4.0  # error-band members (variation != 0) deliberately scan A_4: measured <= 2.2 x quoted unc.
IMAG_TOL = 1e-12  # |Im gamma| / max(1, |gamma|) at real N (measured exactly 0.0)

# Recorded, not repaired defects of eko (known_findings.jsonl), PINNED to their documented wrong behaviour:
#   (family, channel, order index) -> factor f such that the documented wrong large-N coefficient is f * A_k.
# A failure of such a cell keeps the listed signature ".../cusp-coefficient" ONLY when the same estimator reproduces
# f * A_k within the SAME tolerance that the healthy cells have to meet; everything else in that cell is a new defect
# (signature ".../cusp-coefficient/beyond-known").  A cell that meets the property again (eko repaired) is an ordinary
# healthy cell.
KNOWN_PINS = {
    # time-like NNLO valence: as3.gamma_nsv returns -(gamma_nsm + nf PS2)  =>  coefficient of ln N is -A_3
    ("ut", 10200, 2): -1.0,
}


def evaluate(case):
    res = Result()
    nf = case["nf"]
    gluon = case["channel"] == "gg"
    ref = cusp_poly(nf)
    if gluon:
        ref = [(a * CA / CF, u, s * CA / CF) for a, u, s in ref[:3]] + [cusp_gluon4(nf)]
    variant = ""
    if case["family"] == "us":
        variant = ("/fhmruvv" if case.get("fhmruvv", True) else "/eko-n3lo") + f"/var={case.get('var', 0)}"
    base = f"ad_{case['family']}.{'gamma_singlet[gg]' if gluon else 'gamma_ns/mode=' + str(case['channel'])}"
    vals = {}
    try:
        with np.errstate(all="ignore"):
            for n in sorted({x for p in PAIRS for x in p} | set(FIT_N)):
                vals[n] = gammas(case, n)
    except Exception as e:  # noqa
        res.fail(f"{base}{variant}/raises", f"nf={nf}: {type(e).__name__}: {e}")
        return res
    K = len(next(iter(vals.values())))
    info = {}
    # A_k ln N with real A_k: the values at real N are real (the only place where real N = 1e3..1e5 is evaluated)
    imag = 0.0
    for n, v in vals.items():
        rel = np.abs(v.imag) / np.maximum(1.0, np.abs(v))
        imag = max(imag, float(np.max(rel)))
        for k in np.nonzero(~(rel <= IMAG_TOL))[0]:
            res.fail(
                f"{base}{variant if k == 3 else ''}/order-index={int(k)}/imaginary-part-at-real-N",
                f"nf={nf} N={n:g}: gamma^({int(k)}) = {v[k]!r} has an imaginary part at real N",
            )
    info["max_imag_part"] = imag
    M = np.array([[math.log(n), 1.0, math.log(n) / n, 1.0 / n] for n in FIT_N])
    G = np.array([vals[n].real for n in FIT_N])
    fit = np.linalg.solve(M, G)[0]
    worst_p = worst_f = 0.0  # healthy cells only
    pin_p = pin_f = 0.0  # pinned known-defect cells: deviation from the documented wrong value
    n_known = n_beyond = 0
    uf = UNC_FACTOR if case.get("var", 0) == 0 else UNC_FACTOR_BAND
    for k in range(K):
        a, unc, s = ref[k]
        v = variant if k == 3 else ""
        sig = f"{base}{v}/order-index={k}"
        pin = KNOWN_PINS.get((case["family"], case["channel"], k))
        ests = []  # (label, estimate, tolerance, message head)
        for n1, n2 in PAIRS:
            slope = (vals[n2][k].real - vals[n1][k].real) / math.log(n2 / n1)
            tol = uf * unc + F_PAIR * s * math.log(n1) / n1
            ests.append(("pair", slope, tol, f"[pair slope] nf={nf} N pair=({n1:g},{n2:g}): slope={slope!r}"))
        ests.append(("fit", fit[k], uf * unc + F_FIT * s, f"[4-point asymptotic fit] nf={nf} N={FIT_N}: coefficient of ln N = {fit[k]!r}"))
        healthy = all(abs(e - a) <= t for _l, e, t, _m in ests)
        for label, est, tol, head in ests:
            dev = abs(est - a)
            if pin is None or healthy:
                if label == "pair":
                    worst_p = max(worst_p, dev / tol)
                else:
                    worst_f = max(worst_f, dev / tol)
                    info[f"max_fit_dev_over_scale_k{k + 1}"] = dev / s
                    if unc:
                        info["max_A4_dev_over_quoted_unc" + ("_band" if case.get("var", 0) else "")] = dev / unc
            if dev <= tol:
                continue
            msg = f"{head} literature A_{k+1}={a!r} (tol {tol:.4g})"
            if pin is None:
                res.fail(sig + "/cusp-coefficient", msg)
                continue
            # known-defect cell: does this estimator reproduce the documented wrong coefficient pin * A_k ?
            pdev = abs(est - pin * a)
            if label == "pair":
                pin_p = max(pin_p, pdev / tol)
            else:
                pin_f = max(pin_f, pdev / tol)
            if pdev <= tol:
                n_known += 1
                res.fail(sig + "/cusp-coefficient", msg + f" [recorded defect reproduced: estimate = {pin:+g} * A_{k+1} within the same tolerance]")
            else:
                n_beyond += 1
                res.fail(
                    sig + "/cusp-coefficient/beyond-known",
                    msg + f"; NOT the recorded defect either: recorded wrong value {pin:+g} * A_{k+1} = {pin * a!r}, deviation {pdev:.4g} > tol",
                )
    info["max_pair_dev_over_tol"] = worst_p
    info["max_fit_dev_over_tol"] = worst_f
    if n_known or n_beyond:
        # kept out of the healthy maxima above (head-room of the healthy cells stays readable), but counted
        info["max_known_defect_pin_pair_dev_over_tol"] = pin_p
        info["max_known_defect_pin_fit_dev_over_tol"] = pin_f
        info["known_defect_oracles"] = n_known
        info["beyond_known_oracles"] = n_beyond
    res.info = info
    res.outcome = f"{case['family']}/{'gg' if gluon else 'ns'}/K={K}" + ("/known-defect" if n_known or n_beyond else "")
    return res


def run(ctx):
    crosscheck_tables()
    th = ctx.thorough()
    cases = []
    for nf in NFS:
        for ch in (10101, 10201, 10200, "gg"):
            for fh, vs in ((True, [0, 1, 2]), (False, list(range(0, 21)) if th else [0, 1, 7, 19])):
                for v in vs:
                    if not fh and ch != "gg" and v > 0:
                        continue  # eko's own N3LO non-singlet has no variations
                    cases.append({"family": "us", "channel": ch, "nf": nf, "fhmruvv": fh, "var": v})
            cases.append({"family": "ut", "channel": ch, "nf": nf})
            cases.append({"family": "ps", "channel": ch, "nf": nf})
    results = ctx.run_cases(cases, evaluate)
    ctx.extra["known_defect_oracles_matching_their_pin"] = int(sum((r[1][3] or {}).get("known_defect_oracles", 0) for r in results))
    ctx.extra["oracles_failing_beyond_a_known_defect"] = int(sum((r[1][3] or {}).get("beyond_known_oracles", 0) for r in results))
    ctx.rule = (
        "complete product nf 3..5 x {ns+, ns-, ns valence, gg} x {unpolarised space-like orders 1..4 with FHMRUVV "
        f"variations 0..2 and eko's own N3LO (gg variations {'0..20' if th else '0,1,7,19'}), time-like orders 1..3, "
        "polarised orders 1..3}; per case every order component: two pair slopes on (1e3,1e4),(1e4,1e5) and one "
        "4-point solve of A lnN + B + (C lnN + D)/N on N=1e3,1e4,3e4,1e5 against the literature cusp coefficient "
        "(gg: C_A/C_F A_k for k<=3, literature A_{g,4} for k=4); every value at these real N must also be real "
        f"(|Im| <= {IMAG_TOL:g}); cells with a recorded defect ({', '.join('/'.join(map(str, k)) for k in KNOWN_PINS)}) are "
        "pinned: a failing estimator must reproduce the documented wrong coefficient (-A_3) within the same tolerance, "
        "otherwise it is reported under .../beyond-known"
    )
    ctx.assumptions += [
        "cusp coefficients from MVV 2004 (A_1..A_3, exact) and MRUVV 2017/2018 (A_4 quark 20702(2)-5171.9(2)nf+195.5772nf^2+"
        "3.272344nf^3, gluon 40880(30)-11714(2)nf+440.0488nf^2+7.362774nf^3), typed twice and cross-checked at start-up",
        "four-loop gluon cusp is not Casimir-scaled; the statement's (C_A/C_F) A_k is demanded for k<=3 only and the "
        "literature gluon value for k=4",
        "error-band members of the N3LO approximations (variation != 0) get 4x the quoted A_4 uncertainty instead of 1.5x",
        "tolerances: pair slope 1.5*unc + 4*S_k*ln(N1)/N1 (1/N correction, measured <=0.41), fit 1.5*unc + 1e-5*S_k "
        "(measured <=1.5e-6), S_k = sum of |nf-coefficients| of A_k (times C_A/C_F for gg)",
        "time-like and polarised gluon-gluon entries are included (the cusp is universal)",
        "real N only; nf restricted to 3..5 as in the statement",
        "max_pair_dev_over_tol / max_fit_dev_over_tol / max_fit_dev_over_scale_k* are taken over the cells that meet the "
        "property; the pinned known-defect cell reports its distance from the documented wrong value under max_known_defect_pin_*",
    ]
