"""C22 backward matching and decoupling inversions are true inverses.

build_ome: the forward operator F(a) and the expanded backward operator B(a) are evaluated on integer
matrices at integer couplings, their coefficient matrices F_i, B_j (power series in a) are extracted
exactly, and the series products sum_{i+j=k} F_i B_j and sum B_j F_i are required to be delta_{k0} for
k <= matching order.  The integer lattice has degree+1 points per matrix entry, so the enumeration decides
the identity for all 2x2 matrices and (Amitsur-Levitzki, degree <= 3) in the free algebra.  The exact
backward operator is required to be the two-sided matrix inverse of F.  invert_matching_coeffs and the
coupling / MSbar-mass decoupling tables are composed with their upward partners as truncated power series in
(a, L) with exact rationals.
"""

import itertools
import math
import sys
from fractions import Fraction as Fr

import numpy as np

from vf.core.ctx import Result

ID = "C22"
LEVEL = "exploration"
TECHNIQUE = (
    "complete enumeration of degree-complete integer matrix lattices with exact coefficient extraction; "
    "exact rational composition of truncated power series"
)
LEVEL_TEXT = (
    "For every 2x2 matrix triple with entries in {0..3}/{0,1}/{0,1} (degree+1 points per entry) the expanded "
    "backward matching operator is the two-sided series inverse of the forward one (itself pinned to 1 + sum a^k A_k) "
    "through the matching order, exactly (integer arithmetic); this decides the identity for non-commuting matrices of any size. The exact "
    "backward operator and the decoupling tables are checked on explicit finite lists."
)
LEVEL_NOTE = (
    "Assumes build_ome is polynomial of degree <= 5 in a_s and of degree <= (3,1,1) in the entries of "
    "(A1,A2,A3) (read off the source; the a_s degree is validated at one extra node). Interpreted mode only."
)
FLOOR_NONTRIVIAL = 10

NODES = [0, 1, -1, 2, -2, 3]  # 6 nodes: exact extraction of a polynomial of degree <= 5
EXTRA = -3  # validation node
TOL_EXACT = 1e-12
TOL_SERIES = 1e-12


def _qk():
    import eko.evolution_operator  # noqa

    return sys.modules["eko.evolution_operator.quad_ker"]


# ----------------------------------------------------------------------------- exact interpolation
def _vinv():
    """D and the integer matrix D * V^-1 for the Vandermonde matrix of NODES (exact)."""
    n = len(NODES)
    V = [[Fr(x) ** k for k in range(n)] for x in NODES]
    # Gauss-Jordan with Fractions
    M = [row[:] + [Fr(int(i == j)) for j in range(n)] for i, row in enumerate(V)]
    for c in range(n):
        p = next(r for r in range(c, n) if M[r][c] != 0)
        M[c], M[p] = M[p], M[c]
        piv = M[c][c]
        M[c] = [x / piv for x in M[c]]
        for r in range(n):
            if r != c and M[r][c] != 0:
                f = M[r][c]
                M[r] = [x - f * y for x, y in zip(M[r], M[c])]
    inv = [row[n:] for row in M]
    D = 1
    for row in inv:
        for x in row:
            D = D * x.denominator // math.gcd(D, x.denominator)
    return D, np.array([[int(x * D) for x in row] for row in inv], dtype=np.int64)


_D, _DVINV = _vinv()


def _coeffs_int(vals):
    """vals: (nodes, B, d, d) int64 -> coefficient arrays (6, B, d, d) int64, or None if not integral."""
    num = np.tensordot(_DVINV, vals, axes=(1, 0))
    if np.any(num % _D != 0):
        return None
    return num // _D


def _to_int(x):
    x = np.asarray(x)
    r = np.rint(x.real)
    if np.any(x.imag != 0) or np.any(r != x.real):
        return None
    return r.astype(np.int64)


def m_from_digits(idx, base, d=2):
    return np.array([[(idx // base ** (d * i + j)) % base for j in range(d)] for i in range(d)], dtype=np.int64)


def _series_inverse_check(res, site, F, B, n, describe, stats):
    """F, B: (6, batch, d, d) coefficient arrays (exact ints or floats). Require, for k = 0..n,
    sum_{i+j=k} F_i B_j = sum B_j F_i = delta_k0.  Only the lowest failing power is reported."""
    d = F.shape[-1]
    eye = np.eye(d, dtype=F.dtype)
    for k in range(n + 1):
        left = sum(F[i] @ B[k - i] for i in range(k + 1))
        right = sum(B[i] @ F[k - i] for i in range(k + 1))
        want = eye if k == 0 else np.zeros_like(eye)
        if F.dtype.kind in "iu":
            badl, badr = (left != want), (right != want)
            dev = 0.0
        else:
            sc = sum(np.abs(F[i]) @ np.abs(B[k - i]) + np.abs(B[i]) @ np.abs(F[k - i]) for i in range(k + 1)) + 1.0
            dl, dr = np.abs(left - want) / sc, np.abs(right - want) / sc
            dev = float(max(dl.max(), dr.max()))
            stats["max_rel_series"] = max(stats.get("max_rel_series", 0.0), dev)
            badl, badr = dl > 1e-9, dr > 1e-9
        if k >= 1 and (np.any(F[k] != 0) or np.any(B[k] != 0)):
            stats["nontrivial"] = True
        if np.any(badl) or np.any(badr):
            which = "F*B" if np.any(badl) else "B*F"
            arr = left if np.any(badl) else right
            b = int(np.argwhere(badl if np.any(badl) else badr)[0][0])
            res.fail(
                f"{site}/first-bad-power=a^{k}",
                f"matching order {n}, {describe(b)}: coefficient of a_s^{k} in {which} is "
                f"{np.array2string(arr[b]).replace(chr(10), '')} instead of {'1' if k == 0 else '0'} "
                f"({int(np.any(badl, axis=(-1, -2)).sum())} of {F.shape[1]} lattice points fail on F*B, "
                f"{int(np.any(badr, axis=(-1, -2)).sum())} on B*F)",
            )
            return


def _extract_int(qk, mats_of_b, Bsz, d, n, method, res, site, stats):
    """Evaluate build_ome on all nodes for the batch; return exact coefficient arrays or None."""
    allnodes = NODES + [EXTRA]
    vals = np.zeros((len(allnodes), Bsz, d, d), dtype=np.int64)
    for b in range(Bsz):
        A = mats_of_b(b)
        for ia, a in enumerate(allnodes):
            out = qk.build_ome(A, (n, 0), float(a), method)
            stats["calls"] += 1
            iv = _to_int(out)
            if iv is None:
                res.fail(f"{site}/non-integer-output", f"order {n} a_s={a} A={A.real.astype(int).tolist()} -> {out}")
                return None
            vals[ia, b] = iv
    co = _coeffs_int(vals[: len(NODES)])
    if co is None:
        res.fail(f"{site}/oracle-inapplicable", f"order {n} method {method.name}: values on integer nodes are not a polynomial with integer coefficients")
        return None
    pred = sum(co[k] * (EXTRA**k) for k in range(len(NODES)))
    if np.any(pred != vals[-1]):
        res.fail(f"{site}/oracle-inapplicable", f"order {n} method {method.name}: not a polynomial of degree <= 5 in a_s (validation node {EXTRA})")
        return None
    return co


def _forward_pin(res, F, Aof, Bsz, n, describe):
    """The forward matching operator IS 1 + sum_{k<=n} a_s^k A_k: pin the exactly extracted coefficients
    (a change in the code shared by the forward and backward branches keeps F*B = 1 and would otherwise pass)."""
    d = F.shape[-1]
    for k in range(F.shape[0]):
        if k == 0:
            want = np.broadcast_to(np.eye(d, dtype=np.int64), F[0].shape)
        elif k <= n:
            want = np.stack([Aof(b)[k - 1] for b in range(Bsz)])
        else:
            want = np.zeros_like(F[0])
        bad = np.any(F[k] != want, axis=(-1, -2))
        if np.any(bad):
            b = int(np.argwhere(bad)[0][0])
            res.fail(
                f"build_ome/FORWARD/coefficient=a^{k}",
                f"matching order {n}, {describe(b)}: coefficient of a_s^{k} of the forward operator is "
                f"{np.array2string(F[k][b]).replace(chr(10), '')} instead of "
                f"{np.array2string(want[b]).replace(chr(10), '')} ({int(bad.sum())} of {Bsz} lattice points)",
            )
            return


def _exact_on_lattice(res, qk, mats, Bsz, n, describe, st, a=0.125):
    """BACKWARD_EXACT at a_s = 1/8 on every lattice point: two-sided inverse of FORWARD (1e-12 x cond)."""
    MM = qk.MatchingMethods
    worst = 0.0
    for b in range(Bsz):
        A = mats(b)
        F = qk.build_ome(A, (n, 0), a, MM.FORWARD)
        X = qk.build_ome(A, (n, 0), a, MM.BACKWARD_EXACT)
        st["calls"] += 2
        eye = np.eye(F.shape[0])
        cond = float(np.linalg.cond(F))
        dev = max(np.abs(X @ F - eye).max(), np.abs(F @ X - eye).max()) / cond
        worst = max(worst, float(dev))
        if not dev <= TOL_EXACT and not any(f.signature == "build_ome/BACKWARD_EXACT/lattice" for f in res.fails):
            res.fail(
                "build_ome/BACKWARD_EXACT/lattice",
                f"order {n} a_s={a} {describe(b)}: |X F - 1| or |F X - 1| = {dev * cond:.3e} (cond {cond:.2e}); X={X.tolist()} F={F.tolist()}",
            )
    st["max_rel_exact_lattice"] = max(st.get("max_rel_exact_lattice", 0.0), worst)


def _stats():
    return {"calls": 0, "nontrivial": False}


def _finish(res, st, label):
    res.nontrivial = bool(st["nontrivial"])
    res.info = {k: v for k, v in st.items() if k != "nontrivial"}
    res.outcome = f"{label}:{'violated' if res.fails else 'holds'}:{'nontrivial' if res.nontrivial else 'trivial'}"
    return res


# ----------------------------------------------------------------------------- build_ome, lattice
def _ome_lattice(case):
    qk = _qk()
    n, i1, i2 = case["n"], case["a1"], case["a2"]
    MM = qk.MatchingMethods
    A1s = [m_from_digits(i, 4) for i in range(256)]
    A2 = m_from_digits(i1, 2)
    A3 = m_from_digits(i2, 2)
    rows = max(n, 1)
    res, st = Result(), _stats()
    site = "build_ome/BACKWARD_EXPANDED"

    def mats(b):
        return np.ascontiguousarray(np.stack([A1s[b], A2, A3])[:rows].astype(np.complex128))

    def describe(b):
        return f"A1={A1s[b].tolist()} A2={A2.tolist()} A3={A3.tolist()}"

    F = _extract_int(qk, mats, 256, 2, n, MM.FORWARD, res, "build_ome/FORWARD", st)
    B = _extract_int(qk, mats, 256, 2, n, MM.BACKWARD_EXPANDED, res, site, st)
    if F is not None:
        _forward_pin(res, F, lambda b: (A1s[b], A2, A3), 256, n, describe)
    if F is not None and B is not None:
        _series_inverse_check(res, site, F, B, n, describe, st)
    _exact_on_lattice(res, qk, mats, 256, n, describe, st)
    return _finish(res, st, f"ome.lattice.n={n}")


def _lift3(M, k):
    M = np.asarray(M, dtype=np.int64)
    out = np.zeros((3, 3), dtype=np.int64)
    out[:2, :2] = M
    out[2, :2] = M[0] + k
    out[:2, 2] = M[:, 1] * 2
    out[2, 2] = k + 1
    return out


def _ome_dim3(case):
    """Explicit 3x3 integer matrices (the shape used by the singlet matching)."""
    qk = _qk()
    n = case["n"]
    MM = qk.MatchingMethods
    seeds0 = [m_from_digits(i, 4) for i in case["seeds0"]]
    seeds1 = [m_from_digits(i, 2) for i in case["seeds1"]]
    seeds2 = [m_from_digits(i, 2) for i in case["seeds2"]]
    pts = list(itertools.product(range(len(seeds0)), range(len(seeds1)), range(len(seeds2))))
    E = [np.zeros((3, 3), dtype=np.int64) for _ in range(9)]
    for i in range(9):
        E[i][i // 3, i % 3] = 1
    trip = [(_lift3(seeds0[a], 0), _lift3(seeds1[b], 1), _lift3(seeds2[c], 2)) for a, b, c in pts]
    # plus pure unit-matrix triples (detect index slips in dim 3)
    trip += [(E[i], E[(i * 2 + 1) % 9], E[(i * 4 + 3) % 9]) for i in range(9)]
    rows = max(n, 1)
    res, st = Result(), _stats()
    site = "build_ome/BACKWARD_EXPANDED"

    def mats(b):
        return np.ascontiguousarray(np.stack(trip[b])[:rows].astype(np.complex128))

    def describe(b):
        return f"(3x3) A1={trip[b][0].tolist()} A2={trip[b][1].tolist()} A3={trip[b][2].tolist()}"

    F = _extract_int(qk, mats, len(trip), 3, n, MM.FORWARD, res, "build_ome/FORWARD", st)
    B = _extract_int(qk, mats, len(trip), 3, n, MM.BACKWARD_EXPANDED, res, site, st)
    if F is not None:
        _forward_pin(res, F, lambda b: trip[b], len(trip), n, describe)
    if F is not None and B is not None:
        _series_inverse_check(res, site, F, B, n, describe, st)
    _exact_on_lattice(res, qk, mats, len(trip), n, describe, st)
    return _finish(res, st, f"ome.dim3.n={n}")


# ----------------------------------------------------------------------------- build_ome, complex matrices
def _complex_family(case):
    """Deterministic complex matrix towers: the real matching matrices of ekore at listed (N, L, nf), or a
    synthetic family with generic entries."""
    fam = case["family"]
    out = []
    if fam == "synthetic":
        for d in (2, 3):
            for s in range(1, 7):
                A = np.zeros((3, d, d), dtype=np.complex128)
                for k in range(3):
                    for i in range(d):
                        for j in range(d):
                            t = 1 + 3 * k + 5 * i + 7 * j + 11 * s
                            A[k, i, j] = (((t * 37) % 19) - 9) * (k + 1) * 2.5 + 1j * (((t * 53) % 23) - 11) * 1.5
                out.append((f"synthetic d={d} s={s}", A))
        return out
    Ns = [complex(x["re"], x["im"]) for x in case["N"]]
    for N in Ns:
        for L in case["Lmh"]:
            for nf in case["nfs"]:
                if fam == "us.singlet":
                    import ekore.operator_matrix_elements.unpolarized.space_like as o

                    for msbar in (False, True):
                        out.append((f"us.A_singlet N={N} L={L} nf={nf} msbar={msbar}", o.A_singlet((3, 0), N, nf, L, msbar)))
                elif fam == "us.ns":
                    import ekore.operator_matrix_elements.unpolarized.space_like as o

                    out.append((f"us.A_non_singlet N={N} L={L} nf={nf}", o.A_non_singlet((3, 0), N, nf, L)))
                elif fam == "ps.singlet":
                    import ekore.operator_matrix_elements.polarized.space_like as o

                    out.append((f"ps.A_singlet N={N} L={L} nf={nf}", o.A_singlet((2, 0), N, nf, L)))
                elif fam == "ut.singlet":
                    import ekore.operator_matrix_elements.unpolarized.time_like as o

                    out.append((f"ut.A_singlet N={N} L={L}", o.A_singlet((1, 0), N, L)))
    return out


def _ome_complex(case):
    qk = _qk()
    MM = qk.MatchingMethods
    res, st = Result(), _stats()
    st["max_rel_exact"] = 0.0
    fam = _complex_family(case)
    nodes = np.array(NODES, dtype=float)
    Vinv = np.linalg.inv(np.vander(nodes, len(NODES), increasing=True))
    for label, Afull in fam:
        if not np.all(np.isfinite(Afull)):
            # the matching matrices themselves are singular at this N (not this property's business)
            st["skipped_nonfinite"] = st.get("skipped_nonfinite", 0) + 1
            continue
        nmax = Afull.shape[0]
        d = Afull.shape[1]
        for n in range(0, nmax + 1):
            A = np.ascontiguousarray(Afull[: max(n, 1)])
            # exact inverse at physical couplings
            for a in case["as"]:
                F = qk.build_ome(A, (n, 0), a, MM.FORWARD)
                X = qk.build_ome(A, (n, 0), a, MM.BACKWARD_EXACT)
                st["calls"] += 2
                cond = float(np.linalg.cond(F))
                eye = np.eye(d)
                dev = max(np.abs(X @ F - eye).max(), np.abs(F @ X - eye).max()) / cond
                st["max_rel_exact"] = max(st["max_rel_exact"], float(dev))
                if n >= 1:
                    st["nontrivial"] = True
                if not dev <= TOL_EXACT and not any(f.signature == "build_ome/BACKWARD_EXACT" for f in res.fails):
                    res.fail(
                        "build_ome/BACKWARD_EXACT",
                        f"{label} order {n} a_s={a}: |X F - 1| or |F X - 1| = {dev * cond:.3e} (cond {cond:.2e}); X={X.tolist()} F={F.tolist()}",
                    )
            # expanded inverse: coefficient extraction in floating point
            vals = {m: np.array([qk.build_ome(A, (n, 0), float(x), m) for x in NODES]) for m in (MM.FORWARD, MM.BACKWARD_EXPANDED)}
            st["calls"] += 2 * len(NODES)
            Fc = np.tensordot(Vinv, vals[MM.FORWARD], axes=(1, 0))[:, None]
            Bc = np.tensordot(Vinv, vals[MM.BACKWARD_EXPANDED], axes=(1, 0))[:, None]
            # forward operator pinned: at a_s = 1 it is exactly 1 + A_1 + .. + A_n
            want = np.eye(d, dtype=np.complex128) + sum(A[k] for k in range(n))
            got = vals[MM.FORWARD][NODES.index(1)]
            devf = float(np.abs(got - want).max() / (1.0 + sum(np.abs(A[k]).max() for k in range(n))))
            st["max_rel_forward_pin"] = max(st.get("max_rel_forward_pin", 0.0), devf)
            if not devf <= TOL_EXACT and not any(f.signature == "build_ome/FORWARD/value-at-a=1" for f in res.fails):
                res.fail(
                    "build_ome/FORWARD/value-at-a=1",
                    f"{label} order {n}: forward operator at a_s=1 is {got.tolist()} instead of 1+sum A_k = {want.tolist()}",
                )
            _series_inverse_check(res, "build_ome/BACKWARD_EXPANDED", Fc, Bc, n, lambda b: label, st)
    return _finish(res, st, f"ome.complex.{case['family']}")


# ----------------------------------------------------------------------------- decoupling series
def _table_series(c):
    """a + sum_{n=1..3} a^(n+1) sum_{l<=n} c[n,l] L^l  ->  list (index = power of a) of {L power: Fraction}."""
    out = [dict(), {0: Fr(1)}]
    for n in range(1, 4):
        out.append({l: Fr(float(c[n, l])) for l in range(0, 4) if c[n, l] != 0})
    return out


def _factor_series(c):
    """1 + sum_{n=1..3} a^n sum_l c[n,l] L^l."""
    out = [{0: Fr(1)}]
    for n in range(1, 4):
        out.append({l: Fr(float(c[n, l])) for l in range(0, 4) if c[n, l] != 0})
    return out


def _abs_series(s):
    return [{k: abs(v) for k, v in d.items()} for d in s]


def _series_mul(x, y, n):
    out = [dict() for _ in range(n + 1)]
    for i, xi in enumerate(x):
        for j, yj in enumerate(y):
            if i + j > n:
                continue
            for p, c in xi.items():
                for q, e in yj.items():
                    out[i + j][p + q] = out[i + j].get(p + q, 0) + c * e
    return [{k: v for k, v in d.items() if v != 0} for d in out]


def _compare_series(got, scale, want, tol):
    """Return (max relative deviation, first offending (power of a, power of L, got, want)) ."""
    worst, where = 0.0, None
    for k, (g, w) in enumerate(zip(got, want)):
        for l in set(g) | set(w):
            dv = abs(g.get(l, 0) - w.get(l, 0))
            sc = scale[k].get(l, 0)
            if dv == 0:
                continue
            rel = float(dv / sc) if sc != 0 else math.inf
            if rel > worst:
                worst = rel
            if rel > tol and where is None:
                where = (k, l, float(g.get(l, 0)), float(w.get(l, 0)))
    return worst, where


def _check_compositional(res, sig, c_up, c_dn, label, st, orders=(4,)):
    from vf.ref.c21_series import poly_compose_trunc

    up, dn = _table_series(c_up), _table_series(c_dn)
    for k in orders:
        # truncation used at perturbative order k: terms n <= k-1, i.e. powers of a up to k
        upk, dnk = up[: k + 1], dn[: k + 1]
        ident = [dict(), {0: Fr(1)}] + [dict() for _ in range(k - 1)]
        for name, f, g in (("down(up(a))", dnk, upk), ("up(down(a))", upk, dnk)):
            got = poly_compose_trunc(f, g, k)
            scale = poly_compose_trunc(_abs_series(f), _abs_series(g), k)
            worst, where = _compare_series(got, scale, ident[: k + 1], TOL_SERIES)
            st["max_rel_compose"] = max(st.get("max_rel_compose", 0.0), worst if math.isfinite(worst) else 1e300)
            if where is not None:
                res.fail(
                    f"{sig}/first-bad-power=a^{where[0]}",
                    f"{label}: {name} truncated at a^{k} has coefficient {where[2]!r} of a^{where[0]} L^{where[1]} "
                    f"instead of {where[3]!r}; c_up={np.asarray(c_up).tolist()} c_down={np.asarray(c_dn).tolist()}",
                )
                return False
    return True


def _check_product(res, sig, c_up, c_dn, label, st):
    up, dn = _factor_series(c_up), _factor_series(c_dn)
    got = _series_mul(up, dn, 3)
    scale = _series_mul(_abs_series(up), _abs_series(dn), 3)
    worst, where = _compare_series(got, scale, [{0: Fr(1)}, {}, {}, {}], TOL_SERIES)
    st["max_rel_product"] = max(st.get("max_rel_product", 0.0), worst if math.isfinite(worst) else 1e300)
    if where is not None:
        res.fail(
            f"{sig}/first-bad-power=a^{where[0]}",
            f"{label}: (1+up)(1+down) has coefficient {where[2]!r} of a^{where[0]} L^{where[1]} instead of {where[3]!r}; "
            f"c_up={np.asarray(c_up).tolist()} c_down={np.asarray(c_dn).tolist()}",
        )
        return False
    return True


def _invert_symbolic(case):
    """invert_matching_coeffs on the integer lattice c11 in {0..3} (degree 3), every other coefficient in
    {0,1} (degree 1); c10 = 0 as documented."""
    from eko.couplings import invert_matching_coeffs

    res, st = Result(), _stats()
    c11 = case["c11"]
    slots2 = [(2, 0), (2, 1), (2, 2)]
    slots3 = [(3, 0), (3, 1), (3, 2), (3, 3)]
    for bits in itertools.product([0, 1], repeat=7):
        c = np.zeros((4, 4))
        c[1, 1] = c11
        for (n, l), v in zip(slots2 + slots3, bits):
            c[n, l] = v
        d = invert_matching_coeffs(c.copy())
        st["calls"] += 1
        if any(bits) or c11:
            st["nontrivial"] = True
        ok = _check_compositional(res, "invert_matching_coeffs/compositional-inverse", c, d, f"lattice point c11={c11} bits={bits}", st)
        if c11 == 0:
            # without an a^1 term the compositional inverse is also the reciprocal factor (mass decoupling use)
            ok = _check_product(res, "invert_matching_coeffs/reciprocal(c1=0)", c, d, f"lattice point bits={bits}", st) and ok
        if not ok:
            break
    return _finish(res, st, "invert.symbolic")


def _tables(case):
    from eko import couplings, msbar_masses

    res, st = Result(), _stats()
    nf = case["nf"]
    if case["what"] == "coupling":
        scheme = case["scheme"]
        # decoy calls with the other flavour numbers first: tables are pure functions of (scheme, nf); anything kept
        # between calls (a memo keyed too coarsely) has to show inside this very case
        for other in (3, 4, 5):
            if other != nf:
                couplings.compute_matching_coeffs_up(scheme, other)
                couplings.compute_matching_coeffs_down(scheme, other)
        up = couplings.compute_matching_coeffs_up(scheme, nf)
        dn = couplings.compute_matching_coeffs_down(scheme, nf)
        st["calls"] += 2
        st["nontrivial"] = bool(np.any(up != 0))
        if up[1, 0] != 0:
            res.fail("couplings.matching_coeffs/c10-nonzero", f"{scheme} nf={nf}: c_up[1,0]={up[1,0]} but the inversion assumes 0")
        _check_compositional(
            res, f"couplings.matching_coeffs/{scheme}/compose", up, dn, f"{scheme} nf={nf}", st, orders=(1, 2, 3, 4)
        )
    else:
        for other in (3, 4, 5):
            if other != nf:
                msbar_masses.compute_matching_coeffs_up(other)
                msbar_masses.compute_matching_coeffs_down(other)
        up = msbar_masses.compute_matching_coeffs_up(nf)
        dn = msbar_masses.compute_matching_coeffs_down(nf)
        st["calls"] += 2
        st["nontrivial"] = bool(np.any(up != 0))
        _check_product(res, "msbar_masses.matching_coeffs/product", up, dn, f"MSbar mass decoupling nf={nf}", st)
    return _finish(res, st, f"tables.{case['what']}")


def _ome_dispatch(case):
    """The member that reaches build_ome in a real run comes from
    operator_matrix_element.matching_method(InversionMethod(s)); build_ome dispatches on object identity, so the
    chain must hand over the very members build_ome compares with.  One non-commuting integer triple, a_s = 1."""
    qk = _qk()
    from eko.evolution_operator import operator_matrix_element as om
    from eko.io.types import InversionMethod

    res, st = Result(), _stats()
    A = np.ascontiguousarray(
        np.array([[[1, 2], [0, 1]], [[0, 1], [3, 1]], [[2, 0], [1, 1]]], dtype=np.complex128)
    )
    a = 1.0
    eye = np.eye(2)
    F = eye + a * A[0] + a**2 * A[1] + a**3 * A[2]
    # expanded inverse of F through a^3, written from the geometric series of X = a A1 + a^2 A2 + a^3 A3
    Bx = eye - a * A[0] + a**2 * (A[0] @ A[0] - A[1]) + a**3 * (-A[2] + A[0] @ A[1] + A[1] @ A[0] - A[0] @ A[0] @ A[0])
    want = {None: ("FORWARD", F), "exact": ("BACKWARD_EXACT", np.linalg.inv(F)), "expanded": ("BACKWARD_EXPANDED", Bx)}
    for sname, (mname, W) in want.items():
        try:
            m = om.matching_method(InversionMethod(sname) if sname is not None else None)
            got = qk.build_ome(A, (3, 0), a, m)
        except Exception as e:  # noqa
            res.fail(f"matching_method->build_ome/{mname}/raises", f"inversion method {sname!r}: {type(e).__name__}: {e}")
            continue
        st["calls"] += 1
        st["nontrivial"] = True
        dev = float(np.abs(got - W).max() / np.abs(W).max())
        st["max_rel_dispatch"] = max(st.get("max_rel_dispatch", 0.0), dev)
        if not dev <= TOL_EXACT:
            res.fail(
                f"matching_method->build_ome/{mname}",
                f"inversion method {sname!r} -> {m!r}: build_ome returned {got.tolist()} instead of the {mname} operator {W.tolist()}",
            )
    return _finish(res, st, "ome.dispatch")


PARTS = {
    "ome.dispatch": _ome_dispatch,
    "ome.lattice": _ome_lattice,
    "ome.dim3": _ome_dim3,
    "ome.complex": _ome_complex,
    "invert.symbolic": _invert_symbolic,
    "tables": _tables,
}


def evaluate(case):
    return PARTS[case["part"]](case)


def _c(z):
    return {"re": float(np.real(z)), "im": float(np.imag(z))}


def cases_for(tier):
    th = tier == "thorough"
    cases = [{"part": "ome.lattice", "n": 0, "a1": 0, "a2": 0}, {"part": "ome.lattice", "n": 1, "a1": 0, "a2": 0}]
    cases += [{"part": "ome.lattice", "n": 2, "a1": i, "a2": 0} for i in range(16)]
    cases += [{"part": "ome.lattice", "n": 3, "a1": i, "a2": j} for i in range(16) for j in range(16)]
    s0 = [0, 1, 4, 16, 64, 85, 27, 228, 114, 201, 255] + ([i for i in range(2, 256, 23)] if th else [])
    s1 = [0, 2, 4, 15, 9] + ([1, 8, 6] if th else [])
    s2 = [0, 8, 15] + ([1, 2, 4] if th else [])
    for n in range(4):
        cases.append({"part": "ome.dim3", "n": n, "seeds0": s0, "seeds1": s1, "seeds2": s2})
    Ns = [_c(2.5), _c(1.5 + 2.0j), _c(6.3 - 3.0j), _c(1.2 + 1.0j)] + ([_c(4.4), _c(0.5 + 8.0j), _c(20.0 - 15.0j)] if th else [])
    Ls = [0.0, math.log(2.0)] + ([-math.log(2.0), math.log(10.0)] if th else [])
    nfs = [3, 4, 5] if th else [3, 5]
    a_s = [0.01, 0.03, 0.08]
    for fam in ("us.singlet", "us.ns", "ps.singlet", "ut.singlet"):
        for N in Ns:
            cases.append({"part": "ome.complex", "family": fam, "N": [N], "Lmh": Ls, "nfs": nfs, "as": a_s})
    cases.append({"part": "ome.complex", "family": "synthetic", "as": a_s + [1.0]})
    cases.append({"part": "ome.dispatch"})
    for c11 in range(4):
        cases.append({"part": "invert.symbolic", "c11": c11})
    for nf in (3, 4, 5):
        for scheme in ("POLE", "MSBAR"):
            cases.append({"part": "tables", "what": "coupling", "scheme": scheme, "nf": nf})
        cases.append({"part": "tables", "what": "mass", "nf": nf})
    return cases


def run(ctx):
    cases = cases_for(ctx.tier)
    results = ctx.run_cases(cases, evaluate, chunksize=1)
    calls = sum((r[1][3] or {}).get("calls", 0) for r in results)
    ctx.extra.update(function_evaluations=int(calls))
    ctx.rule = (
        "build_ome FORWARD and BACKWARD_EXPANDED on the complete product A1 in {0,1,2,3}^(2x2) (256) x A2 in {0,1}^(2x2) "
        "(16) x A3 in {0,1}^(2x2) (16) for matching orders 0-3 (only the matrices an order uses are varied), each at "
        "a_s in {0,+-1,+-2,3} (+ validation node -3): exact extraction of the a_s-coefficients and exact test of "
        "sum F_i B_(k-i) = sum B_i F_(k-i) = delta_k0 for k <= order, the FORWARD coefficients themselves pinned to "
        "(1, A_1..A_n, 0..) and BACKWARD_EXACT at a_s = 1/8 as two-sided inverse on every lattice point; explicit 3x3 integer "
        "triples (same oracles); dispatch of the three inversion methods through matching_method(InversionMethod); BACKWARD_EXACT as "
        "two-sided inverse (1e-12 x cond) and float series inverse on the real ekore matching matrices "
        "(unpolarised singlet/non-singlet to a_s^3, polarised to a_s^2, time-like to a_s^1) at listed complex N, L, nf "
        "and on a synthetic complex family; invert_matching_coeffs on c11 in {0,1,2,3} x {0,1}^7 (exact) and on the "
        "POLE/MSBAR coupling tables (nf 3-5, truncations 1-4) and MSbar mass tables (nf 3-5). "
        "Non-trivial = at least one non-zero coefficient beyond the identity."
    )
    ctx.assumptions += [
        "build_ome is polynomial in a_s (degree <= 5, validated on a 7th node) and in the matrix entries with degrees "
        "<= 3 (A1), 1 (A2), 1 (A3) as read off the source; with degree+1 lattice points per entry the identity holds "
        "for all 2x2 matrices and, by Amitsur-Levitzki (no identity of degree < 4 on M2), in the free algebra",
        "forward operator pinned: its exactly extracted coefficients must be 1, A_1..A_n, 0 beyond the matching order "
        "(floats: value at a_s = 1); terms of the expanded inverse beyond the matching order are not constrained (the "
        "statement allows them)",
        "build_ome dispatches on object identity of the MatchingMethods member; the members are obtained once through the "
        "real chain matching_method(InversionMethod(s)); an int or a foreign enum is outside build_ome's documented argument type",
        "coupling decoupling is compositional (a' = g(a)), mass decoupling multiplicative at the same a (as in "
        "msbar_masses.evolve); c[1,0] = 0 as documented in invert_matching_coeffs",
        "literature values of the tables are not part of this property (C16/C18)",
        "interpreted mode only",
    ]
