"""C09 singlet solutions reduce to the non-singlet ones for diagonal anomalous-dimension towers.

Complete product  method (8) x order 2-4 x nf 3-6 x diagonal tower (4) x ordered coupling pairs.
The oracle is the *other* code path (non_singlet.dispatcher applied to each diagonal entry); no formula
of mine enters.  Closed-form methods must agree to rounding, the discretised / series methods within
their own, self-measured, discretisation / truncation error.
"""

import numpy as np

from vf.core.ctx import Result

ID = "C09"
LEVEL = "exploration"
TECHNIQUE = "exhaustive lattice; differential comparison of the singlet and non-singlet code paths on diagonal towers"
LEVEL_TEXT = (
    "on every point of the finite lattice (8 methods, order 2-4, nf 3-6, 4 diagonal complex towers with distinct "
    "entries, all ordered pairs of the 5-value coupling lattice) the singlet operator is diagonal and its entries "
    "equal the non-singlet kernel of the corresponding strategy: to 1e-12 for truncated / decompose, within 10x the "
    "self-estimated discretisation (iterations 30/60/120) or truncation (ev_op_max_order 10/20/40) error otherwise"
)
LEVEL_NOTE = (
    "no independent reference: both sides are eko code (C07/C08 tie the non-singlet side to the ODE); correspondence of "
    "strategies taken from doc/source/theory/DGLAP.rst: singlet ordered-truncated = truncated expansion, singlet "
    "iterate-expanded = iterate-exact = discretised exact solution"
)
FLOOR_NONTRIVIAL = 50

TOL_ROUND = 1e-12
TOL_OFFDIAG = 1e-14
LA = [0.002, 0.005, 0.0125, 0.03, 0.05]
LA_THOROUGH = [0.002, 0.003, 0.005, 0.008, 0.0125, 0.02, 0.03, 0.04, 0.05]
NFS = [3, 4, 5, 6]
ITERS = (30, 60, 120)
MAXORD = (10, 20, 40)

T = [
    [0.8, 7.5, 61.0, 880.0],
    [-0.45, 9.1, -83.0, 410.0],
    [0.6 + 0.3j, -4.2 + 6.1j, 55.0 - 38.0j, -320.0 + 710.0j],
    [-0.2 - 0.9j, 8.8 - 1.7j, -12.0 + 95.0j, 640.0 + 120.0j],
    [0.0, 3.3 - 2.2j, -47.0 + 21.0j, 150.0 - 930.0j],
    [-1.0, 10.0j, -100.0, 1000.0j],
]
# pairs of scalar towers forming diag(g1_k, g2_k); entries differ at every order
DIAG = [(0, 1), (2, 3), (4, 5), (1, 2)]

DEC = {2: "nlo", 3: "nnlo", 4: "n3lo"}


def _kernel_name(mname, o):
    if mname in ("TRUNCATED", "ORDERED_TRUNCATED"):
        return "eko_truncated"
    if mname.startswith("ITERATE"):
        return "eko_iterate"
    if mname == "PERTURBATIVE_EXACT":
        return "eko_perturbative/exact"
    if mname == "PERTURBATIVE_EXPANDED":
        return "eko_perturbative/expanded"
    return f"{DEC[o]}_decompose_{mname.split('_')[1].lower()}"


def evaluate(case):
    from eko.kernels import EvoMethods as M
    from eko.kernels import non_singlet as ns
    from eko.kernels import singlet as s

    res = Result()
    o = case["order"]
    nf = case["nf"]
    a0 = case["a0"]
    i1, i2 = DIAG[case["tower"]]
    g1 = np.array(T[i1][:o], dtype=np.complex128)
    g2 = np.array(T[i2][:o], dtype=np.complex128)
    G = np.zeros((o, 2, 2), dtype=np.complex128)
    G[:, 0, 0] = g1
    G[:, 1, 1] = g2
    # singlet method -> non-singlet strategy it corresponds to (DGLAP.rst)
    partner = {
        M.TRUNCATED: M.TRUNCATED,
        M.ORDERED_TRUNCATED: M.TRUNCATED,
        M.DECOMPOSE_EXACT: M.DECOMPOSE_EXACT,
        M.DECOMPOSE_EXPANDED: M.DECOMPOSE_EXPANDED,
        M.ITERATE_EXACT: M.ITERATE_EXACT,
        M.ITERATE_EXPANDED: M.ITERATE_EXACT,
        M.PERTURBATIVE_EXACT: M.PERTURBATIVE_EXACT,
        M.PERTURBATIVE_EXPANDED: M.PERTURBATIVE_EXPANDED,
    }
    mx = {"max_dev_rounding_methods": 0.0, "max_dev_rounding_methods_passing": 0.0, "max_offdiag": 0.0, "max_ratio_iterate": 0.0, "max_ratio_perturbative": 0.0,
          "max_dev_ot_vs_ns_ordered_truncated": 0.0, "max_dev_iterate_expanded_vs_ns_expanded": 0.0}
    npts = 0
    for a1 in case["a1s"]:
        if a1 == a0:
            continue
        for meth in M:
            kn = _kernel_name(meth.name, o)
            sig = f"singlet.{kn}/order={o}"
            where = f"method={meth.name} nf={nf} tower=diag(T{i1},T{i2}) a0={a0} a1={a1}"
            try:
                nsv = np.array(
                    [complex(ns.dispatcher((o, 0), partner[meth], g, a1, a0, nf)) for g in (g1, g2)]
                )
                if meth in (M.ITERATE_EXACT, M.ITERATE_EXPANDED):
                    runs = [s.dispatcher((o, 0), meth, G.copy(), a1, a0, nf, it, (10, 0)) for it in ITERS]
                elif meth in (M.PERTURBATIVE_EXACT, M.PERTURBATIVE_EXPANDED):
                    runs = [s.dispatcher((o, 0), meth, G.copy(), a1, a0, nf, 1, (mo, 0)) for mo in MAXORD]
                    # the number of steps must not matter beyond the same accuracy
                    extra = np.array(s.dispatcher((o, 0), meth, G.copy(), a1, a0, nf, 4, (MAXORD[-1], 0)), dtype=np.complex128)
                else:
                    runs = [s.dispatcher((o, 0), meth, G.copy(), a1, a0, nf, 1, (10, 0))]
                runs = [np.array(r, dtype=np.complex128) for r in runs]
            except Exception as ex:  # noqa
                res.fail(sig + "/raises", f"{type(ex).__name__}: {ex} {where}")
                continue
            npts += 1
            last = runs[-1]
            if last.shape != (2, 2) or not np.all(np.isfinite(last)):
                res.fail(sig + "/nonfinite", f"{where}: singlet={last.tolist()}")
                continue
            off = max(abs(r[0, 1]) + 0.0 for r in runs), max(abs(r[1, 0]) for r in runs)
            mx["max_offdiag"] = max(mx["max_offdiag"], *off)
            if max(off) > TOL_OFFDIAG:
                res.fail(sig + "/offdiag", f"{where}: off-diagonal entries {last[0,1]!r}, {last[1,0]!r} of a diagonal problem")
            diag = [np.array([r[0, 0], r[1, 1]]) for r in runs]
            err = [float(np.max(np.abs(d - nsv) / np.abs(nsv))) for d in diag]
            if len(runs) == 1:
                mx["max_dev_rounding_methods"] = max(mx["max_dev_rounding_methods"], err[0])
                if err[0] <= TOL_ROUND:
                    mx["max_dev_rounding_methods_passing"] = max(mx["max_dev_rounding_methods_passing"], err[0])
                if not err[0] <= TOL_ROUND:
                    res.fail(sig, f"{where}: singlet diagonal={diag[0].tolist()} non-singlet({partner[meth].name})={nsv.tolist()} rel.dev={err[0]:.3e} (tol {TOL_ROUND})")
            else:
                # self-estimated discretisation/truncation error: change under the last refinement
                change = float(np.max(np.abs(diag[-1] - diag[-2]) / np.abs(nsv)))
                bound = (10.0 / 3.0 if meth.name.startswith("ITERATE") else 10.0) * change + TOL_ROUND
                key = "max_ratio_iterate" if meth.name.startswith("ITERATE") else "max_ratio_perturbative"
                mx[key] = max(mx[key], err[-1] / bound)
                if meth.name.startswith("PERTURBATIVE"):
                    err_x = float(np.max(np.abs(np.array([extra[0, 0], extra[1, 1]]) - nsv) / np.abs(nsv)))
                    offx = max(abs(extra[0, 1]), abs(extra[1, 0]))
                    mx[key] = max(mx[key], err_x / bound)
                    if not (err_x <= bound and offx <= TOL_OFFDIAG):
                        res.fail(sig + "/iterations=4", f"{where}: with 4 steps and ev_op_max_order={MAXORD[-1]} distance to non-singlet {err_x:.3e} (bound {bound:.3e}), off-diagonal {offx:.3e}")
                if not err[-1] <= bound:
                    res.fail(
                        sig,
                        f"{where}: distance to non-singlet({partner[meth].name}) under refinement {ITERS if 'ITER' in meth.name else MAXORD} = "
                        f"{['%.3e' % e for e in err]}, last change {change:.3e}: not within the discretisation/truncation accuracy",
                    )
            # literal 'same method' partners that the documentation does not promise: recorded, not judged
            if meth == M.ORDERED_TRUNCATED:
                v = np.array([complex(ns.dispatcher((o, 0), M.ORDERED_TRUNCATED, g, a1, a0, nf)) for g in (g1, g2)])
                mx["max_dev_ot_vs_ns_ordered_truncated"] = max(
                    mx["max_dev_ot_vs_ns_ordered_truncated"], float(np.max(np.abs(diag[0] - v) / np.abs(v)))
                )
            if meth == M.ITERATE_EXPANDED:
                v = np.array([complex(ns.dispatcher((o, 0), M.ITERATE_EXPANDED, g, a1, a0, nf)) for g in (g1, g2)])
                mx["max_dev_iterate_expanded_vs_ns_expanded"] = max(
                    mx["max_dev_iterate_expanded_vs_ns_expanded"], float(np.max(np.abs(diag[-1] - v) / np.abs(v)))
                )
    mx["points"] = npts
    res.info = mx
    res.outcome = "agree" if not res.fails else "DISAGREE:" + ",".join(sorted({f.signature.split(".")[1] for f in res.fails}))[:150]
    res.nontrivial = npts > 0
    return res


def run(ctx):
    la = LA_THOROUGH if ctx.thorough() else LA
    cases = []
    for o in (2, 3, 4):
        for nf in NFS:
            for t in range(len(DIAG)):
                for a0 in la:
                    cases.append({"order": o, "nf": nf, "tower": t, "a0": a0, "a1s": la})
    results = ctx.run_cases(cases, evaluate)
    ctx.extra.update(points_compared=sum((r[1][3] or {}).get("points", 0) for r in results))
    ctx.rule = (
        f"complete product: 8 methods x order 2-4 x nf 3-6 x 4 diagonal complex towers (entries distinct at every order; one "
        f"with gamma_0 entry 0) x all ordered pairs a0 != a1 of {la}; iterate methods at 30/60/120 iterations, perturbative "
        "methods at ev_op_max_order 10/20/40 with 1 step and at 40 with 4 steps; a case = (order, nf, tower, a0) with all its a1 and methods; non-trivial = all"
    )
    ctx.assumptions += [
        "correspondence of strategies as documented in DGLAP.rst: singlet ordered-truncated uses the truncated expansion (so it "
        "is compared with non-singlet 'truncated'; its distance to non-singlet 'ordered-truncated' is O(a^n) by construction and is "
        "recorded as max_dev_ot_vs_ns_ordered_truncated, not judged); singlet iterate-expanded is the same discretised exact "
        "solution as iterate-exact (compared with the non-singlet exact kernel; distance to non-singlet 'expanded' recorded only)",
        "'within discretisation/truncation accuracy' := distance to the non-singlet value at the finest setting <= 10 x the "
        "Richardson self-estimate (change under the last refinement; /3 for the second-order iterate) + 1e-12",
        "a1 == a0 is left to C10; interpreted mode (NUMBA_DISABLE_JIT=1)",
    ]
