"""C09 singlet solutions reduce to the non-singlet ones for diagonal anomalous-dimension towers.

Complete product  method (8) x order 2-4 x nf 3-6 x diagonal tower (4) x ordered coupling pairs.
The oracle is the *other* code path (non_singlet.dispatcher applied to each diagonal entry); no formula
of mine enters.  Closed-form methods must agree to rounding, the discretised / series methods within
their own, self-measured, discretisation / truncation error; the iterated methods in addition within the
accuracy of the documented second-order scheme (absolute cap at 120 steps, error ratio 120 vs 60 steps).

Resonant towers (LO entries 0 and k*beta0, k = 1, 2: distinct eigenvalues, hence inside the quantifier):
singlet.u_vec divides 0 by 0 there; recorded defect `singlet.u_vec/diagonal-resonance/nonfinite`, pinned by a model
(_matches_known_resonance) so that any other failure on these towers keeps its own signature.
"""

from fractions import Fraction

import numpy as np

from vf.core.ctx import Result

ID = "C09"
LEVEL = "exploration"
TECHNIQUE = "exhaustive lattice; differential comparison of the singlet and non-singlet code paths on diagonal towers"
LEVEL_TEXT = (
    "on every point of the finite lattice (8 methods, order 2-4, nf 3-6, 4 diagonal complex towers with distinct "
    "entries, all ordered pairs of the 5-value coupling lattice) the singlet operator is diagonal and its entries "
    "equal the non-singlet kernel of the corresponding strategy: to 1e-13 for truncated / decompose, within 10x the "
    "self-estimated discretisation (iterations 30/60/120) or truncation (ev_op_max_order 10/20/40) error otherwise; the "
    "iterated kernels are moreover within 1e-3 at 120 steps and converge with second order (error ratio <= 1/3 per halving); "
    "on the 24 resonant diagonal towers (gamma_0 = diag(0, k beta0), k = 1, 2) every method whose U-matrices do not reach "
    "U_k agrees likewise, the others are the recorded 0/0 defect of u_vec"
)
LEVEL_NOTE = (
    "no independent reference: both sides are eko code (C07/C08 tie the non-singlet side to the ODE); correspondence of "
    "strategies taken from doc/source/theory/DGLAP.rst: singlet ordered-truncated = truncated expansion, singlet "
    "iterate-expanded = iterate-exact = discretised exact solution"
)
FLOOR_NONTRIVIAL = 50

TOL_ROUND = 1e-13  # measured maximum 8.6e-16
TOL_OFFDIAG = 1e-14
LA = [0.002, 0.005, 0.0125, 0.03, 0.05]
LA_THOROUGH = [0.002, 0.003, 0.005, 0.008, 0.0125, 0.02, 0.03, 0.04, 0.05]
NFS = [3, 4, 5, 6]
ITERS = (30, 60, 120)
MAXORD = (10, 20, 40)

T = [
    [0.8, 7.5, 61.0, 880.0],
    [-0.45, 9.1, -83.0, 410.0],
    [0.6 + 0.3j, -4.2 + 6.1j, 55.0 - 38.0j, -320.0 + 710.0j],
    [-0.2 - 0.9j, 8.8 - 1.7j, -12.0 + 95.0j, 640.0 + 120.0j],
    [0.0, 3.3 - 2.2j, -47.0 + 21.0j, 150.0 - 930.0j],
    [-1.0, 10.0j, -100.0, 1000.0j],
]
# pairs of scalar towers forming diag(g1_k, g2_k); entries differ at every order
DIAG = [(0, 1), (2, 3), (4, 5), (1, 2)]
# resonant diagonal towers: diag(T0, T1) with the LO entries replaced by (0, k * beta0(nf)), i.e. the two
# eigenvalues of R0 = gamma_0/beta_0 are 0 and k (distinct!).  beta0 = 11 - 2 nf / 3 typed here, not taken from eko.
RES_K = (1, 2)
RES_A0 = 0.0125
ITER_CAP = 1e-3  # absolute cap on the distance iterate <-> non-singlet exact at 120 iterations (measured maximum 7.1e-5)
ITER_ORDER_RATIO = 1.0 / 3.0  # err(120)/err(60) of a second-order scheme is 1/4, of a first-order one 1/2
ITER_ORDER_FLOOR = 1e-10  # below this the distance at 120 iterations is rounding dominated


def _beta0(nf):
    return float(Fraction(33 - 2 * nf, 3))


def _n_umatrices(mname, o, maxord):
    """number of U_k (k >= 1) the kernel computes: k = 1 .. this number"""
    if mname in ("TRUNCATED", "ORDERED_TRUNCATED"):
        return o - 1
    if mname.startswith("PERTURBATIVE"):
        return maxord - 1
    return 0

DEC = {2: "nlo", 3: "nnlo", 4: "n3lo"}


def _matches_known_resonance(s, mname, o, nf, G, k, runs):
    """Model of the recorded defect (0/0 in singlet.u_vec at r_p - r_m = k on a commuting tower): the kernel computes U_k,
    u_vec returns finite U_j for j < k and all-NaN U_j for j >= k, and every run of the kernel is an all-NaN 2x2 matrix.
    Anything else that is non-finite on these towers is a different defect and keeps the generic signature."""
    from eko import beta

    nu = _n_umatrices(mname, o, MAXORD[-1])
    if not 1 <= k <= nu:
        return False
    if not all(r.shape == (2, 2) and np.all(np.isnan(r.real)) and np.all(np.isnan(r.imag)) for r in runs):
        return False
    betalist = [beta.beta_qcd((2 + i, 0), nf) for i in range(o)]
    mo = o if mname in ("TRUNCATED", "ORDERED_TRUNCATED") else MAXORD[-1]
    try:
        with np.errstate(invalid="ignore", divide="ignore"):
            r = s.r_vec(G.copy(), betalist, (mo, 0), (o, 0), mname == "PERTURBATIVE_EXACT")
            u = np.array(s.u_vec(r, (mo, 0)))
    except Exception:  # noqa
        return False
    return bool(np.all(np.isfinite(r)) and np.all(np.isfinite(u[:k])) and np.all(np.isnan(u[k:].real)) and np.all(np.isnan(u[k:].imag)))


def _kernel_name(mname, o):
    if mname in ("TRUNCATED", "ORDERED_TRUNCATED"):
        return "eko_truncated"
    if mname.startswith("ITERATE"):
        return "eko_iterate"
    if mname == "PERTURBATIVE_EXACT":
        return "eko_perturbative/exact"
    if mname == "PERTURBATIVE_EXPANDED":
        return "eko_perturbative/expanded"
    return f"{DEC[o]}_decompose_{mname.split('_')[1].lower()}"


def evaluate(case):
    from eko.kernels import EvoMethods as M
    from eko.kernels import non_singlet as ns
    from eko.kernels import singlet as s

    res = Result()
    o = case["order"]
    nf = case["nf"]
    a0 = case["a0"]
    res_k = case.get("res_k")
    if res_k is None:
        i1, i2 = DIAG[case["tower"]]
        g1 = np.array(T[i1][:o], dtype=np.complex128)
        g2 = np.array(T[i2][:o], dtype=np.complex128)
        tname = f"diag(T{i1},T{i2})"
    else:
        i1, i2 = 0, 1
        g1 = np.array(T[i1][:o], dtype=np.complex128)
        g2 = np.array(T[i2][:o], dtype=np.complex128)
        g1[0] = 0.0
        g2[0] = res_k * _beta0(nf)
        tname = f"diag(T0,T1) with LO entries (0, {res_k}*beta0={float(g2[0].real)!r})"
    G = np.zeros((o, 2, 2), dtype=np.complex128)
    G[:, 0, 0] = g1
    G[:, 1, 1] = g2
    # singlet method -> non-singlet strategy it corresponds to (DGLAP.rst)
    partner = {
        M.TRUNCATED: M.TRUNCATED,
        M.ORDERED_TRUNCATED: M.TRUNCATED,
        M.DECOMPOSE_EXACT: M.DECOMPOSE_EXACT,
        M.DECOMPOSE_EXPANDED: M.DECOMPOSE_EXPANDED,
        M.ITERATE_EXACT: M.ITERATE_EXACT,
        M.ITERATE_EXPANDED: M.ITERATE_EXACT,
        M.PERTURBATIVE_EXACT: M.PERTURBATIVE_EXACT,
        M.PERTURBATIVE_EXPANDED: M.PERTURBATIVE_EXPANDED,
    }
    mx = {"max_dev_rounding_methods": 0.0, "max_dev_rounding_methods_passing": 0.0, "max_offdiag": 0.0, "max_ratio_iterate": 0.0, "max_ratio_perturbative": 0.0,
          "max_dev_ot_vs_ns_ordered_truncated": 0.0, "max_dev_iterate_expanded_vs_ns_expanded": 0.0,
          "max_iterate_distance_at_120": 0.0, "max_iterate_err120_over_err60": 0.0}
    npts = 0
    nres_nan = 0
    for a1 in case["a1s"]:
        if a1 == a0:
            continue
        for meth in M:
            kn = _kernel_name(meth.name, o)
            sig = f"singlet.{kn}/order={o}"
            where = f"method={meth.name} nf={nf} tower={tname} a0={a0} a1={a1}"
            quiet = "ignore" if res_k is not None else "warn"  # resonant towers: 0/0 inside u_vec is the expected observation
            try:
                with np.errstate(invalid=quiet, divide=quiet):
                    nsv = np.array(
                        [complex(ns.dispatcher((o, 0), partner[meth], g, a1, a0, nf)) for g in (g1, g2)]
                    )
                    if meth in (M.ITERATE_EXACT, M.ITERATE_EXPANDED):
                        runs = [s.dispatcher((o, 0), meth, G.copy(), a1, a0, nf, it, (10, 0)) for it in ITERS]
                    elif meth in (M.PERTURBATIVE_EXACT, M.PERTURBATIVE_EXPANDED):
                        runs = [s.dispatcher((o, 0), meth, G.copy(), a1, a0, nf, 1, (mo, 0)) for mo in MAXORD]
                        # the number of steps must not matter beyond the same accuracy
                        extra = np.array(s.dispatcher((o, 0), meth, G.copy(), a1, a0, nf, 4, (MAXORD[-1], 0)), dtype=np.complex128)
                    else:
                        runs = [s.dispatcher((o, 0), meth, G.copy(), a1, a0, nf, 1, (10, 0))]
                    runs = [np.array(r, dtype=np.complex128) for r in runs]
            except Exception as ex:  # noqa
                res.fail(sig + "/raises", f"{type(ex).__name__}: {ex} {where}")
                continue
            npts += 1
            last = runs[-1]
            if last.shape != (2, 2) or not np.all(np.isfinite(last)):
                if res_k is not None and np.all(np.isfinite(nsv)) and _matches_known_resonance(s, meth.name, o, nf, G, res_k, runs):
                    # the documented wrong behaviour at a resonance r_p - r_m = k of a U_k that is computed: 0/0 in u_vec.
                    # One defect = one signature; anything else that is non-finite keeps the generic signature below.
                    nres_nan += 1
                    res.fail(
                        "singlet.u_vec/diagonal-resonance/nonfinite",
                        f"{where}: LO eigenvalues of gamma_0/beta_0 differ by exactly k={res_k} (distinct), kernel {kn} computes U_1..U_{_n_umatrices(meth.name, o, MAXORD[-1])}: "
                        f"singlet={last.tolist()} but non-singlet({partner[meth].name}) on the entries is finite: {nsv.tolist()}",
                    )
                    continue
                res.fail(sig + "/nonfinite", f"{where}: singlet={last.tolist()}")
                continue
            off = max(abs(r[0, 1]) + 0.0 for r in runs), max(abs(r[1, 0]) for r in runs)
            mx["max_offdiag"] = max(mx["max_offdiag"], *off)
            if max(off) > TOL_OFFDIAG:
                res.fail(sig + "/offdiag", f"{where}: off-diagonal entries {last[0,1]!r}, {last[1,0]!r} of a diagonal problem")
            diag = [np.array([r[0, 0], r[1, 1]]) for r in runs]
            err = [float(np.max(np.abs(d - nsv) / np.abs(nsv))) for d in diag]
            if len(runs) == 1:
                mx["max_dev_rounding_methods"] = max(mx["max_dev_rounding_methods"], err[0])
                if err[0] <= TOL_ROUND:
                    mx["max_dev_rounding_methods_passing"] = max(mx["max_dev_rounding_methods_passing"], err[0])
                if not err[0] <= TOL_ROUND:
                    res.fail(sig, f"{where}: singlet diagonal={diag[0].tolist()} non-singlet({partner[meth].name})={nsv.tolist()} rel.dev={err[0]:.3e} (tol {TOL_ROUND})")
            else:
                # self-estimated discretisation/truncation error: change under the last refinement
                change = float(np.max(np.abs(diag[-1] - diag[-2]) / np.abs(nsv)))
                bound = (10.0 / 3.0 if meth.name.startswith("ITERATE") else 10.0) * change + TOL_ROUND
                key = "max_ratio_iterate" if meth.name.startswith("ITERATE") else "max_ratio_perturbative"
                mx[key] = max(mx[key], err[-1] / bound)
                if meth.name.startswith("PERTURBATIVE"):
                    err_x = float(np.max(np.abs(np.array([extra[0, 0], extra[1, 1]]) - nsv) / np.abs(nsv)))
                    offx = max(abs(extra[0, 1]), abs(extra[1, 0]))
                    mx[key] = max(mx[key], err_x / bound)
                    if not (err_x <= bound and offx <= TOL_OFFDIAG):
                        res.fail(sig + "/iterations=4", f"{where}: with 4 steps and ev_op_max_order={MAXORD[-1]} distance to non-singlet {err_x:.3e} (bound {bound:.3e}), off-diagonal {offx:.3e}")
                if meth.name.startswith("ITERATE"):
                    # 'within their discretisation accuracy': the documented scheme (midpoint rule on a geometric grid) is of
                    # second order and reaches ~3e-5 at 120 steps on this lattice; a self-calibrated bound alone would accept
                    # any convergent scheme of any order
                    mx["max_iterate_distance_at_120"] = max(mx["max_iterate_distance_at_120"], err[-1])
                    if not err[-1] <= ITER_CAP:
                        res.fail(sig + "/accuracy-cap", f"{where}: distance to non-singlet({partner[meth].name}) at {ITERS[-1]} iterations {err[-1]:.3e} > {ITER_CAP}")
                    if err[-1] > ITER_ORDER_FLOOR:
                        ratio = err[-1] / err[-2]
                        mx["max_iterate_err120_over_err60"] = max(mx["max_iterate_err120_over_err60"], ratio)
                        if not ratio <= ITER_ORDER_RATIO:
                            res.fail(
                                sig + "/convergence-order",
                                f"{where}: distance to non-singlet({partner[meth].name}) at {ITERS} iterations = {['%.3e' % e for e in err]}: "
                                f"halving the step reduces it by {1/ratio:.2f} only (second order: 4)",
                            )
                if not err[-1] <= bound:
                    res.fail(
                        sig,
                        f"{where}: distance to non-singlet({partner[meth].name}) under refinement {ITERS if 'ITER' in meth.name else MAXORD} = "
                        f"{['%.3e' % e for e in err]}, last change {change:.3e}: not within the discretisation/truncation accuracy",
                    )
            # literal 'same method' partners that the documentation does not promise: recorded, not judged
            if meth == M.ORDERED_TRUNCATED:
                v = np.array([complex(ns.dispatcher((o, 0), M.ORDERED_TRUNCATED, g, a1, a0, nf)) for g in (g1, g2)])
                mx["max_dev_ot_vs_ns_ordered_truncated"] = max(
                    mx["max_dev_ot_vs_ns_ordered_truncated"], float(np.max(np.abs(diag[0] - v) / np.abs(v)))
                )
            if meth == M.ITERATE_EXPANDED:
                v = np.array([complex(ns.dispatcher((o, 0), M.ITERATE_EXPANDED, g, a1, a0, nf)) for g in (g1, g2)])
                mx["max_dev_iterate_expanded_vs_ns_expanded"] = max(
                    mx["max_dev_iterate_expanded_vs_ns_expanded"], float(np.max(np.abs(diag[-1] - v) / np.abs(v)))
                )
    mx["points"] = npts
    mx["resonant_nonfinite"] = nres_nan
    res.info = mx
    res.outcome = ("agree" if res_k is None else f"resonant-k={res_k}:agree") if not res.fails else "DISAGREE:" + ",".join(sorted({f.signature.split(".")[1] for f in res.fails}))[:150]
    res.nontrivial = npts > 0
    return res


def run(ctx):
    la = LA_THOROUGH if ctx.thorough() else LA
    cases = []
    for o in (2, 3, 4):
        for nf in NFS:
            for t in range(len(DIAG)):
                for a0 in la:
                    cases.append({"order": o, "nf": nf, "tower": t, "a0": a0, "a1s": la})
            for k in RES_K:
                cases.append({"order": o, "nf": nf, "tower": "res", "res_k": k, "a0": RES_A0, "a1s": la})
    results = ctx.run_cases(cases, evaluate)
    ctx.extra.update(points_compared=sum((r[1][3] or {}).get("points", 0) for r in results))
    ctx.rule = (
        f"complete product: 8 methods x order 2-4 x nf 3-6 x 4 diagonal complex towers (entries distinct at every order; one "
        f"with gamma_0 entry 0) x all ordered pairs a0 != a1 of {la}; iterate methods at 30/60/120 iterations, perturbative "
        "methods at ev_op_max_order 10/20/40 with 1 step and at 40 with 4 steps; a case = (order, nf, tower, a0) with all its a1 and methods; "
        f"plus resonant towers diag(T0, T1) with LO entries (0, k*beta0(nf)), k in {list(RES_K)}, order 2-4 x nf 3-6 at a0={RES_A0} with every a1 "
        "of the coupling lattice and all 8 methods; non-trivial = all"
    )
    ctx.assumptions += [
        "correspondence of strategies as documented in DGLAP.rst: singlet ordered-truncated uses the truncated expansion (so it "
        "is compared with non-singlet 'truncated'; its distance to non-singlet 'ordered-truncated' is O(a^n) by construction and is "
        "recorded as max_dev_ot_vs_ns_ordered_truncated, not judged); singlet iterate-expanded is the same discretised exact "
        "solution as iterate-exact (compared with the non-singlet exact kernel; distance to non-singlet 'expanded' recorded only)",
        "'within discretisation/truncation accuracy' := distance to the non-singlet value at the finest setting <= 10 x the "
        f"Richardson self-estimate (change under the last refinement; /3 for the second-order iterate) + {TOL_ROUND}; for the iterated "
        f"kernels also: distance at 120 iterations <= {ITER_CAP} (measured maximum 7.1e-5) and, where that distance exceeds {ITER_ORDER_FLOOR}, "
        "distance(120) / distance(60) <= 1/3 (the documented midpoint rule is of second order: measured 0.2501; a first-order scheme gives 1/2)",
        "resonant diagonal towers are inside the quantifier (their eigenvalues are distinct); the failure of the truncated / perturbative "
        "kernels there carries the signature singlet.u_vec/diagonal-resonance/nonfinite only if it matches the model: k <= number of "
        "U-matrices the kernel computes, u_vec finite below U_k and all-NaN from U_k on, kernel output all-NaN, non-singlet values finite",
        "a1 == a0 is left to C10; interpreted mode (NUMBA_DISABLE_JIT=1)",
    ]
