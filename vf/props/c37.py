"""C37 the EKO operator store is a persistent map under any history (X-hist).

Breadth-first search over operation histories on the real `eko.io.struct.EKO`, stepped in
lock-step with a dictionary reference model that is made persistent on close. After the last
operation of every history the complete visible content (keys, values, content after
close + re-read, there again key by key) is compared with the model.

The model is a plain dict; approximate lookup is modelled by the documented inequality
|q - k| <= atol + rtol |k| at equal nf, with the default or the passed tolerances. Where the
model says "an error", the documented class is demanded (see `_families`): a lookup error for an
absent key, ValueError for an ambiguous approximate lookup, ReadOnlyOperator for a write on a
read-only store.
"""

import math
import os
import shutil

import numpy as np

from vf.core import cards, hist
from vf.core.ctx import Result

ID = "C37"
LEVEL = "model_checking"
TECHNIQUE = "explicit-state BFS over operation histories on the real EKO store vs dictionary reference model"
LEVEL_TEXT = (
    "every operation history up to the depth bound over 3 keys x 3 values x 13 operation kinds is "
    "replayed on the real store; each observation (values, and for the three documented refusals -- absent key, "
    "ambiguous approximate lookup, write on a read-only store -- the documented error class) and the full visible + "
    "persisted content are compared with a persistent-dict model; approximate lookup is probed on both sides of its "
    "default tolerance and with caller-supplied rtol / atol; states deduplicated on (mode, model, disk files, cache flags)"
)
LEVEL_NOTE = "bounded depth (quick 3, thorough 5); keys/values limited to the alphabet; trusted: the 40-line dict model"
FLOOR_NONTRIVIAL = 50

K = [(10.0, 4), (10.0 * (1 + 2e-7), 4), (20.0, 5)]  # K1 lies within approx tolerance of K0
K.append((10, 4))  # K3: the point K0 spelled with an int scale - the same dictionary key
SAME_KEY = {3: 0}
QUERIES = [
    (10.0, 4),
    (10.0 * (1 + 6e-7), 4),
    (20.0, 4),
    (20.000001, 5),
    (10.0 * (1 + 3e-6), 4),  # outside the default tolerance (1e-6) of K0 and K1, inside NumPy's default (1e-5): always nothing
    (10.0 * (1 - 9e-7), 4),  # within 1e-6 of K0 (9e-7), outside 1e-6 of K1 (1.1e-6): unique even when both are stored
    (10.0, 5),  # the scale of K0 exactly, another nf: always nothing
]
# approximate lookups with tolerances passed by the caller: [query, rtol, atol]
TOL_QUERIES = [
    [(10.0 * (1 + 6e-7), 4), 1e-8, 0.0],  # the default tolerance would hit K0 and K1; this one hits nothing
    [(20.2, 5), 2e-2, 0.0],  # 1 % away from K2: hit only with the passed rtol
    [(10.0 + 5e-4, 4), 0.0, 1e-3],  # absolute tolerance only: K0 and K1 both within 1e-3
    [(10.0, 4), 1e-7, 0.0],  # K0 exactly; K1 (2e-7 away) is outside the passed rtol: unique even when both are stored
]
DEFAULT_RTOL, DEFAULT_ATOL = 1e-6, 1e-10  # EKO.approx signature


def _close(current, q, rtol, atol):
    """Keys of `current` within tolerance of q, from the documented inequality |q - k| <= atol + rtol |k| at equal nf."""
    return [k for k in current if K[k][1] == q[1] and abs(q[0] - K[k][0]) <= atol + rtol * abs(K[k][0])]


def _val(i):
    a = (np.arange(16, dtype=float).reshape(2, 2, 2, 2) + 1.0) * (i + 1) * 0.37
    if i == 0:
        return a, a * 1e-3
    if i == 1:
        return a + 0.5, None
    return -a, a * 2e-3


def alphabet():
    ops = []
    for k in range(3):
        for v in range(3):
            ops.append(["set", k, v])
    for k in range(3):
        ops.append(["get", k])
    for k in range(3):
        ops.append(["ctxget", k])  # `with eko.operator(ep) as op`: read, then dropped from memory
    for k in range(3):
        ops.append(["unload", k])
    for k in range(3):
        ops.append(["in", k])
    for q in range(len(QUERIES)):
        ops.append(["approx", q])
    ops += [["list"], ["items"], ["unload_all"], ["reopen", "ro"], ["reopen", "rw"]]
    # the int spelling of K0: stores and reads through it address the entry of K0
    ops += [["set", 3, 1], ["set", 3, 2], ["get", 3], ["unload", 3], ["in", 3]]
    for q in range(len(TOL_QUERIES)):
        ops.append(["approx_tol", q])
    # `del eko.operators` (how the runner flushes), close through the context manager, copy to another archive
    ops += [["del_operators"], ["reopen", "ro", "with"], ["reopen", "rw", "with"], ["deepcopy"]]
    return ops


class Model:
    def __init__(self):
        self.persisted = {}
        self.current = {}
        self.mode = "rw"

    def step(self, op):
        """Return expected observation."""
        if len(op) > 1 and op[0] in ("set", "get", "ctxget", "unload", "in") and op[1] in SAME_KEY:
            op = [op[0], SAME_KEY[op[1]]] + list(op[2:])
        kind = op[0]
        if kind == "set":
            if self.mode == "ro":
                return ("raises", "readonly")
            self.current[op[1]] = op[2]
            return ("ok",)
        if kind in ("get", "ctxget"):
            if op[1] in self.current:
                return ("value", self.current[op[1]])
            return ("raises", "absent")
        if kind in ("unload", "unload_all", "del_operators"):
            return ("any",)  # no visible effect; raising on an absent key would be acceptable too
        if kind == "in":
            return ("bool", op[1] in self.current)
        if kind in ("approx", "approx_tol"):
            if kind == "approx":
                q, rtol, atol = QUERIES[op[1]], DEFAULT_RTOL, DEFAULT_ATOL
            else:
                q, rtol, atol = TOL_QUERIES[op[1]]
            close = _close(self.current, q, rtol, atol)
            if len(close) == 1:
                return ("key", close[0])
            if not close:
                return ("none",)
            return ("raises", "ambiguous")
        if kind == "deepcopy":
            return ("copy", sorted(self.current), sorted(self.current.items()))
        if kind == "list":
            return ("keys", sorted(self.current))
        if kind == "items":
            return ("items", sorted(self.current.items()))
        if kind == "reopen":
            if self.mode == "rw":
                self.persisted = dict(self.current)
            self.current = dict(self.persisted)
            self.mode = op[1]
            return ("ok",)
        raise ValueError(op)


def _same(op, vid):
    a, e = _val(vid)
    if op is None:
        return False
    if op.operator.tobytes() != a.tobytes():
        return False
    if e is None:
        return op.error is None
    return op.error is not None and op.error.tobytes() == e.tobytes()


def _kidx(ep):
    for i, k in enumerate(K):
        if float(ep[0]) == k[0] and int(ep[1]) == k[1]:
            return i
    return ("?", float(ep[0]), int(ep[1]))


class Impl:
    def __init__(self, path):
        from eko.io.struct import EKO

        self.EKO = EKO
        self.path = path
        th, op = cards.build(dict(xgrid=[0.5, 1.0], mugrid=[[3.0, 4]]))
        self.builder = EKO.create(path)
        self.eko = self.builder.load_cards(th, op).build()

    def step(self, op):
        from eko.io.items import Operator

        kind = op[0]
        e = self.eko
        try:
            if kind == "set":
                a, err = _val(op[2])
                e[K[op[1]]] = Operator(a.copy(), None if err is None else err.copy())
                return ("ok",)
            if kind == "get":
                o = e[K[op[1]]]
                for vid in range(3):
                    if _same(o, vid):
                        return ("value", vid)
                return ("value", "unknown")
            if kind == "ctxget":
                with e.operator(K[op[1]]) as o:
                    for vid in range(3):
                        if _same(o, vid):
                            return ("value", vid)
                    return ("value", "unknown")
            if kind == "unload":
                del e[K[op[1]]]
                return ("any",)
            if kind == "unload_all":
                e.unload()
                return ("any",)
            if kind == "del_operators":
                del e.operators
                return ("any",)
            if kind == "approx_tol":
                q, rtol, atol = TOL_QUERIES[op[1]]
                r = e.approx(tuple(q), rtol=rtol, atol=atol)
                if r is None:
                    return ("none",)
                return ("key", _kidx(r))
            if kind == "deepcopy":
                p2 = self.path.with_name("copy-" + self.path.name)
                c = None
                try:
                    e.deepcopy(p2)
                    c = self.EKO.read(p2)
                    keys = sorted((_kidx(ep) for ep in c), key=str)
                    out = []
                    for ep, o in c.items():
                        vid = [v for v in range(3) if _same(o, v)]
                        out.append((_kidx(ep), vid[0] if vid else "unknown"))
                    return ("copy", keys, sorted(out, key=str))
                finally:
                    if c is not None:
                        c.close()
                    try:
                        os.unlink(p2)
                    except OSError:
                        pass
            if kind == "in":
                return ("bool", K[op[1]] in e)
            if kind == "approx":
                r = e.approx(QUERIES[op[1]])
                if r is None:
                    return ("none",)
                return ("key", _kidx(r))
            if kind == "list":
                keys = sorted(_kidx(ep) for ep in e)
                # the other spellings of "iterate the evolution points" must tell the same
                eps = [(float(s), int(n)) for s, n in e]
                if [(float(s), int(n)) for s, n in e.evolgrid] != eps or [float(m) for m in e.mu2grid] != [s for s, _ in eps]:
                    return ("keys-inconsistent", eps, list(e.evolgrid), list(e.mu2grid))
                return ("keys", keys)
            if kind == "items":
                out = []
                for ep, o in e.items():
                    vid = [v for v in range(3) if _same(o, v)]
                    out.append((_kidx(ep), vid[0] if vid else "unknown"))
                return ("items", sorted(out))
            if kind == "reopen":
                if len(op) > 2 and op[2] == "with":
                    with e:
                        pass
                else:
                    e.close()
                self.eko = self.EKO.read(self.path, readonly=(op[1] == "ro"))
                return ("ok",)
        except Exception as exc:  # noqa
            return ("raises", type(exc).__name__, str(exc)[:200], _families(exc))
        raise ValueError(op)

    def canon(self):
        e = self.eko
        d = e.paths.operators
        files = sorted(p.name for p in d.iterdir()) if d.exists() else []
        from eko.io.inventory import encode
        from eko.io.items import Target

        names = {encode(Target.from_ep(k)): i for i, k in enumerate(K)}
        disk = sorted(
            (names.get(f.split(".")[0], f.split(".")[0]), ".".join(f.split(".")[1:])) for f in files
        )
        cache = sorted((str(_kidx(t.ep)), v is not None) for t, v in e.operators.cache.items())
        return disk, cache

    def destroy(self):
        try:
            if self.eko.access.open:
                shutil.rmtree(self.eko.metadata.path, ignore_errors=True)
        except Exception:
            pass
        try:
            os.unlink(self.path)
        except OSError:
            pass


def _families(exc):
    """Which of the documented error kinds an exception belongs to.

    absent    : a key that is not there -- eko.io.inventory.LookupError ("Failure in content retrieval from inventory")
                or the KeyError of a dictionary
    ambiguous : EKO.approx documents `ValueError` "if multiple values are found in the neighbourhood"
    readonly  : AccessConfigs.assert_writeable documents `ReadOnlyOperator`
    """
    from eko.io.access import ReadOnlyOperator
    from eko.io.inventory import LookupError as InventoryLookupError

    fam = []
    if isinstance(exc, (InventoryLookupError, KeyError)):
        fam.append("absent")
    if isinstance(exc, ValueError):
        fam.append("ambiguous")
    if isinstance(exc, ReadOnlyOperator):
        fam.append("readonly")
    return fam


def _compare(exp, got):
    """None if the observation agrees with the model's expectation, else a description."""
    if exp[0] == "any":
        return None
    if exp[0] == "raises":
        if got[0] != "raises":
            return f"expected an error, got {got}"
        if exp[1] not in got[3]:
            return f"expected the documented error for '{exp[1]}', got {got[1]}: {got[2]}"
        return None
    if got[0] == "raises":
        return f"expected {exp}, got exception {got[1:3]}"
    if exp[0] == "copy":
        g = (got[0], [str(a) for a in got[1]], sorted((str(a), str(b)) for a, b in got[2]))
        x = (exp[0], [str(a) for a in exp[1]], sorted((str(a), str(b)) for a, b in exp[2]))
        return None if g == x else f"expected {exp}, got {got}"
    if exp[0] == "items":
        g = sorted((str(a), str(b)) for a, b in got[1])
        x = sorted((str(a), str(b)) for a, b in exp[1])
        return None if g == x else f"expected {exp}, got {got}"
    if exp[0] == "keys":
        return None if [str(a) for a in got[1]] == [str(a) for a in exp[1]] else f"expected {exp}, got {got}"
    return None if tuple(exp) == tuple(got) else f"expected {exp}, got {got}"


def _sig(op, what, bad=""):
    # an error of another class than the documented one is another defect than a wrong value
    return f"EKO-store/{op[0]}/{what}" + ("/error-class" if bad.startswith("expected the documented error") else "")


def evaluate(case):
    hist_ = case["history"]
    op = case["op"]
    path = cards.scratch_path("c37")
    impl = Impl(path)
    model = Model()
    res = Result()
    try:
        for h in hist_:
            model.step(h)
            impl.step(h)
        exp = model.step(op)
        got = impl.step(op)
        bad = _compare(exp, got)
        if bad:
            res.fail(_sig(op, "observation", bad), f"history={hist_} op={op}: {bad}")
        disk, cache = impl.canon()
        state = repr((model.mode, sorted(model.current.items()), sorted(model.persisted.items()), disk, cache))
        res.info = {"state": state}
        res.outcome = f"{op[0]}:{got[0]}"
        res.nontrivial = len(model.current) > 0
        if bad:
            return res
        # ---- full visible content after the step (the object is discarded afterwards)
        full = hist_ + [op]
        for probe in (["list"], ["items"]):
            e2, g2 = model.step(probe), impl.step(probe)
            b2 = _compare(e2, g2)
            if b2:
                res.fail(_sig(op, "content-" + probe[0]), f"history={full} then {probe}: {b2}")
                return res
        for k in range(3):
            e2, g2 = model.step(["get", k]), impl.step(["get", k])
            b2 = _compare(e2, g2)
            if b2:
                res.fail(_sig(op, "content-get", b2), f"history={full} then get {k}: {b2}")
                return res
            e2, g2 = model.step(["in", k]), impl.step(["in", k])
            b2 = _compare(e2, g2)
            if b2:
                res.fail(_sig(op, "content-in"), f"history={full} then in {k}: {b2}")
                return res
        # ---- persistence: close and re-read
        e2, g2 = model.step(["reopen", "ro"]), impl.step(["reopen", "ro"])
        if g2[0] == "raises":
            res.fail(_sig(op, "persist-reopen"), f"history={full} then close+read: {g2}")
            return res
        for probe in (["list"], ["items"]):
            e2, g2 = model.step(probe), impl.step(probe)
            b2 = _compare(e2, g2)
            if b2:
                res.fail(_sig(op, "persist-" + probe[0]), f"history={full} then close+read, {probe}: {b2}")
                return res
        # the re-read store is asked key by key as well (lookup, context-manager read, membership)
        for k in range(3):
            for probe in (["get", k], ["in", k], ["ctxget", k]):
                e2, g2 = model.step(probe), impl.step(probe)
                b2 = _compare(e2, g2)
                if b2:
                    res.fail(_sig(op, "persist-" + probe[0], b2), f"history={full} then close+read, {probe}: {b2}")
                    return res
        return res
    finally:
        impl.destroy()


def run(ctx):
    depth = 5 if ctx.thorough() else 3
    ops = alphabet()
    hist.bfs(ctx, ops, evaluate, depth, max_states=None)
    ctx.rule = (
        f"BFS over all histories of length <= {depth} from the alphabet of {len(ops)} operations "
        f"(set 3 keys x 3 values incl. err<->no-err overwrite, get, get through the operator context manager, unload, in, "
        f"approx on {len(QUERIES)} queries with the default tolerance (exact, inside both close keys, inside one only, "
        f"between 1e-6 and 1e-5, other nf at an equal and at a close scale), approx on {len(TOL_QUERIES)} queries with passed "
        "rtol / atol (tighter than default, looser than default, atol only, tighter separating the close pair), list "
        "(= iteration, evolgrid and mu2grid), items, unload-all, `del eko.operators`, close+reopen ro/rw by close() and "
        "by the context manager, deepcopy to a second archive and reading that), histories extended only from states not "
        "seen before (state = mode, model content, persisted content, operator files on disk, cache keys with loaded "
        "flag); after every history: list, items, get / in per key, then close + re-read and again list, items, get / in / "
        "context-manager get per key; non-trivial = store non-empty after the step"
    )
    ctx.assumptions += [
        "two keys within the approximate-lookup tolerance and one outside represent all key relations",
        "expected approximate hits come from |q - k| <= atol + rtol |k| at equal nf; every query lies >= 10 % of the tolerance "
        "away from its boundary, so the rounding of that inequality is not probed",
        "error classes: absent key -> eko.io.inventory.LookupError or KeyError; ambiguous approx -> ValueError; "
        "write on a read-only store -> eko.io.access.ReadOnlyOperator; unload of an absent key may do anything",
        "merged states have equal futures: the state key contains everything Inventory/EKO methods read (files, cache, flags)",
    ]
