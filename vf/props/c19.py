"""C19 flavour-number paths: complete enumeration of (layout, origin, target) triples.

states      = distinct (layout, origin, target) triples
transitions = segments + matchings checked one by one
"""

import math

from vf.core.ctx import Result
from vf.ref import paths as refp

ID = "C19"
LEVEL = "model_checking"

INF = math.inf
LAYOUTS = [
    [10.0, 20.0, 30.0],
    [10.0, 10.0, 30.0],
    [10.0, 20.0, 20.0],
    [10.0, 10.0, 10.0],
    [0.0, 0.0, INF],
    [0.0, 20.0, INF],
    [10.0, INF, INF],
    [0.0, 0.0, 0.0],
    [INF, INF, INF],
    [2.5, 7.25, 31.0],
    # matching scales not ordered like the masses (e.g. a small bottom ratio): the default flow is documented for the natural
    # sorting only; with an unspecified nf the code has to refuse (ValueError) or return the path of the reference (default nf =
    # 3 + number of matching scales reached) - never a path built on some other number
    [20.0, 10.0, 30.0],
    [30.0, 20.0, 10.0],
    [10.0, 30.0, 20.0],
    [20.0, 10.0, INF],
]
SCALES = [5.0, 10.0, 15.0, 20.0, 25.0, 30.0, 35.0]
NF0 = [3, 4, 5, 6, None]
NFF = [None, 3, 4, 5, 6]


def _inf(x):
    return {"inf": INF}.get(x, x) if isinstance(x, str) else x


def _eval_ffns(case):
    """Atlas.ffns(nf, mu2): the constructor of fixed-flavour-number atlases (same file): nf flavours at every scale."""
    from eko import matchings

    nf, mu0 = case["ffns"], case["origin"][0]
    res = Result()
    sig0 = f"Atlas.ffns/nf={nf}"
    try:
        atlas = matchings.Atlas.ffns(nf, mu0)
    except Exception as e:  # noqa
        return res.fail(sig0 + "/raises", f"{type(e).__name__}: {e} mu2={mu0}")
    want = [0.0] * (nf - 2) + [INF] * (7 - nf)
    if [float(w) for w in atlas.walls] != want:
        res.fail(sig0 + "/walls", f"walls {atlas.walls}, a fixed-flavour-number atlas with nf={nf} has {want}")
    if tuple(atlas.origin) != (mu0, nf):
        res.fail(sig0 + "/origin", f"origin {atlas.origin}, expected {(mu0, nf)}")
    nsteps = 0
    for muf in SCALES:
        for nff in (nf, None):
            try:
                mp = atlas.matched_path((muf, nff))
                path = atlas.path((muf, nff))
            except Exception as e:  # noqa
                res.fail(sig0 + f"/nff={nff}/raises", f"{type(e).__name__}: {e} mu2={mu0} target={(muf, nff)}")
                continue
            nsteps += len(mp)
            got = [("seg", b.origin, b.target, b.nf) if isinstance(b, matchings.Segment) else ("match", b.scale, b.hq, b.inverse) for b in mp]
            if got != [("seg", mu0, muf, nf)] or list(path) != list(mp):
                res.fail(sig0 + f"/nff={nff}/single-segment", f"origin={(mu0, nf)} target={(muf, nff)}: got {mp}, a fixed-flavour-number path is the single segment {mu0} -> {muf} with nf={nf}")
    res.info = {"steps": nsteps, "shapes": 1}
    res.outcome = f"ffns/nf={nf}"
    return res


def evaluate(case):
    from eko import matchings

    if "ffns" in case:
        return _eval_ffns(case)
    walls = [_inf(w) for w in case["layout"]]
    mu0, nf0 = case["origin"]
    res = Result()
    nsteps = 0
    shapes = set()
    mono = all(a <= b for a, b in zip(walls, walls[1:]))
    refused = 0
    for muf in SCALES + ([2.5, 31.0] if case["layout"][0] == 2.5 else []):
        for nff in NFF:
            sig0 = f"Atlas.matched_path/nf0={nf0},nff={nff}"
            undefined_default = not mono and (nff is None or nf0 is None)
            if undefined_default:
                sig0 = f"Atlas.path/non-monotone/default-nf/nf0={nf0},nff={nff}"
            try:
                atlas = matchings.Atlas(list(walls), (mu0, nf0))
                path = atlas.path((muf, nff))
                mp = atlas.matched_path((muf, nff))
            except ValueError as e:
                if undefined_default:
                    refused += 1  # documented: the default flow exists for mu_c <= mu_b <= mu_t only
                    continue
                res.fail(sig0 + "/raises", f"{type(e).__name__}: {e} layout={walls} origin={(mu0,nf0)} target={(muf,nff)}")
                continue
            except Exception as e:  # noqa
                res.fail(sig0 + "/raises", f"{type(e).__name__}: {e} layout={walls} origin={(mu0,nf0)} target={(muf,nff)}")
                continue
            # (a path returned for an undefined default flow is held to the same invariants, with the reference's default nf)
            ref = refp.ref_matched_path(walls, (mu0, nf0), (muf, nff))
            enf0 = nf0 if nf0 is not None else refp.nf_default(mu0, walls)
            enff = nff if nff is not None else refp.nf_default(muf, walls)
            where = f"layout={walls} origin={(mu0,nf0)} target={(muf,nff)} got={mp}"
            # --- invariants of the statement, one by one
            segs = [b for b in mp if isinstance(b, matchings.Segment)]
            mats = [b for b in mp if isinstance(b, matchings.Matching)]
            nsteps += len(mp)
            ok = True
            if segs != list(path):
                res.fail(sig0 + "/matched-vs-path", where); ok = False
            if not segs or segs[0].origin != mu0 or segs[0].nf != enf0:
                res.fail(sig0 + "/start", where); ok = False
            if not segs or segs[-1].target != muf or segs[-1].nf != enff:
                res.fail(sig0 + "/end", where); ok = False
            for a, b in zip(segs, segs[1:]):
                if a.target != b.origin:
                    res.fail(sig0 + "/contiguous", where); ok = False
                d = b.nf - a.nf
                if abs(d) != 1 or (d > 0) != (enff > enf0):
                    res.fail(sig0 + "/unit-step", where); ok = False
                hq = max(a.nf, b.nf)
                if a.target != walls[hq - 4]:
                    res.fail(sig0 + "/step-on-wall", where); ok = False
            if len(segs) != abs(enff - enf0) + 1:
                res.fail(sig0 + "/length", where); ok = False
            if len(mats) != len(segs) - 1 or len(mp) != 2 * len(segs) - 1:
                res.fail(sig0 + "/one-matching-per-step", where); ok = False
            else:
                for i, m in enumerate(mats):
                    a, b = segs[i], segs[i + 1]
                    if mp[2 * i + 1] is not m:
                        res.fail(sig0 + "/interleaving", where); ok = False
                    if m.hq != max(a.nf, b.nf) or m.scale != a.target:
                        res.fail(sig0 + "/matching-names-heavier-quark", where); ok = False
                    if m.inverse != (enff < enf0):
                        res.fail(sig0 + "/inverse-flag", where); ok = False
            # --- equality with the independent builder
            got = [
                ("seg", b.origin, b.target, b.nf)
                if isinstance(b, matchings.Segment)
                else ("match", b.scale, b.hq, b.inverse)
                for b in mp
            ]
            if got != ref:
                res.fail(sig0 + "/reference", where + f" ref={ref}")
            shapes.add((enf0, enff, len(mp)))
    res.info = {"steps": nsteps, "shapes": len(shapes), "refused_default_nf": refused}
    res.outcome = (f"refused-default-nf={refused}/" if refused else "") + f"shapes={sorted(shapes)}"
    res.outcome = res.outcome[:200]
    return res


def run(ctx):
    cases = []
    for lay in LAYOUTS:
        extra = [2.5, 31.0] if lay[0] == 2.5 else []
        for mu0 in SCALES + extra:
            for nf0 in NF0:
                cases.append({"layout": lay, "origin": [mu0, nf0]})
    for nf in (3, 4, 5, 6):
        for mu0 in SCALES:
            cases.append({"ffns": nf, "origin": [mu0, nf]})
    results = ctx.run_cases(cases, evaluate)
    ntargets = sum((len(SCALES) + (2 if c["layout"][0] == 2.5 else 0)) * len(NFF) for c in cases if "layout" in c)
    ntargets += sum(len(SCALES) * 2 for c in cases if "ffns" in c)
    ctx.rule = (
        "complete product of 14 matching-scale layouts (distinct, coincident, zero, infinite, not ordered like the masses) x "
        "origin scale on a 7-value lattice below/on/between/above the walls x nf0 in {3..6,None} x "
        "target scale on the same lattice x nff in {None,3..6}; every invariant of the statement and "
        "equality with an independent path builder checked on each; a case is an (layout, origin) "
        "pair carrying all its targets; non-trivial = all. Layouts not ordered like the masses with an unspecified nf0/nff "
        "(4 layouts: every origin/target with None): ValueError or the reference path. Atlas.ffns(nf, mu2), nf 3-6 x 7 origins x "
        "7 targets x nff in {nf, None}: walls, origin, single segment"
    )
    ctx.extra.update(
        states=ntargets,
        transitions=sum((r[1][3] or {}).get("steps", 0) for r in results),
        traces_validated_against_impl=ntargets,
    )
    ctx.assumptions += [
        "default nf = 3 + number of matching scales <= scale (a point on a wall belongs to the upper patch)",
        "scales restricted to the lattice; walls symbolic only through their relative order to the lattice",
        "matching scales not ordered like the masses with an unspecified nf: the documented default flow does not exist; accepted are a "
        "ValueError or the path for default nf = 3 + number of matching scales <= scale",
    ]
