"""C03 EKOs do not depend on parallel schedule, target order or co-computed targets (X-sched).

Every schedule of the virtual pool (assignment of grid-point tasks to workers x completion order
consistent with per-worker FIFO), for each `pool.map` call of a solve in turn; every permutation
and non-empty subset of a 3-target list with shared and unshared segments (also with an expanded scale
variation and targets on a matching scale, where the shared segment exists as a final and as an
intermediate part, and on downward paths); every permutation of
the recipe list; plus a free-running conformance pass with the real multiprocessing.Pool.
Oracle: bitwise equality of every (ep, operator, error) with the 1-core single-target run.
"""

import itertools

import numpy as np

from vf.core import cards, vpool
from vf.core.ctx import Result, HarnessError

ID = "C03"
LEVEL = "model_checking"
TECHNIQUE = "exhaustive schedule enumeration on a virtual process pool driving the real solver + all target/recipe permutations; bitwise comparison with the sequential run"
LEVEL_TEXT = (
    "all schedules of <=3 virtual workers on the 3 (thorough: 4) grid-point tasks of each pool.map call, all "
    "permutations/subsets of 3 targets (plain, with expanded scale variation and targets on a matching scale, downward from nf0=5) "
    "and all recipe orders are executed through the real eko.solve; results must be bit-identical to the 1-core single-target run"
)
LEVEL_NOTE = (
    "virtual pool models fork+pickle semantics (task runs on a copy of the bound Operator; module state shared); real "
    "OS scheduling only sampled by the free-running conformance pass; tiny grids; interpreted mode"
)
FLOOR_NONTRIVIAL = 20

GRID3 = [0.2, 0.6, 1.0]
GRID4 = [0.1, 0.3, 0.7, 1.0]
GRIDS = {
    2: [0.5, 1.0],
    3: GRID3,
    4: GRID4,
    5: [0.05, 0.15, 0.4, 0.7, 1.0],
    7: [0.02, 0.05, 0.1, 0.2, 0.4, 0.7, 1.0],
    8: [0.01, 0.03, 0.07, 0.15, 0.3, 0.5, 0.75, 1.0],
}
T1, T2, T3 = [3.0, 4], [6.0, 5], [10.0, 5]
T4 = [6.0, 4]  # same scale as T2, other nf
# targets on the bottom matching scale (4.5): reached with the lower nf (the segment origin -> wall is FINAL and carries the
# expanded scale-variation kernel) and with the upper nf (the same segment is INTERMEDIATE, followed by the matching)
W4, W5 = [4.5, 4], [4.5, 5]
# downward paths from init = (6.0, 5): through the inverse bottom (and charm) matching
D1, D2 = [3.0, 4], [1.5, 3]
CARDS = {
    "lo-ffns": dict(order=[1, 0], mugrid=[T1], method="truncated"),
    "nlo-thr": dict(order=[2, 0], mugrid=[T2], method="iterate-exact", iterations=3),
    "lo-thr": dict(order=[1, 0], mugrid=[T2], method="truncated"),
    "nlo-ffns": dict(order=[2, 0], mugrid=[T1], method="truncated"),
    "nlo-k2": dict(order=[2, 0], mugrid=[T1], method="truncated", ratios=[1.0, 2.0, 1.0]),
    # expanded scale variation: the part origin -> wall exists in two variants (final with the sv kernel / intermediate without)
    "lo-thr-svexp": dict(order=[1, 0], mugrid=[T2], method="truncated", sv="expanded", xif=2.0),
    "nlo-thr-svexp": dict(order=[2, 0], mugrid=[T2], method="truncated", sv="expanded", xif=0.5),
    "lo-thr-svexpo": dict(order=[1, 0], mugrid=[T2], method="truncated", sv="exponentiated", xif=2.0),
    # downward evolution (inverse matching) from nf0 = 5
    "lo-down": dict(order=[1, 0], init=[6.0, 5], mugrid=[D1], method="truncated", inversion="exact"),
    "nlo-down": dict(order=[2, 0], init=[6.0, 5], mugrid=[D1], method="truncated", inversion="exact"),
    "nlo-down-exp": dict(order=[2, 0], init=[6.0, 5], mugrid=[D1], method="truncated", inversion="expanded"),
    # QED: the coupling lists are built in the parent and pickled into every task; other label set
    "qed": dict(order=[1, 1], mugrid=[T1], method="iterate-exact", iterations=2),
    "qed-run": dict(order=[1, 1], mugrid=[T1], method="iterate-exact", iterations=2, em_running=True),
}

_BASE = {}


def _cfg(card, grid, cores=1, mugrid=None):
    c = dict(CARDS[card])
    c["xgrid"] = GRIDS[grid]
    c["cores"] = cores
    if mugrid is not None:
        c["mugrid"] = mugrid
    return c


def _baseline(card, grid, target):
    """1-core, single-target run."""
    key = (card, grid, tuple(target))
    if key not in _BASE:
        ops = cards.solve_ops(_cfg(card, grid, 1, [list(target)]), tag="c03base")
        (ep, val), = ops.items()
        _BASE[key] = val
    return _BASE[key]


def _cmp(res, sig, what, card, grid, ops):
    n = 0
    for ep, (op, err) in ops.items():
        tgt = [float(np.sqrt(ep[0])), ep[1]]
        # recover the target as written in the card
        for t in (T1, T2, T3, T4, [9.0, 5], W4, W5, D1, D2):
            if abs(t[0] ** 2 - ep[0]) < 1e-9 and t[1] == ep[1]:
                tgt = t
        bop, berr = _baseline(card, grid, tgt)
        if op.tobytes() != bop.tobytes():
            d = float(np.max(np.abs(op - bop)))
            res.fail(sig + "/operator", f"{what}: operator at {ep} differs from the 1-core single-target run (max abs diff {d:.3e})")
        if (err is None) != (berr is None) or (err is not None and err.tobytes() != berr.tobytes()):
            res.fail(sig + "/error", f"{what}: error tensor at {ep} differs from the 1-core single-target run")
        n += 1
    return n


def record_calls(card, grid, cores):
    ctl = vpool.PoolController()
    with vpool.installed(ctl):
        cards.solve_ops(_cfg(card, grid, cores), tag="c03rec")
    return ctl.calls


def evaluate(case):
    kind = case["kind"]
    res = Result()
    card, grid = case["card"], case.get("grid", 3)
    if kind == "sched":
        sched = (tuple(case["assign"]), tuple(case["order"]))
        ctl = vpool.PoolController(target_call=case["call"], schedule=sched)
        with vpool.installed(ctl):
            ops = cards.solve_ops(_cfg(card, grid, case["cores"]), tag="c03")
        if len(ctl.calls) <= case["call"]:
            raise HarnessError(f"pool call {case['call']} never happened: {ctl.calls}")
        _cmp(res, f"solve/{card}/virtual-pool", f"cores={case['cores']} call={case['call']} schedule={sched}", card, grid, ops)
        res.outcome = f"sched:{'reordered' if ctl.nontrivial_order else 'inorder'}:{'reuse' if ctl.worker_reuse else 'spread'}"
        res.nontrivial = ctl.nontrivial_order or ctl.worker_reuse
        res.info = {"calls": len(ctl.calls)}
    elif kind == "targets":
        ops = cards.solve_ops(_cfg(card, grid, 1, case["mugrid"]), tag="c03")
        if len(ops) != len(case["mugrid"]):
            res.fail(f"solve/{card}/targets/missing", f"mugrid={case['mugrid']} produced points {sorted(ops)}")
        _cmp(res, f"solve/{card}/targets", f"mugrid={case['mugrid']}", card, grid, ops)
        res.outcome = f"targets:{len(case['mugrid'])}"
        res.nontrivial = len(case["mugrid"]) > 1
    elif kind == "recipes":
        import eko.runner.recipes as rec

        orig = rec._create
        perm = case["perm"]

        def permuted(evolgrid, atlas):
            lst = sorted(orig(evolgrid, atlas), key=repr)
            if len(lst) != len(perm):
                raise HarnessError(f"recipe list has {len(lst)} entries, permutation {perm}")
            return [lst[i] for i in perm]

        rec._create = permuted
        try:
            ops = cards.solve_ops(_cfg(card, grid, 1, case["mugrid"]), tag="c03")
        finally:
            rec._create = orig
        _cmp(res, f"solve/{card}/recipe-order", f"recipe permutation {perm} mugrid={case['mugrid']}", card, grid, ops)
        res.outcome = "recipes"
        res.nontrivial = list(perm) != sorted(perm)
    elif kind == "vdefault":
        ctl = vpool.PoolController()
        with vpool.installed(ctl):
            ops = cards.solve_ops(_cfg(card, grid, case["cores"]), tag="c03")
        _cmp(res, f"solve/{card}/virtual-pool/grid-size", f"grid of {grid} points, cores={case['cores']}, default schedule", card, grid, ops)
        res.outcome = f"vdefault:{grid}:{case['cores']}"
    elif kind == "realpool":
        ops = cards.solve_ops(_cfg(card, grid, case["cores"]), tag="c03")
        _cmp(res, f"solve/{card}/real-pool", f"real multiprocessing.Pool, grid of {grid} points, n_integration_cores={case['cores']}", card, grid, ops)
        res.outcome = f"realpool:{case['cores']}"
    else:
        raise HarnessError(kind)
    return res


def n_recipes(card, mugrid):
    from eko.runner import commons, recipes

    th, op = cards.build(_cfg(card, 3, 1, mugrid))
    return len(recipes._create(op.evolgrid, commons.atlas(th, op)))


def run(ctx):
    cases = []
    thorough = ctx.thorough()
    worker_counts = [2, 3] if thorough else [2]
    card_list = ["lo-ffns", "nlo-thr"] if not thorough else list(CARDS)
    grids = [3, 4] if thorough else [3]
    nsched = 0
    for card in card_list:
        for grid in grids:
            if grid == 4 and card not in ("lo-ffns", "lo-thr"):
                continue
            for n in worker_counts:
                calls = record_calls(card, grid, n)
                for ci, (nw, nt, method) in enumerate(calls):
                    for assign, order in vpool.schedules(nt, n):
                        cases.append(dict(kind="sched", card=card, grid=grid, cores=n, call=ci, assign=list(assign), order=list(order)))
                        nsched += 1
    # target permutations and subsets (shared: T2,T3 share the nf=4 segment and the matching; T1 shares nothing complete)
    tcard = "lo-thr"
    for r in (1, 2, 3):
        for sub in itertools.permutations([T1, T2, T3], r):
            cases.append(dict(kind="targets", card=tcard, mugrid=[list(t) for t in sub]))
    # two targets at the same scale with different nf, alone and with the others
    for sub in itertools.permutations([T1, T2, T3, T4], 2):
        if T4 in sub:
            cases.append(dict(kind="targets", card=tcard, mugrid=[list(t) for t in sub]))
    for sub in itertools.permutations([T2, T3, T4], 3):
        cases.append(dict(kind="targets", card=tcard, mugrid=[list(t) for t in sub]))
    # a card whose coupling is discontinuous at the matching scale (NLO, matching ratio 2)
    for sub in itertools.permutations([T1, T3, [9.0, 5]], 2):
        cases.append(dict(kind="targets", card="nlo-k2", mugrid=[list(t) for t in sub]))
    if thorough:
        for r in (2, 3):
            for sub in itertools.permutations([T1, T2, T3], r):
                cases.append(dict(kind="targets", card="nlo-thr", mugrid=[list(t) for t in sub]))
    # expanded scale variation and targets ON a matching scale: the segment origin -> wall is the final part of W4 (with the
    # scale-variation kernel) and an intermediate part of T2 / W5 (without): two parts whose headers differ only in `cliff`
    # must coexist, whatever the order of the list; all permutations of all non-empty subsets
    for r in (1, 2, 3):
        for sub in itertools.permutations([W4, T2, W5], r):
            cases.append(dict(kind="targets", card="lo-thr-svexp", mugrid=[list(t) for t in sub]))
    if thorough:
        for svcard in ("nlo-thr-svexp", "lo-thr-svexpo"):
            for r in (2, 3):
                for sub in itertools.permutations([W4, T2, W5], r):
                    cases.append(dict(kind="targets", card=svcard, mugrid=[list(t) for t in sub]))
    # downward paths (inverse matching) from init = (6.0, 5), together with an upward target
    for sub in itertools.permutations([D1, D2, T3], 2):
        cases.append(dict(kind="targets", card="lo-down", mugrid=[list(t) for t in sub]))
    if thorough:
        for sub in itertools.permutations([D1, D2, T3], 3):
            cases.append(dict(kind="targets", card="lo-down", mugrid=[list(t) for t in sub]))
        for dcard in ("nlo-down", "nlo-down-exp"):
            for sub in itertools.permutations([D1, D2, T3], 2):
                cases.append(dict(kind="targets", card=dcard, mugrid=[list(t) for t in sub]))
    # recipe order
    mg = [T2, T3] if not thorough else [T1, T2, T3]
    nrec = n_recipes(tcard, mg)
    perms = list(itertools.permutations(range(nrec)))
    for perm in perms:
        cases.append(dict(kind="recipes", card=tcard, mugrid=mg, perm=list(perm)))
    # grid sizes that are not multiples of the worker count (default schedule of the virtual pool, and the real pool)
    for g in (5, 7, 8):
        for cores in (2, 3, 4):
            cases.append(dict(kind="vdefault", card="lo-ffns", grid=g, cores=cores))
    for g, cores in ((5, 2), (8, 3), (7, 4)) + (((7, 2), (8, 5), (5, 3)) if thorough else ()):
        cases.append(dict(kind="realpool", card="lo-ffns", grid=g, cores=cores))
    # n_integration_cores = 0 (all cores) and <= -cpu_count (clamped to the sequential path)
    for cores in (0, -64):
        cases.append(dict(kind="realpool", card="lo-ffns", cores=cores))
    if thorough:
        # QED cards (2-point grid): virtual pool with its default schedule and the real pool
        for qcard in ("qed", "qed-run"):
            cases.append(dict(kind="vdefault", card=qcard, grid=2, cores=2))
            cases.append(dict(kind="realpool", card=qcard, grid=2, cores=2))
    # free-running conformance of the virtual pool
    for card in (["lo-ffns", "lo-thr"] if not thorough else list(CARDS)):
        for cores in (2, 3, -13):
            cases.append(dict(kind="realpool", card=card, cores=cores))
    results = ctx.run_cases(cases, evaluate)
    reordered = sum(1 for c, r in results if c["kind"] == "sched" and r[0] and "reordered" in r[0])
    reuse = sum(1 for c, r in results if c["kind"] == "sched" and r[0] and "reuse" in r[0])
    if (reordered == 0 or reuse == 0) and not ctx.fails:
        raise HarnessError("vacuous schedule enumeration: no reordered completion or no worker reuse")
    ctx.extra.update(
        states=len(cases),
        transitions=sum(len(c.get("order", [])) or len(c.get("mugrid", [])) or 1 for c in cases),
        traces_validated_against_impl=sum(1 for c in cases if c["kind"] == "realpool"),
        schedules=nsched,
        schedules_with_reordered_completion=reordered,
        schedules_with_worker_reuse=reuse,
        recipe_permutations=len(perms),
    )
    ctx.rule = (
        "schedules: for every pool.map call of each card, all assignments of the grid-point tasks to "
        f"{worker_counts} virtual workers (modulo worker renaming) x all completion orders consistent with per-worker FIFO, "
        "other calls on the default schedule; targets: all permutations of all non-empty subsets of 3 targets, again with an "
        "expanded scale variation (xif=2) for the targets (4.5,4), (6,5), (4.5,5) on / above the bottom matching scale"
        f"{' (thorough: also NLO xif=0.5 and exponentiated)' if thorough else ''}, all ordered pairs"
        f"{' and triples' if thorough else ''} of two downward and one upward target from init=(6,5)"
        f"{' (thorough: also NLO, exact and expanded inversion)' if thorough else ''}; recipes: all "
        "permutations of the recipe list; grids of 5, 7, 8 points on 2-4 workers (sizes that are not multiples of the worker count); "
        f"real pool with cores in {{2,3,-13,0,-64}}{'; QED cards (em running off/on) on the virtual and the real pool' if thorough else ''}; non-trivial = completion order differs from "
        "submission order or a worker ran >= 2 tasks, >= 2 targets, or a non-identity permutation"
    )
    ctx.assumptions += [
        "one pool.map call per part on a fresh Operator: calls share no state (schedules enumerated one call at a time)",
        "traces_validated_against_impl counts the free-running runs with the real multiprocessing.Pool",
        "n_integration_cores=0 means all cores of this host, -64 is clamped to one core (sequential path, no pool) on any host with <= 64 cores",
    ]
