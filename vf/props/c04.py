"""C04 every supported configuration yields a finite EKO; others fail cleanly (X-conf).

S1 seam (no stubs): for a card, the real recipes are created, the real Operator /
OperatorMatrixElement are built exactly as runner.parts does, and the integrand that
scipy.integrate.quad would integrate is evaluated on a small (grid point, basis function, u)
lattice for every sector label. S3 seam: the real eko.solve on a 3-point grid.
Oracle per card: all values finite, or NotImplementedError/ValueError with a message. Anything else
(TypeError, AttributeError, IndexError, ZeroDivisionError, None, nan, inf) is a violation.
Entry-point block: the highest-order component of every anomalous-dimension / singlet matching
tower is non-zero at generic N unless refused (documented exception: time-like matching > NLO).
"""

import math
import types

import numpy as np

from vf.core import cards, conf
from vf.core.ctx import Result, HarnessError

ID = "C04"
LEVEL = "exploration"
TECHNIQUE = "exhaustive enumeration of the runcard product (thorough: all 55 296 cards at the integrand seam; quick: <=2 deviations) plus real solves on the <=1-deviation set; outcome classification"
LEVEL_TEXT = (
    "each card of the product QCD order x QED order x running x 8 methods x 3 sv x 2 inversions x 4 pol/time-like x 3 path shapes x nf "
    "is driven through the real recipe/operator construction and integrand evaluation; outcome must be finite numbers or a clean refusal"
)
LEVEL_NOTE = "integrand seam samples each sector at a few (x, basis, u) points instead of running the quadrature; S3 solves only within 1 deviation of 4 bases; interpreted mode"
FLOOR_NONTRIVIAL = 50

GRID = [0.05, 0.3, 1.0]
M = [2.0, 4.5, 173.07]
# (init scale, target scale) per starting nf and shape
SHAPES = {
    ("single", 3): ([1.3, 3], [1.8, 3]),
    ("single", 4): ([2.5, 4], [4.0, 4]),
    ("single", 5): ([10.0, 5], [50.0, 5]),
    ("single", 6): ([200.0, 6], [300.0, 6]),
    ("up", 3): ([1.5, 3], [3.0, 4]),
    ("up", 4): ([3.0, 4], [10.0, 5]),
    ("up", 5): ([100.0, 5], [250.0, 6]),
    ("down", 4): ([3.0, 4], [1.5, 3]),
    ("down", 5): ([10.0, 5], [3.0, 4]),
    ("down", 6): ([250.0, 6], [100.0, 5]),
}
DIMS = {
    "qcd": [dict(_qcd=n) for n in (1, 2, 3, 4)],
    "qed": [dict(_qed=n) for n in (0, 1, 2)],
    "running": [dict(em_running=False), dict(em_running=True)],
    "method": [dict(method=m) for m in cards.METHODS],
    "sv": [dict(sv=None, xif=1.0), dict(sv="exponentiated", xif=2.0), dict(sv="expanded", xif=2.0)],
    "inversion": [dict(inversion="exact"), dict(inversion="expanded")],
    "kind": [
        dict(polarized=False, time_like=False),
        dict(polarized=True, time_like=False),
        dict(polarized=False, time_like=True),
        dict(polarized=True, time_like=True),
    ],
    "shape": [dict(_shape=s) for s in ("single", "up", "down")],
    "nf": [dict(_nf=n) for n in (3, 4, 5, 6)],
}
BASES = [
    dict(qcd=1, qed=0, running=0, method=0, sv=0, inversion=0, kind=0, shape=1, nf=1),
    dict(qcd=2, qed=0, running=0, method=4, sv=1, inversion=1, kind=1, shape=2, nf=2),
    dict(qcd=1, qed=1, running=1, method=0, sv=0, inversion=0, kind=0, shape=0, nf=1),
    dict(qcd=3, qed=0, running=0, method=2, sv=2, inversion=0, kind=2, shape=1, nf=0),
]


def to_cfg(assign):
    raw = conf.materialise(DIMS, assign)
    shape, nf = raw.pop("_shape"), raw.pop("_nf")
    if (shape, nf) not in SHAPES:
        return None
    init, target = SHAPES[(shape, nf)]
    qcd, qed = raw.pop("_qcd"), raw.pop("_qed")
    raw.update(
        order=[qcd, qed],
        init=list(init),
        mugrid=[list(target)],
        xgrid=GRID,
        degree=1,
        iterations=2,
        max_order=[3, 0],
        masses=M,
    )
    return raw


def _sig_class(cfg):
    return (
        f"qcd={cfg['order'][0]},qed={cfg['order'][1]},run={int(cfg['em_running'])},pol={int(cfg['polarized'])},"
        f"tl={int(cfg['time_like'])},sv={cfg['sv']},method={cfg['method']}"
    )


def _clean_refusal(e):
    return isinstance(e, (NotImplementedError, ValueError)) and len(str(e).strip()) >= 5


U_POINTS = [0.5, 0.75, 0.95]


def s1_eval(cfg, res, sig):
    """Drive the integrand seam. Returns (n_values, refusal or None)."""
    import eko.evolution_operator as evop
    from eko.evolution_operator import operator_matrix_element as ome
    from eko.io.items import Evolution
    from eko.quantities.heavy_quarks import QuarkMassScheme
    from eko.runner import commons, parts, recipes

    th, op = cards.build(cfg)
    fake = types.SimpleNamespace(theory_card=th, operator_card=op)
    atlas = commons.atlas(th, op)
    recs = sorted(recipes._create(op.evolgrid, atlas), key=repr)
    nvals = 0
    for rec in recs:
        if isinstance(rec, Evolution):
            o = evop.Operator(parts._evolve_configs(fake), parts._managers(fake), rec.as_atlas, is_threshold=rec.cliff)
        else:
            kthr = th.heavy.squared_ratios[rec.hq - 4]
            o = ome.OperatorMatrixElement(
                parts._matching_configs(fake),
                parts._managers(fake),
                rec.hq - 1,
                rec.scale,
                rec.inverse,
                np.log(kthr),
                th.heavy.masses_scheme is QuarkMassScheme.MSBAR,
            )
            if o.order[0] == 0:
                continue
        bfs = list(o.int_disp)
        logxs = np.log(o.int_disp.xgrid.raw)
        for label in o.labels:
            for k, j in ((0, 0), (1, 0), (1, 2)):
                f = o.quad_ker(label=label, logx=float(logxs[k]), areas=bfs[j].areas_representation)
                for u in U_POINTS:
                    v = f(u)
                    nvals += 1
                    if v is None or isinstance(v, (complex, np.complexfloating)) or not np.isfinite(v):
                        res.fail(sig + "/nonfinite", f"integrand {type(rec).__name__} label={label} k={k} j={j} u={u} -> {v!r}")
                        return nvals
    return nvals


def s1r_solve(cfg):
    """Seam S1r: the real eko.solve (recipes, parts.evolve/match, join, archive) with scipy's quad replaced by a
    3-point evaluation of the real integrand (real QuadKerBase, real Talbot path, real kernels)."""
    import sys
    import types

    import eko.evolution_operator  # noqa

    evop = sys.modules["eko.evolution_operator"]

    def quad(f, a, b, **kw):
        v = f(0.5) + f(0.75) + f(0.95)
        return (v, 0.0, {}) if kw.get("full_output") else (v, 0.0)

    saved = evop.integrate
    evop.integrate = types.SimpleNamespace(quad=quad)
    try:
        return cards.solve_ops(cfg, tag="c04r")
    finally:
        evop.integrate = saved


def evaluate(case):
    res = Result()
    if case["kind"] == "entry":
        return _entry(case, res)
    cfg = to_cfg(case["assign"])
    sigc = _sig_class(cfg)
    where = f"cfg={ {k: cfg[k] for k in ('order','em_running','method','sv','xif','inversion','polarized','time_like','init','mugrid')} }"
    seam = case["kind"]
    try:
        if seam == "s1":
            n = s1_eval(cfg, res, f"S1/{sigc}")
            res.info = {"values": n}
            res.outcome = "finite" if not res.fails else "nonfinite"
        else:
            ops = s1r_solve(cfg) if seam == "s1r" else cards.solve_ops(cfg, tag="c04")
            bad = [ep for ep, (o, e) in ops.items() if not np.all(np.isfinite(o)) or (e is not None and not np.all(np.isfinite(e)))]
            if bad or not ops:
                res.fail(f"{seam.upper()}/{sigc}/nonfinite", f"{where}: non-finite entries written for {bad}")
            res.outcome = "finite"
    except Exception as e:  # noqa
        if _clean_refusal(e):
            res.outcome = f"refused:{type(e).__name__}:{str(e)[:60]}"
            res.nontrivial = False
        else:
            import traceback

            tb = traceback.extract_tb(e.__traceback__)
            site = f"{tb[-1].filename.split('/src/')[-1]}:{tb[-1].name}" if tb else "?"
            res.fail(
                f"{seam.upper()}/crash/{type(e).__name__}@{site}/qed={int(cfg['order'][1] > 0)},sv={cfg['sv']},run={int(cfg['em_running'])}",
                f"{where}: {type(e).__name__}: {str(e)[:200]} at {site}",
            )
            res.outcome = f"crash:{type(e).__name__}"
    if res.fails:
        for f in res.fails:
            f.message = where + " " + f.message if not f.message.startswith("cfg=") else f.message
    return res


def _entry(case, res):
    """Highest-order component of an entry-point tower must be non-zero unless refused."""
    import ekore.anomalous_dimensions.polarized.space_like as ad_ps
    import ekore.anomalous_dimensions.unpolarized.space_like as ad_us
    import ekore.anomalous_dimensions.unpolarized.time_like as ad_ut
    import ekore.operator_matrix_elements.polarized.space_like as ome_ps
    import ekore.operator_matrix_elements.unpolarized.space_like as ome_us
    import ekore.operator_matrix_elements.unpolarized.time_like as ome_ut

    kind, what, k, nf = case["phys"], case["what"], case["order"], case["nf"]
    n = complex(3.3, 0.7)
    L = 1.3
    var = (0, 0, 0, 0, 0, 0, 0)
    sig = f"entry/{kind}/{what}/order={k}"
    try:
        if what.startswith("gamma_ns"):
            mode = int(what.split(":")[1])
            if kind == "unpol":
                g = ad_us.gamma_ns((k, 0), mode, n, nf, var, True)
            elif kind == "pol":
                g = ad_ps.gamma_ns((k, 0), mode, n, nf)
            else:
                g = ad_ut.gamma_ns((k, 0), mode, n, nf)
            comp = np.atleast_1d(g[k - 1])
        elif what == "gamma_singlet":
            if kind == "unpol":
                g = ad_us.gamma_singlet((k, 0), n, nf, var, True)
            elif kind == "pol":
                g = ad_ps.gamma_singlet((k, 0), n, nf)
            else:
                g = ad_ut.gamma_singlet((k, 0), n, nf)
            comp = g[k - 1]
        elif what == "A_singlet":
            if kind == "unpol":
                g = ome_us.A_singlet((k, 0), n, nf, L, False)
            elif kind == "pol":
                g = ome_ps.A_singlet((k, 0), n, nf, L)
            else:
                g = ome_ut.A_singlet((k, 0), n, L)
            comp = g[k - 1]
        else:
            raise HarnessError(what)
    except HarnessError:
        raise
    except Exception as e:  # noqa
        if _clean_refusal(e):
            res.outcome = "refused"
            res.nontrivial = False
            return res
        res.fail(sig + f"/crash/{type(e).__name__}", f"nf={nf} N={n}: {type(e).__name__}: {str(e)[:200]}")
        return res
    if not np.all(np.isfinite(comp)):
        res.fail(sig + "/nonfinite", f"nf={nf} N={n}: {comp}")
    elif np.all(comp == 0):
        if kind == "tl" and what == "A_singlet" and k >= 2:
            res.outcome = "documented-zero"
            return res
        res.fail(sig + "/silent-zero", f"nf={nf} N={n}: the order-{k} component is identically zero instead of being refused")
    res.outcome = "nonzero"
    return res


def run(ctx):
    cases = []
    if ctx.thorough():
        s1 = list(conf.full_product(DIMS))
        s3 = list(conf.union(*[conf.neighbourhood(DIMS, b, 1) for b in BASES]))
        s3 += [a for a in conf.neighbourhood(DIMS, BASES[0], 2) if a["qcd"] <= 1 and a["qed"] == 0]
    else:
        s1 = list(conf.union(*[conf.neighbourhood(DIMS, b, 2) for b in BASES]))
        s3 = list(conf.union(*[conf.neighbourhood(DIMS, b, 1) for b in BASES[:3]]))
    skipped = 0
    for a in s1:
        if to_cfg(a) is None:
            skipped += 1
            continue
        cases.append(dict(kind="s1", assign=a))
    # S1r: the same integrand-point idea, but through the real runner (parts.evolve/match, join, archive)
    s1r = s1 if not ctx.thorough() else [a for a in s1 if a["qcd"] <= 2 or (a["method"] in (0, 4) and a["inversion"] == 0)]
    for a in s1r:
        if to_cfg(a) is not None and (ctx.thorough() or a["qcd"] <= 2):
            cases.append(dict(kind="s1r", assign=a))
    seen = set()
    for a in s3:
        key = tuple(sorted(a.items()))
        if to_cfg(a) is None or key in seen:
            continue
        seen.add(key)
        cases.append(dict(kind="s3", assign=a))
    for phys in ("unpol", "pol", "tl"):
        for k in (1, 2, 3, 4):
            for nf in (3, 4, 5):
                for what in ("gamma_ns:10101", "gamma_ns:10201", "gamma_ns:10200", "gamma_singlet"):
                    cases.append(dict(kind="entry", phys=phys, what=what, order=k, nf=nf))
                if k <= 3:
                    cases.append(dict(kind="entry", phys=phys, what="A_singlet", order=k, nf=nf))
    # cheap cards first in each worker chunk does not matter; N3LO cards dominate the wall time
    ctx.run_cases(cases, evaluate, chunksize=4)
    ctx.extra["impossible_shape_nf_combinations_skipped"] = skipped
    ctx.rule = (
        ("full product of the 9 runcard dimensions (55 296 assignments, those with an impossible (shape, nf) pair skipped)" if ctx.thorough()
         else "all cards within 2 deviations of 4 base cards over the 9 runcard dimensions")
        + " at the integrand seam (every recipe, every sector label, 3 (x, basis) pairs, 3 u-points) and, for a sub-product (quick: QCD order <= 2; thorough: order <= 2 fully, order 3-4 for 2 methods), through the real runner with the quadrature replaced by a 3-point evaluation (seam S1r); real solves on the <=1-deviation sets; "
        "180 entry-point towers for the silent-zero clause; non-trivial = not refused"
    )
    ctx.assumptions += [
        "a refusal is clean when it is a NotImplementedError/ValueError with a message of >= 5 characters",
        "integrand seam: finiteness at the sampled (x, basis, u) points stands for finiteness of the quadrature",
    ]
