"""C04 every supported configuration yields a finite EKO; others fail cleanly (X-conf).

S1 seam (no stubs): for a card, the real recipes are created, the real Operator /
OperatorMatrixElement are built exactly as runner.parts does, and the integrand that
scipy.integrate.quad would integrate is evaluated on a small (grid point, basis function, u)
lattice for every sector label. S3 seam: the real eko.solve on a 3-point grid.
Oracle per card: all values finite, or a clean refusal = NotImplementedError/ValueError raised by an explicit `raise`
inside eko/ekore/ekobox whose message names a feature the card really uses. Anything else (TypeError, AttributeError,
IndexError, ZeroDivisionError, a ValueError out of numpy/math, None, nan, inf) is a violation.
Cards outside the 9-dimensional product (ev_op_max_order, MSbar masses, N3LO parametrisation/variations, matching
order, matching ratios, interpolation mode/degree, iterations, xif < 1, skip flags) are visited one setting at a time.
Entry-point block: the highest-order component of every anomalous-dimension / matching tower (QCD and QED) is
non-zero at generic N unless refused (documented exception: time-like matching > NLO).
"""

import math
import os
import re
import traceback
import types

import numpy as np

from vf.core import cards, conf
from vf.core.ctx import Result, HarnessError

ID = "C04"
LEVEL = "exploration"
TECHNIQUE = "exhaustive enumeration of the runcard product (thorough: all 55 296 cards at the integrand seam; quick: <=2 deviations) plus real solves on the <=1-deviation set and one-setting excursions outside the product; outcome classification with a pinned notion of clean refusal"
LEVEL_TEXT = (
    "each card of the product QCD order x QED order x running x 8 methods x 3 sv x 2 inversions x 4 pol/time-like x 3 path shapes x nf "
    "is driven through the real recipe/operator construction and integrand evaluation; outcome must be finite numbers or a clean refusal "
    "(explicit raise inside eko naming a feature the card uses); ev_op_max_order, MSbar masses, N3LO variants, matching order, ratios, "
    "interpolation mode, iterations, xif < 1 and skip flags are varied one at a time on base cards"
)
LEVEL_NOTE = "integrand seam samples each sector at a few (x, basis, u) points instead of running the quadrature; S3 solves only within 1 deviation of 4 bases; settings outside the 9 dimensions are not combined with each other; interpreted mode"
FLOOR_NONTRIVIAL = 50

GRID = [0.05, 0.3, 1.0]
M = [2.0, 4.5, 173.07]
# (init scale, target scale) per starting nf and shape
SHAPES = {
    ("single", 3): ([1.3, 3], [1.8, 3]),
    ("single", 4): ([2.5, 4], [4.0, 4]),
    ("single", 5): ([10.0, 5], [50.0, 5]),
    ("single", 6): ([200.0, 6], [300.0, 6]),
    ("up", 3): ([1.5, 3], [3.0, 4]),
    ("up", 4): ([3.0, 4], [10.0, 5]),
    ("up", 5): ([100.0, 5], [250.0, 6]),
    ("down", 4): ([3.0, 4], [1.5, 3]),
    ("down", 5): ([10.0, 5], [3.0, 4]),
    ("down", 6): ([250.0, 6], [100.0, 5]),
}
DIMS = {
    "qcd": [dict(_qcd=n) for n in (1, 2, 3, 4)],
    "qed": [dict(_qed=n) for n in (0, 1, 2)],
    "running": [dict(em_running=False), dict(em_running=True)],
    "method": [dict(method=m) for m in cards.METHODS],
    "sv": [dict(sv=None, xif=1.0), dict(sv="exponentiated", xif=2.0), dict(sv="expanded", xif=2.0)],
    "inversion": [dict(inversion="exact"), dict(inversion="expanded")],
    "kind": [
        dict(polarized=False, time_like=False),
        dict(polarized=True, time_like=False),
        dict(polarized=False, time_like=True),
        dict(polarized=True, time_like=True),
    ],
    "shape": [dict(_shape=s) for s in ("single", "up", "down")],
    "nf": [dict(_nf=n) for n in (3, 4, 5, 6)],
}
BASES = [
    dict(qcd=1, qed=0, running=0, method=0, sv=0, inversion=0, kind=0, shape=1, nf=1),
    dict(qcd=2, qed=0, running=0, method=4, sv=1, inversion=1, kind=1, shape=2, nf=2),
    dict(qcd=1, qed=1, running=1, method=0, sv=0, inversion=0, kind=0, shape=0, nf=1),
    dict(qcd=3, qed=0, running=0, method=2, sv=2, inversion=0, kind=2, shape=1, nf=0),
]


def to_cfg(assign):
    raw = conf.materialise(DIMS, assign)
    shape, nf = raw.pop("_shape"), raw.pop("_nf")
    if (shape, nf) not in SHAPES:
        return None
    init, target = SHAPES[(shape, nf)]
    qcd, qed = raw.pop("_qcd"), raw.pop("_qed")
    raw.update(
        order=[qcd, qed],
        init=list(init),
        mugrid=[list(target)],
        xgrid=GRID,
        degree=1,
        iterations=2,
        max_order=[3, 0],
        masses=M,
    )
    return raw


def _sig_class(cfg):
    return (
        f"qcd={cfg['order'][0]},qed={cfg['order'][1]},run={int(cfg['em_running'])},pol={int(cfg['polarized'])},"
        f"tl={int(cfg['time_like'])},sv={cfg['sv']},method={cfg['method']}"
    )


def _src_root():
    import eko

    return os.path.dirname(os.path.dirname(os.path.abspath(eko.__file__)))


def _site(e):
    """(site string, raised by an explicit `raise` statement inside eko/ekore/ekobox?) of the innermost frame."""
    tb = traceback.extract_tb(e.__traceback__)
    if not tb:
        return "?", False
    fr = tb[-1]
    root = _src_root() + os.sep
    fn = os.path.abspath(fr.filename)
    if fn.startswith(root):
        rel = fn[len(root):]
        own = rel.split(os.sep)[0] in ("eko", "ekore", "ekobox")
    else:
        rel = fr.filename.split("/src/")[-1]
        own = False
    explicit = own and (fr.line or "").lstrip().startswith("raise")
    return f"{rel}:{fr.name}", explicit


# words by which a refusal names a feature of the card, and what the card must then contain.  A refusal that names a
# feature the card does not use (e.g. "... with QED" on a pure QCD card) does not name *the* unsupported feature.
_FEATURE_WORDS = [
    (r"\bQED\b", "qed"),
    (r"iterate-exact", "method-not-iterate-exact"),
    (r"[Pp]olari[sz]ed", "polarized"),
    (r"[Tt]ime-like", "time_like"),
    (r"beyond NNLO|at N3LO", "n3lo"),
    (r"nf=6", "nf6"),
    (r"MSbar", "msbar"),
    # feature words without a checkable counterpart in the card
    (r"[Mm]ethod|[Oo]rder|scheme|N3LO|NNLO|not available", None),
]


def _card_facts(cfg):
    order = cfg["order"]
    mo = cfg.get("matching_order") or [order[0] - 1, 0]
    nfs = [cfg["init"][1]] + [t[1] for t in cfg["mugrid"]]
    return {
        "qed": order[1] > 0,
        "method-not-iterate-exact": cfg["method"] != "iterate-exact",
        "polarized": bool(cfg["polarized"]),
        "time_like": bool(cfg["time_like"]),
        "n3lo": order[0] >= 4 or mo[0] >= 3,
        "nf6": max(nfs) >= 6,
        "msbar": cfg.get("scheme", "POLE") == "MSBAR",
    }


def _refusal(e, facts):
    """Classify an exception: (clean?, site, reason it is not clean or None).

    Clean = a NotImplementedError/ValueError raised by an explicit `raise` inside eko/ekore/ekobox whose message names
    a feature (one of _FEATURE_WORDS) and every checkable feature it names is one the card really uses. numpy
    broadcast / shape errors, math domain errors, LinAlgError, conversion errors ... are ValueErrors too, but they
    come out of a library call and name nothing: they are crashes.
    """
    site, explicit = _site(e)
    if not isinstance(e, (NotImplementedError, ValueError)) or not explicit:
        return False, site, "crash"
    msg = str(e)
    named = [fact for pat, fact in _FEATURE_WORDS if re.search(pat, msg)]
    if len(msg.strip()) < 5 or not named:
        return False, site, "names-no-feature"
    wrong = sorted(f for f in named if f is not None and not facts.get(f, False))
    if wrong:
        return False, site, "names-" + "+".join(wrong) + "-absent-from-card"
    return True, site, None


U_POINTS = [0.5, 0.75, 0.95]


def s1_eval(cfg, res, sig):
    """Drive the integrand seam. Returns (n_values, refusal or None)."""
    import eko.evolution_operator as evop
    from eko.evolution_operator import operator_matrix_element as ome
    from eko.io.items import Evolution
    from eko.quantities.heavy_quarks import QuarkMassScheme
    from eko.runner import commons, parts, recipes

    th, op = cards.build(cfg)
    fake = types.SimpleNamespace(theory_card=th, operator_card=op)
    atlas = commons.atlas(th, op)
    recs = sorted(recipes._create(op.evolgrid, atlas), key=repr)
    nvals = 0
    for rec in recs:
        if isinstance(rec, Evolution):
            o = evop.Operator(parts._evolve_configs(fake), parts._managers(fake), rec.as_atlas, is_threshold=rec.cliff)
        else:
            kthr = th.heavy.squared_ratios[rec.hq - 4]
            o = ome.OperatorMatrixElement(
                parts._matching_configs(fake),
                parts._managers(fake),
                rec.hq - 1,
                rec.scale,
                rec.inverse,
                np.log(kthr),
                th.heavy.masses_scheme is QuarkMassScheme.MSBAR,
            )
            if o.order[0] == 0:
                continue
        bfs = list(o.int_disp)
        logxs = np.log(o.int_disp.xgrid.raw)
        for label in o.labels:
            for k, j in ((0, 0), (1, 0), (1, 2)):
                f = o.quad_ker(label=label, logx=float(logxs[k]), areas=bfs[j].areas_representation)
                for u in U_POINTS:
                    v = f(u)
                    nvals += 1
                    if v is None or isinstance(v, (complex, np.complexfloating)) or not np.isfinite(v):
                        res.fail(sig + "/nonfinite", f"integrand {type(rec).__name__} label={label} k={k} j={j} u={u} -> {v!r}")
                        return nvals
    return nvals


def s1r_solve(cfg):
    """Seam S1r: the real eko.solve (recipes, parts.evolve/match, join, archive) with scipy's quad replaced by a
    3-point evaluation of the real integrand (real QuadKerBase, real Talbot path, real kernels)."""
    import sys
    import types

    import eko.evolution_operator  # noqa

    evop = sys.modules["eko.evolution_operator"]

    def quad(f, a, b, **kw):
        v = f(0.5) + f(0.75) + f(0.95)
        return (v, 0.0, {}) if kw.get("full_output") else (v, 0.0)

    saved = evop.integrate
    evop.integrate = types.SimpleNamespace(quad=quad)
    try:
        return cards.solve_ops(cfg, tag="c04r")
    finally:
        evop.integrate = saved


def _extra_class(cfg, extra):
    """Discrete coordinates of the settings outside the 9-dimensional product (signature suffix; '' without extras)."""
    if not extra:
        return ""
    parts = []
    for k in sorted(extra):
        if k == "max_order":
            parts.append("max_order<order-1" if extra[k][0] < cfg["order"][0] - 1 else "max_order>=order-1")
        elif k == "matching_order":
            d = extra[k][0] - (cfg["order"][0] - 1)
            parts.append("matching" + ("<" if d < 0 else ">" if d > 0 else "=") + "order-1")
        elif k == "scheme":
            parts.append(f"scheme={extra[k]}")
        elif k == "use_fhmruvv":
            parts.append(f"fhmruvv={int(extra[k])}")
        elif k == "n3lo_ad_variation":
            parts.append("n3lo_var=" + ("0" if not any(extra[k]) else "set"))
        elif k in ("iterations", "degree", "is_log", "skip_singlet", "skip_non_singlet"):
            parts.append(f"{k}={int(extra[k])}")
        elif k == "ratios":
            parts.append("ratios!=1")
        elif k == "xif":
            parts.append("xif<1" if extra[k] < 1 else "xif>=1")
        elif k in ("mass_refs", "sv"):
            continue
        else:
            parts.append(k)
    return "/" + ",".join(parts)


def case_cfg(case):
    cfg = to_cfg(case["assign"])
    if cfg is not None and case.get("extra"):
        cfg.update(case["extra"])
    return cfg


def evaluate(case):
    res = Result()
    if case["kind"] == "entry":
        return _entry(case, res)
    cfg = case_cfg(case)
    extra = case.get("extra") or {}
    sigc = _sig_class(cfg)
    xcls = _extra_class(cfg, extra)
    where = f"cfg={ {k: cfg[k] for k in ('order','em_running','method','sv','xif','inversion','polarized','time_like','init','mugrid')} }"
    if extra:
        where += f" extra={extra}"
    seam = case["kind"]
    try:
        if seam == "s1":
            n = s1_eval(cfg, res, f"S1/{sigc}{xcls}")
            res.info = {"values": n}
            res.outcome = "finite" if not res.fails else "nonfinite"
        else:
            ops = s1r_solve(cfg) if seam == "s1r" else cards.solve_ops(cfg, tag="c04")
            bad = [ep for ep, (o, e) in ops.items() if not np.all(np.isfinite(o)) or (e is not None and not np.all(np.isfinite(e)))]
            if bad or not ops:
                res.fail(f"{seam.upper()}/{sigc}{xcls}/nonfinite", f"{where}: non-finite entries written for {bad}")
            res.outcome = "finite"
    except Exception as e:  # noqa
        clean, site, why = _refusal(e, _card_facts(cards.full(cfg)))
        coords = f"qed={int(cfg['order'][1] > 0)},sv={cfg['sv']},run={int(cfg['em_running'])}{xcls}"
        if clean:
            res.outcome = f"refused:{type(e).__name__}:{str(e)[:60]}"
            res.nontrivial = False
        elif why == "crash":
            res.fail(
                f"{seam.upper()}/crash/{type(e).__name__}@{site}/{coords}",
                f"{where}: {type(e).__name__}: {str(e)[:200]} at {site} (not an explicit refusal raised by eko)",
            )
            res.outcome = f"crash:{type(e).__name__}"
        else:
            res.fail(
                f"{seam.upper()}/unclean-refusal/{type(e).__name__}@{site}/{why}/{coords}",
                f"{where}: refusal {type(e).__name__}({str(e)[:200]!r}) at {site} does not name the unsupported feature of this card: {why}",
            )
            res.outcome = f"unclean-refusal:{why}"
    if res.fails:
        for f in res.fails:
            f.message = where + " " + f.message if not f.message.startswith("cfg=") else f.message
    return res


QED_NS_MODES = (10102, 10103, 10202, 10203)


def _entry(case, res):
    """Highest-order component of an entry-point tower must be non-zero unless refused."""
    import ekore.anomalous_dimensions.polarized.space_like as ad_ps
    import ekore.anomalous_dimensions.unpolarized.space_like as ad_us
    import ekore.anomalous_dimensions.unpolarized.time_like as ad_ut
    import ekore.operator_matrix_elements.polarized.space_like as ome_ps
    import ekore.operator_matrix_elements.unpolarized.space_like as ome_us
    import ekore.operator_matrix_elements.unpolarized.time_like as ome_ut

    kind, what, k, nf = case["phys"], case["what"], case["order"], case["nf"]
    n = complex(3.3, 0.7)
    L = 1.3
    var = (0, 0, 0, 0, 0, 0, 0)
    sig = f"entry/{kind}/{what}/order={k}"
    is_ome = what.startswith("A_")
    facts = {
        "qed": what.endswith("_qed") or "_qed:" in what,
        "method-not-iterate-exact": False,
        "polarized": kind == "pol",
        "time_like": kind == "tl",
        "n3lo": (k >= 3) if is_ome else (k >= 4),
        "nf6": nf >= 6,
        "msbar": False,
    }
    comps = None  # {name: component} for towers with several top components
    try:
        if what.startswith("gamma_ns:"):
            mode = int(what.split(":")[1])
            if kind == "unpol":
                g = ad_us.gamma_ns((k, 0), mode, n, nf, var, True)
            elif kind == "pol":
                g = ad_ps.gamma_ns((k, 0), mode, n, nf)
            else:
                g = ad_ut.gamma_ns((k, 0), mode, n, nf)
            comp = np.atleast_1d(g[k - 1])
        elif what == "gamma_singlet":
            if kind == "unpol":
                g = ad_us.gamma_singlet((k, 0), n, nf, var, True)
            elif kind == "pol":
                g = ad_ps.gamma_singlet((k, 0), n, nf)
            else:
                g = ad_ut.gamma_singlet((k, 0), n, nf)
            comp = g[k - 1]
        elif what == "A_singlet":
            if kind == "unpol":
                g = ome_us.A_singlet((k, 0), n, nf, L, False)
            elif kind == "pol":
                g = ome_ps.A_singlet((k, 0), n, nf, L)
            else:
                g = ome_ut.A_singlet((k, 0), n, L)
            comp = g[k - 1]
        elif what == "A_ns":
            if kind == "unpol":
                g = ome_us.A_non_singlet((k, 0), n, nf, L)
            elif kind == "pol":
                g = ome_ps.A_non_singlet((k, 0), n, L)
            else:
                g = ome_ut.A_non_singlet((k, 0), n, L)
            comp = g[k - 1]
        elif what.startswith("gamma_ns_qed:") or what in ("gamma_singlet_qed", "gamma_valence_qed"):
            # QED towers (unpolarised space-like only): order = (k, q); top components are (k,0), (0,q) and the mixed (1,1)
            q = case["qed"]
            if what.startswith("gamma_ns_qed:"):
                g = ad_us.gamma_ns_qed((k, q), int(what.split(":")[1]), n, nf, var, True)
            elif what == "gamma_singlet_qed":
                g = ad_us.gamma_singlet_qed((k, q), n, nf, var, True)
            else:
                g = ad_us.gamma_valence_qed((k, q), n, nf, var, True)
            sig = f"entry/{kind}/{what}/order={k},{q}"
            comps = {f"{k},0": g[k, 0], f"0,{q}": g[0, q], "1,1": g[1, 1]}
            comp = np.concatenate([np.atleast_1d(v).ravel() for v in comps.values()])
        else:
            raise HarnessError(what)
    except HarnessError:
        raise
    except Exception as e:  # noqa
        clean, site, why = _refusal(e, facts)
        if clean:
            res.outcome = "refused"
            res.nontrivial = False
            return res
        if why == "crash":
            res.fail(sig + f"/crash/{type(e).__name__}", f"nf={nf} N={n}: {type(e).__name__}: {str(e)[:200]} at {site}")
        else:
            res.fail(sig + f"/unclean-refusal/{why}", f"nf={nf} N={n}: refusal {type(e).__name__}({str(e)[:200]!r}) at {site}: {why}")
        return res
    if not np.all(np.isfinite(comp)):
        res.fail(sig + "/nonfinite", f"nf={nf} N={n}: {comp}")
    elif comps is not None:
        for name, v in comps.items():
            if np.all(np.asarray(v) == 0):
                res.fail(sig + f"/silent-zero/component={name}", f"nf={nf} N={n}: the ({name}) component is identically zero instead of being refused")
    elif np.all(comp == 0):
        if kind == "tl" and is_ome and k >= 2:
            res.outcome = "documented-zero"
            return res
        if what == "A_ns" and k == 1 and kind in ("pol", "tl"):
            # the O(a_s) light-quark non-singlet matching element vanishes identically (only the intrinsic heavy-quark
            # entry of the unpolarised tower is non-zero at this order): a physical zero, not a missing ingredient
            res.outcome = "physical-zero"
            return res
        res.fail(sig + "/silent-zero", f"nf={nf} N={n}: the order-{k} component is identically zero instead of being refused")
    res.outcome = "nonzero"
    return res


def _a(**kw):
    """Assignment from BASES[0] (LO, QCD only, iterate-exact, no sv, exact inversion, unpolarised, up 4->5) with deviations."""
    a = dict(BASES[0])
    a.update(kw)
    return a


M_IDX = {m: i for i, m in enumerate(cards.METHODS)}
N3LO_SETTINGS = [
    dict(use_fhmruvv=False, n3lo_ad_variation=[0, 0, 0, 0, 0, 0, 0]),
    dict(use_fhmruvv=True, n3lo_ad_variation=[1, 2, 1, 2, 1, 2, 1]),
    dict(use_fhmruvv=False, n3lo_ad_variation=[1, 2, 3, 1, 1, 1, 1]),
]


def extra_cases(thorough):
    """Cards that leave the 9-dimensional product in ONE further runcard setting with distinct code behind it
    (ev_op_max_order, mass scheme, N3LO parametrisation/variation, matching order, matching ratios, interpolation
    mode/degree, iteration count, xif < 1, debug skip flags). All through the real runner (seam S1r)."""
    out = []

    def add(assign, extra, kind="s1r"):
        if to_cfg(assign) is not None:
            out.append(dict(kind=kind, assign=assign, extra=extra))

    up, down, single = 1, 2, 0
    # (1) ev_op_max_order: only the two perturbative methods read it
    for qcd in range(4):
        for m in ("perturbative-exact", "perturbative-expanded"):
            for mo in (0, 1, 2, 10):
                add(_a(qcd=qcd, method=M_IDX[m]), dict(max_order=[mo, 0]))
    # the same through the un-stubbed solve: one card below the bound max_order >= order-1 (refused since 744418a1; an
    # IndexError in r_vec before), one on it
    add(_a(qcd=1, method=M_IDX["perturbative-exact"]), dict(max_order=[0, 0]), kind="s3")
    add(_a(qcd=1, method=M_IDX["perturbative-expanded"]), dict(max_order=[1, 0]), kind="s3")
    # (2) MSbar masses: own solver with own refusals; is_msbar term of the NNLO matching (reference scale = mass skips the solver)
    for qcd in range(4):
        for shape, nf in ((up, 1), (down, 2)):
            add(_a(qcd=qcd, shape=shape, nf=nf), dict(scheme="MSBAR", mass_refs=list(M)))
            add(_a(qcd=qcd, shape=shape, nf=nf), dict(scheme="MSBAR", mass_refs=[3.0, 3.0, 100.0]))  # m_b(3) with 3 < m_b: refused
            add(_a(qcd=qcd, shape=shape, nf=nf), dict(scheme="MSBAR", mass_refs=[3.0, 6.0, 100.0]))  # runs the mass solver
    add(_a(qcd=1, qed=1), dict(scheme="MSBAR", mass_refs=list(M)))
    add(_a(qcd=2, kind=1), dict(scheme="MSBAR", mass_refs=list(M)))
    add(_a(qcd=2, kind=2), dict(scheme="MSBAR", mass_refs=list(M)))
    # (3) N3LO: the other parametrisation and non-central variations
    for n3 in N3LO_SETTINGS:
        for shape, nf in ((single, 1), (up, 1)) + (((down, 2), (single, 3)) if thorough else ()):
            for m in ("iterate-exact", "truncated") + (("perturbative-exact", "decompose-exact") if thorough else ()):
                add(_a(qcd=3, shape=shape, nf=nf, method=M_IDX[m]), dict(n3))
    add(_a(qcd=3, qed=1), dict(N3LO_SETTINGS[2]))
    # (4) matching order different from order-1 (0 = no matching, 3 = N3LO matching below N3LO evolution, 4 = beyond what exists)
    for qcd in range(4):
        for shape, nf in ((up, 1), (down, 2)):
            for mo in (0, 3, 4):
                if mo != qcd:
                    add(_a(qcd=qcd, shape=shape, nf=nf), dict(matching_order=[mo, 0]))
    for kind in (1, 2):
        for mo in (0, 3):
            add(_a(qcd=1, kind=kind), dict(matching_order=[mo, 0]))
    add(_a(qcd=1, inversion=1, shape=down, nf=2), dict(matching_order=[3, 0]))
    # (5) matching ratios != 1 (L != 0), linear interpolation, degree 2, iterations 0/1, xif < 1; (6) debug skip flags
    others = [
        dict(ratios=[0.7, 1.5, 2.0]),
        dict(is_log=False),
        dict(degree=2),
        dict(iterations=0),
        dict(iterations=1),
        dict(xif=0.5),
        dict(skip_singlet=True),
        dict(skip_non_singlet=True),
    ]
    for b in BASES + ([_a(qcd=3), _a(qcd=3, shape=down, nf=2, inversion=1, sv=1)] if thorough else []):
        for ex in others:
            ex = dict(ex)
            if "xif" in ex and DIMS["sv"][b["sv"]]["sv"] is None:
                ex["sv"] = "exponentiated"
            add(dict(b), ex)
    add(_a(qcd=2, shape=down, nf=2), dict(ratios=[0.7, 1.5, 2.0]))
    add(_a(qcd=2, shape=down, nf=2, inversion=1), dict(ratios=[0.7, 1.5, 2.0]))
    add(_a(qcd=1, sv=2), dict(xif=0.5))
    return out


def entry_cases():
    cases = []
    for phys in ("unpol", "pol", "tl"):
        for k in (1, 2, 3, 4):
            for nf in (3, 4, 5):
                for what in ("gamma_ns:10101", "gamma_ns:10201", "gamma_ns:10200", "gamma_singlet"):
                    cases.append(dict(kind="entry", phys=phys, what=what, order=k, nf=nf))
                if k <= 3:
                    cases.append(dict(kind="entry", phys=phys, what="A_singlet", order=k, nf=nf))
                    cases.append(dict(kind="entry", phys=phys, what="A_ns", order=k, nf=nf))
    # QED towers (unpolarised space-like is the only physics with QED)
    for k in (1, 2, 3, 4):
        for q in (1, 2):
            for nf in (3, 4, 5):
                for what in [f"gamma_ns_qed:{m}" for m in QED_NS_MODES] + ["gamma_singlet_qed", "gamma_valence_qed"]:
                    cases.append(dict(kind="entry", phys="unpol", what=what, order=k, qed=q, nf=nf))
    return cases


def run(ctx):
    cases = []
    if ctx.thorough():
        s1 = list(conf.full_product(DIMS))
        s3 = list(conf.union(*[conf.neighbourhood(DIMS, b, 1) for b in BASES]))
        s3 += [a for a in conf.neighbourhood(DIMS, BASES[0], 2) if a["qcd"] <= 1 and a["qed"] == 0]
    else:
        s1 = list(conf.union(*[conf.neighbourhood(DIMS, b, 2) for b in BASES]))
        s3 = list(conf.union(*[conf.neighbourhood(DIMS, b, 1) for b in BASES[:3]]))
    skipped = 0
    for a in s1:
        if to_cfg(a) is None:
            skipped += 1
            continue
        cases.append(dict(kind="s1", assign=a))
    # S1r: the same integrand-point idea, but through the real runner (parts.evolve/match, join, archive)
    s1r = s1 if not ctx.thorough() else [a for a in s1 if a["qcd"] <= 2 or (a["method"] in (0, 4) and a["inversion"] == 0)]
    for a in s1r:
        if to_cfg(a) is not None and (ctx.thorough() or a["qcd"] <= 2):
            cases.append(dict(kind="s1r", assign=a))
    seen = set()
    for a in s3:
        key = tuple(sorted(a.items()))
        if to_cfg(a) is None or key in seen:
            continue
        seen.add(key)
        cases.append(dict(kind="s3", assign=a))
    extras = extra_cases(ctx.thorough())
    cases += extras
    entries = entry_cases()
    cases += entries
    # cheap cards first in each worker chunk does not matter; N3LO cards dominate the wall time
    ctx.run_cases(cases, evaluate, chunksize=4)
    ctx.extra["impossible_shape_nf_combinations_skipped"] = skipped
    ctx.extra["cards_outside_the_product"] = len(extras)
    ctx.rule = (
        ("full product of the 9 runcard dimensions (55 296 assignments, those with an impossible (shape, nf) pair skipped)" if ctx.thorough()
         else "all cards within 2 deviations of 4 base cards over the 9 runcard dimensions")
        + " at the integrand seam (every recipe, every sector label, 3 (x, basis) pairs, 3 u-points) and, for a sub-product (quick: QCD order <= 2; thorough: order <= 2 fully, order 3-4 for 2 methods), through the real runner with the quadrature replaced by a 3-point evaluation (seam S1r); real solves on the <=1-deviation sets; "
        f"{len(extras)} cards that leave the product in one further setting (ev_op_max_order 0/1/2/10 x QCD order x the 2 perturbative methods; MSbar masses with consistent and "
        "inconsistent reference scales x order x up/down; N3LO with the non-FHMRUVV parametrisation and non-central variations; matching order 0/3/4 != order-1; "
        "matching ratios != 1, linear interpolation, degree 2, 0/1 iterations, xif = 0.5, skip flags on the base cards) through the real runner (S1r; 2 un-stubbed); "
        f"{len(entries)} entry-point towers (QCD anomalous dimensions, singlet and non-singlet matching, the three QED towers with components (k,0), (0,q), (1,1)) "
        "for the silent-zero clause; non-trivial = not refused"
    )
    ctx.assumptions += [
        "a refusal is clean when it is a NotImplementedError/ValueError raised by an explicit `raise` statement inside eko/ekore/ekobox (innermost frame), whose message "
        "contains a feature word (QED, iterate-exact, polarized, time-like, beyond NNLO / at N3LO, nf=6, MSbar, method, order, scheme, ...) and every checkable feature it names "
        "is really set in the card; a ValueError coming out of numpy/math/builtins (broadcast, domain, singular matrix, conversion) is a crash",
        "integrand seam: finiteness at the sampled (x, basis, u) points stands for finiteness of the quadrature; at x = 1 the integrand is 0 by an early return, so grid point k=2 exercises no kernel",
        "settings outside the 9 product dimensions are visited one at a time on a few base cards, not in combination with each other",
        "silent-zero exceptions: time-like matching beyond NLO (documented); the O(a_s) polarised/time-like non-singlet matching element (vanishes identically in QCD)",
    ]
