"""C18 MSbar heavy-quark masses are computable fixed points m(m) = m.

kinds of cases (each a complete enumeration):
  table    msbar_masses.compute_matching_coeffs_up/down(nl), nl = 3,4,5: constants vs published, logarithms
           vs the ones derived from RG invariance (with the code's own constants), down = reciprocal series
  kernel   ker_exact / ker_expanded on a coupling lattice x order 1-4 x nf 3-6 vs an mpmath quadrature of
           gamma_m/beta (literature tables) and an independently derived expanded series
  evolve   msbar_masses.evolve across one matching scale, in both directions, called the way compute() calls
           it: the running mass must change by the decoupling relation (linear mass!) at the matching scale
           k*m^2 with L = ln k
  compute  msbar_masses.compute on the product of reference-scale choices for (c, b, t) (at the mass, above
           near/far, below near/far) x coupling reference nf 3-6 x order x method x ratios x xif:
           consistent inputs -> no error, sorted, every mass a fixed point in the stated patch (independent
           re-evolution); inconsistent inputs -> ValueError; plus explicit inputs whose fixed points are not ascending
           (given so / only after the solve) -> ValueError, with a sorted control
  card     the glue io/runcards.masses(theory card, evolution method): linear matching ratios and xif on the card, order
           with its QED entry, em_running, ModEv -> coupling method; same fixed-point oracle (all masses solved in-patch)

Two defects of msbar_masses.evolve are recorded in known_findings (decoupling factor applied once to m^2; mass matched at
k^2 xif2 m_h^2).  They are *modelled* here (same independent walk with these two switches): a failing case is filed under
the recorded signature only if eko's number equals the model's within TOL_MODEL; every other failure of the same cases
carries a `beyond-known-defects` signature with order / quark / wall / direction and is a violation.
"""

import itertools
import math
import types

from vf.core.ctx import Result

ID = "C18"
LEVEL = "exploration"
TECHNIQUE = "complete input lattice vs independent mpmath mass-RGE integrator, exact series algebra for the decoupling tables"
LEVEL_TEXT = (
    "all combinations of reference-scale placements of the three heavy quarks, coupling reference nf, order, method, "
    "matching ratios and xif on the lattice are run through msbar_masses.compute and re-evolved with an independent "
    "integrator; decoupling tables decided exactly; the theory-card glue runcards.masses on a small product; the two recorded "
    "defects of evolve are pinned by a model of the wrong behaviour, so that the cases they affect still decide everything else"
)
LEVEL_NOTE = (
    "decides on the lattice only; the coupling a_s^(nf)(mu) is taken from eko's Couplings (C15/C16's subject); "
    "literature tables typed by hand with import-time cross-checks; if the pinned NumPy refuses the 1-element-array to "
    "scalar conversion inside solve(), the remaining oracles are evaluated with fsolve's argument/result converted to "
    "scalars (the conversion failure itself is reported as a violation); cases hit by a recorded defect are compared with the "
    "model of that defect (published constants except the two 6-digit three-loop constants, taken from the code's table that kind "
    "`table` decides) instead of the specification"
)
FLOOR_NONTRIVIAL = 20

TOL_FIXED = 1e-6  # on m, when a matching with the three-loop constants (6 printed digits) is involved
TOL_FIXED_EXACT = 1e-10  # otherwise (fsolve converges to rounding)
TOL_EVOLVE_EXACT = 1e-9
import os

COMPUTE_TIMEOUT_S = int(os.environ.get("VERIF_C18_TIMEOUT", "300"))  # CPU seconds; one compute() takes 0.1-3 s; a runaway (e.g. a root search drifting into a Landau pole) is a failure
COUPLING_REFS = {3: (1.1, 0.40), 4: (3.0, 0.25), 5: (91.2, 0.118), 6: (500.0, 0.095)}
OPTIONS = {
    "c": {"at": (1.27, 1.27), "up1": (1.10, 2.0), "up2": (0.88, 10.0), "dn1": (1.30, 1.2), "dn2": (1.29, 1.25)},
    "b": {"at": (4.18, 4.18), "up1": (3.6, 10.0), "up2": (2.7, 300.0), "dn1": (4.5, 3.0), "dn2": (4.9, 1.2)},
    "t": {"at": (163.0, 163.0), "up1": (150.0, 600.0), "up2": (140.0, 3000.0), "dn1": (170.0, 100.0), "dn2": (190.0, 3.0)},
}


# ------------------------------------------------------------------------------------------ helpers
def _shimmed_fsolve():
    """fsolve handing a Python float to the residual function and returning a 0-d result."""
    import numpy as np
    from scipy import optimize

    def fsolve(func, x0, args=()):
        sol = optimize.fsolve(lambda x, *a: func(float(np.ravel(x)[0]), *a), x0, args=args)
        return np.float64(np.ravel(sol)[0])

    return types.SimpleNamespace(fsolve=fsolve)


import contextlib


@contextlib.contextmanager
def _cpu_limit():
    """TimeoutError after COMPUTE_TIMEOUT_S of CPU time of this process (a runaway search burns CPU; a machine shared with other
    jobs must not turn a 3 s call into a "timeout"); wall-clock backstop at 20x."""
    import signal

    def _alarm(_sig, _frm):
        raise TimeoutError(f"msbar_masses.compute still running after {COMPUTE_TIMEOUT_S} s of CPU time")

    old_handler = signal.signal(signal.SIGALRM, _alarm)
    old_prof = signal.signal(signal.SIGPROF, _alarm)
    signal.alarm(20 * COMPUTE_TIMEOUT_S)
    signal.setitimer(signal.ITIMER_PROF, COMPUTE_TIMEOUT_S)
    try:
        yield
    finally:
        signal.setitimer(signal.ITIMER_PROF, 0)
        signal.alarm(0)
        signal.signal(signal.SIGALRM, old_handler)
        signal.signal(signal.SIGPROF, old_prof)


def _call_compute(inputs, nf_ref, order, method, ratios, xif2, shim):
    from eko import msbar_masses as mm
    from eko.quantities.couplings import CouplingEvolutionMethod, CouplingsInfo
    from eko.quantities.heavy_quarks import HeavyQuarkMasses, QuarkMassRef

    mu_ref, alphas = COUPLING_REFS[nf_ref]
    ci = CouplingsInfo.from_dict(dict(alphas=alphas, alphaem=0.0075, ref=(mu_ref, nf_ref), em_running=False))
    masses = HeavyQuarkMasses([QuarkMassRef(list(inputs[q])) for q in "cbt"])
    saved = mm.optimize
    if shim:
        mm.optimize = _shimmed_fsolve()
    try:
        with _cpu_limit():
            return mm.compute(masses, ci, (order, 0), CouplingEvolutionMethod(method), list(ratios), xif2)
    finally:
        mm.optimize = saved


def expected_consistency(inputs, nf_ref):
    """Independent reading of the consistency rules: returns list of violated rules (empty = consistent)."""
    mu_ref = COUPLING_REFS[nf_ref][0]
    bad = []
    for i, q in enumerate("cbt"):
        m, mu = inputs[q]
        if mu == m:
            continue  # the mass is given at its own scale: nothing to run
        active = i + 4 <= nf_ref  # the quark is among the nf_ref flavours of the coupling reference
        if active:
            if mu < m:
                bad.append(f"{q}: active at the coupling reference but given below its mass")
            if i + 4 == nf_ref and mu > mu_ref:
                bad.append(f"{q}: heaviest active quark given above the coupling reference scale")
        else:
            if mu > m:
                bad.append(f"{q}: not active at the coupling reference but given above its mass")
            if i + 3 == nf_ref and mu < mu_ref:
                bad.append(f"{q}: lightest inactive quark given below the coupling reference scale")
    return bad


# ------------------------------------------------------------------------------------------ table
def _eval_table(case):
    import mpmath as mp
    import numpy as np

    from eko import msbar_masses as mm
    from vf.ref import c16_decoupling as dec

    nl = case["nl"]
    res = Result()
    up = np.array(mm.compute_matching_coeffs_up(nl), dtype=float)
    down = np.array(mm.compute_matching_coeffs_down(nl), dtype=float)
    where = f"nl={nl}"
    pub = dec.mass_up_published(nl)
    mx_c = mx_l = mx_i = 0.0
    for n in range(4):
        for k in range(4):
            if (n <= 1 or k > n) and up[n, k] != 0.0:
                res.fail(f"msbar_masses.compute_matching_coeffs_up/structure/c{n}{k}", f"{where}: c[{n},{k}] = {up[n, k]!r} must vanish")
    for n in (2, 3):
        ref = pub[(n, 0)]
        dev = abs(mp.mpf(float(up[n, 0])) - ref) / abs(ref)
        mx_c = max(mx_c, float(dev))
        if dev > (mp.mpf("1e-13") if n == 2 else mp.mpf("2e-5")):
            res.fail(f"msbar_masses.compute_matching_coeffs_up/const/c{n}0", f"{where}: c[{n},0] = {up[n, 0]!r}, published {mp.nstr(ref, 12)}")
    consts = {n: mp.mpf(float(up[n, 0])) for n in (1, 2, 3)}
    rg = dec.mass_up_rg(nl, consts)
    for n in (1, 2, 3):
        for k in range(1, n + 1):
            ref = rg.get((n, k), mp.mpf(0))
            dev = abs(mp.mpf(float(up[n, k])) - ref) / max(abs(ref), 1)
            mx_l = max(mx_l, float(dev))
            # c31 carries zeta(3): the code has 6-7 printed digits
            tol = mp.mpf("2e-6") if (n, k) == (3, 1) else mp.mpf("1e-12")
            if dev > tol:
                res.fail(
                    f"msbar_masses.compute_matching_coeffs_up/log/c{n}{k}",
                    f"{where}: coefficient of a^{n} L^{k} is {up[n, k]!r}; RG invariance (beta, gamma_m of nl and nl+1 flavours, "
                    f"coupling decoupling) with the code's own constants requires {mp.nstr(ref, 15)} (literature {mp.nstr(pub.get((n, k), 0), 15)})",
                )
    # down = reciprocal series of the code's own up table (same expansion parameter a^(nl+1))
    z = {(0, 0): mp.mpf(1)}
    for n in range(1, 4):
        for k in range(4):
            if up[n, k] != 0.0:
                z[(n, k)] = mp.mpf(float(up[n, k]))
    d = dict(z)
    d[(0, 0)] = 0
    inv = {(0, 0): mp.mpf(1)}
    term = {(0, 0): mp.mpf(1)}
    for _ in range(4):
        term = dec.s_scale(dec.s_mul(term, d), -1)
        inv = dec.s_add(inv, term)
    for n in range(1, 4):
        for k in range(4):
            ref = inv.get((n, k), mp.mpf(0))
            dev = abs(mp.mpf(float(down[n, k])) - ref) / max(abs(ref), 1)
            mx_i = max(mx_i, float(dev))
            if dev > mp.mpf("1e-11"):
                res.fail(f"msbar_masses.compute_matching_coeffs_down/d{n}{k}", f"{where}: down[{n},{k}] = {down[n, k]!r}, reciprocal series of the up table has {mp.nstr(ref, 15)}")
    res.info = {"max_rel_dev_mass_const": mx_c, "max_rel_dev_mass_log": mx_l, "max_rel_dev_mass_inverse": mx_i}
    res.outcome = "table"
    return res


# ------------------------------------------------------------------------------------------ kernel
A_LATTICE = [0.002, 0.005, 0.0125, 0.03, 0.04]


def _eval_kernel(case):
    import mpmath as mp

    from eko import msbar_masses as mm
    from vf.ref import c18_mass as M

    order, nf = case["order"], case["nf"]
    res = Result()
    mx = {"max_rel_dev_ker_exact": 0.0, "max_rel_dev_ker_expanded": 0.0}
    g3 = float(mm.gamma(4, nf)) if order == 4 else None
    for a0, a1 in itertools.product(A_LATTICE, A_LATTICE):
        for name, f, ref_f, tol in (
            ("ker_exact", lambda: mm.ker_exact(a0, a1, (order, 0), nf), M.ker_exact, 1e-8),
            ("ker_expanded", lambda: mm.ker_expanded(a0, float(a1), (order, 0), nf), M.ker_expanded, 1e-12),
        ):
            try:
                got = float(f())
            except Exception as e:  # noqa
                res.fail(f"msbar_masses.{name}/raises", f"order={order} nf={nf} a0={a0} a1={a1}: {type(e).__name__}: {e}")
                continue
            ref = ref_f(a0, a1, order, nf)
            dev = abs(float(mp.mpf(got) / ref - 1))
            if not dev <= tol and g3 is not None:
                ref2 = ref_f(a0, a1, order, nf, g3)
                if abs(float(mp.mpf(got) / ref2 - 1)) <= tol:
                    res.fail(
                        f"msbar_masses.{name}/order=4/caused-by-gamma_qcd_as4",
                        f"nf={nf} a0={a0} a1={a1}: kernel {got!r}, reference with the literature gamma_m^(3) {mp.nstr(ref, 15)} "
                        f"(rel. dev. {dev:.2e}); it agrees with the reference only if eko's own gamma(4,{nf}) = {g3!r} is used (see C20)",
                    )
                    continue
            mx[f"max_rel_dev_{name}"] = max(mx[f"max_rel_dev_{name}"], dev)
            if not dev <= tol:
                res.fail(f"msbar_masses.{name}/order={order}", f"nf={nf} a0={a0} a1={a1}: kernel {got!r}, reference {mp.nstr(ref, 15)} (rel. dev. {dev:.2e})")
    res.info = mx
    res.outcome = f"kernel/order={order}"
    return res


# ------------------------------------------------------------------------------------------ model of the two recorded defects
TOL_MODEL = 1e-11  # agreement demanded between eko and the model of its two *recorded* defects (measured: see max_rel_dev_known_defect_model)


def _code_constants(nl):
    """The two three-loop constants the code carries with 6 printed digits (decided separately by kind `table`)."""
    from eko import msbar_masses as mm

    up = mm.compute_matching_coeffs_up(nl)
    return {(3, 0): float(up[3, 0]), (3, 1): float(up[3, 1])}


def _defect_walls(m2s, ratios, xif2):
    """Recorded defect `matching-scale-position`: the mass is matched at k_j^2 xif2 m_j^2 instead of k_j m_j^2."""
    return [k * k * xif2 * m for k, m in zip(ratios, m2s)]


def _known_defect_model(M, m2_ref, origin, target, walls_defect, ratios, a_of, order, method, g3):
    """m^2 as msbar_masses.evolve is *recorded* to compute it: linear-mass decoupling factor applied once to m^2
    (`decoupling-factor-not-squared`), matching scales at k^2 xif2 m^2 (`matching-scale-position`), L = ln k.
    Returns (value with exact reciprocal, value with series reciprocal, couplings used)."""
    seen = []

    def a_rec(s, nf):
        v = a_of(s, nf)
        seen.append(v)
        return v

    lo, hi, _ = M.walk(m2_ref, origin, target, walls_defect, ratios, a_rec, order, method, g3, factor_power=1, up_override_of=_code_constants)
    return lo, hi, seen


# ------------------------------------------------------------------------------------------ evolve
M2_FIXED = [1.27**2, 4.18**2, 163.0**2]


def _sc(order, method, nf_ref, masses2, ratios, xif2):
    """The Couplings object exactly as msbar_masses.compute builds it."""
    from vf.ref.c15_mk import make_couplings

    mu_ref, alphas = COUPLING_REFS[nf_ref]
    return make_couplings((order, 0), False, method, (mu_ref, nf_ref), alphas, 0.0075, masses2, [r * xif2 for r in ratios], "MSBAR")


def _eval_evolve(case):
    import warnings

    import mpmath as mp

    from eko import msbar_masses as mm
    from vf.ref import c18_mass as M

    order, method, ratios, xif2, nl, direction = case["order"], case["method"], case["ratios"], case["xif2"], case["nl"], case["direction"]
    res = Result()
    k = ratios[nl - 3]
    wall = k * M2_FIXED[nl - 3]  # matching scale of quark nl+1 (in units of the scale argument of the mass)
    walls = [r * m for r, m in zip(ratios, M2_FIXED)]
    sc = _sc(order, method, 5, M2_FIXED, ratios, xif2)

    def a_of(s, nf):
        return float(sc.a(float(s) * xif2, nf)[0])

    span = case["span"]
    if span == "zero":
        s_lo = s_hi = wall
    else:
        s_lo, s_hi = wall / 3.0, wall * 3.0
    if direction == "up":
        origin, target = (s_lo, nl), (s_hi, nl + 1)
    else:
        origin, target = (s_hi, nl + 1), (s_lo, nl)
    m2_ref = 2.0
    where = f"order={order} method={method} ratios={ratios} xif2={xif2} nl={nl} {direction} span={span}"
    with warnings.catch_warnings():
        warnings.simplefilter("ignore")
        try:
            got = float(mm.evolve(m2_ref, origin[0], sc, list(ratios), xif2, target[0], nf_ref=origin[1], nf_to=target[1]))
        except Exception as e:  # noqa
            res.fail("msbar_masses.evolve/raises", f"{where}: {type(e).__name__}: {e}")
            return res
    g3 = (lambda nf: float(mm.gamma(4, nf))) if order == 4 else None
    seen_a = []

    def a_of(s, nf, _f=a_of):  # noqa: F811  (records the couplings the reference walk needs)
        v = _f(s, nf)
        seen_a.append(v)
        return v

    lo, hi, ncross = M.walk(m2_ref, origin, target, walls, ratios, a_of, order, method, g3)
    if not all(math.isfinite(v) and 0 < v <= 0.6 / (4 * math.pi) for v in seen_a):
        # the walk would need alpha_s beyond 0.6 (or through the Landau pole): outside the domain of the statement
        res.outcome = "evolve/outside-perturbative-domain"
        res.nontrivial = False
        return res
    devs = [abs(float(mp.mpf(got) / r - 1)) for r in (lo, hi)]
    dev = min(devs)
    # order 4 carries the three-loop constants (6 printed digits in the code); below that every coefficient is exact
    tol = 2e-7 if order >= 4 else TOL_EVOLVE_EXACT
    res.info = {"max_rel_dev_evolve": dev if dev <= tol else 0.0}
    if not dev <= tol:
        # Two defects of evolve are recorded (known_findings): the linear-mass factor is applied once to m^2, and the mass is
        # matched at k^2 xif2 m_h^2.  A failure is filed under the recorded signature ONLY if the returned value is the one
        # these two defects predict; anything else is a different defect.
        unit = k == 1.0 and xif2 == 1.0  # the one matching scale crossed here is not displaced
        devm = math.inf
        try:
            lo1, hi1, seen1 = _known_defect_model(M, m2_ref, origin, target, _defect_walls(M2_FIXED, ratios, xif2), ratios, a_of, order, method, g3)
            if all(math.isfinite(v) and v > 0 for v in seen1):
                devm = min(abs(float(mp.mpf(got) / r - 1)) for r in (lo1, hi1))
        except Exception:  # noqa  (model not evaluable, e.g. coupling beyond its pole at the displaced matching scale)
            devm = math.inf
        if devm <= TOL_MODEL:
            kind = "decoupling-factor-not-squared" if unit else "matching-scale-position"
            res.info["max_rel_dev_known_defect_model"] = devm
        else:
            kind = f"beyond-known-defects/order={order}/nl={nl}/{direction}/ratios={'unit' if unit else 'non-unit'}"
        res.fail(
            f"msbar_masses.evolve/{kind}",
            f"{where}: evolve gives m^2 = {got!r} from m^2 = {m2_ref} at {origin} to {target}; the decoupling relation "
            f"m^(nl+1) = m^(nl) * zeta (matching scale {wall!r} = k*m_h^2, L = ln {k}) requires {mp.nstr(lo, 15)} "
            f"(series-truncated inverse: {mp.nstr(hi, 15)}); relative deviation {dev:.3e}; deviation from the value predicted "
            f"by the two recorded defects (factor not squared, matching at k^2*xif2*m_h^2): {devm:.3e} (limit {TOL_MODEL})",
        )
    res.nontrivial = order >= 3 or span != "zero"
    res.outcome = f"evolve/{span}/order={order}"
    return res


# ------------------------------------------------------------------------------------------ compute
def _perturbative(inputs, nf_ref, order, method, ratios, xif2):
    """alpha_s finite and <= 0.6 at every matching scale (both adjacent nf) and at every mass reference scale."""
    import warnings

    import numpy as np

    m2 = [inputs[q][0] ** 2 for q in "cbt"]
    with warnings.catch_warnings():
        warnings.simplefilter("ignore")
        try:
            sc = _sc(order, method, nf_ref, m2, ratios, xif2)
            pts = []
            for j in range(3):
                pts += [(ratios[j] * m2[j], j + 3), (ratios[j] * m2[j], j + 4)]
            pts += [(inputs[q][1] ** 2, None) for q in "cbt"] + [(inputs[q][0] ** 2, None) for q in "cbt"]
            for s, nf in pts:
                a = float(sc.a(s * xif2, nf)[0])
                if not (np.isfinite(a) and 0 < a <= 0.6 / (4 * math.pi)):
                    return False
        except Exception:  # noqa
            return False
    return True


def expected_unsorted(inputs, nf_ref, order, method, ratios, xif2, qed=0, em_running=False):
    """Independent reading of "the computed masses are sorted" on the input side: reasons why the fixed points cannot be
    ascending (such an input is inconsistent and has to be refused).  Decides (i) masses given at their own scale in the wrong
    order, (ii) ONE mass to be solved for whose running mass, taken to a neighbour's mass M, lies on the wrong side of M
    (m(mu) - mu is strictly decreasing, so the fixed point lies on that side too); everything else is left undecided ([])."""
    import warnings

    from vf.ref import c18_mass as M
    from vf.ref.c15_mk import make_couplings

    own = [inputs[q][0] == inputs[q][1] for q in "cbt"]
    bad = []
    for i, j in ((0, 1), (1, 2), (0, 2)):
        if own[i] and own[j] and inputs["cbt"[i]][0] > inputs["cbt"[j]][0] * (1 + 1e-6):
            bad.append(f"m_{'cbt'[i]}(m) = {inputs['cbt'[i]][0]} > m_{'cbt'[j]}(m) = {inputs['cbt'[j]][0]} (both given at their own scale)")
    if bad or sum(own) != 2:
        return bad
    i = own.index(False)
    q = "cbt"[i]
    m, mu = inputs[q]
    active = i + 4 <= nf_ref
    nf_target = i + 4 if active else i + 3
    m2s = [inputs[x][0] ** 2 for x in "cbt"]  # the own entry is a placeholder: its wall is never crossed below
    walls = [r * v for r, v in zip(ratios, m2s)]
    walls[i] = 0.0 if active else math.inf
    nf_cur = 3 + sum(1 for w in walls if w <= mu**2)
    mu_ref, alphas = COUPLING_REFS[nf_ref]
    with warnings.catch_warnings():
        warnings.simplefilter("ignore")
        sc = make_couplings((order, qed), em_running, method, (mu_ref, nf_ref), alphas, 0.0075, m2s, [r * xif2 for r in ratios], "MSBAR")

        def a_of(s, nf):
            return float(sc.a(float(s) * xif2, nf)[0])

        for j in (i - 1, i + 1):
            if not 0 <= j <= 2:
                continue
            M2 = m2s[j]
            try:
                lo, hi, _ = M.walk(m**2, (mu**2, nf_cur), (M2, nf_target), walls, ratios, a_of, order, method, None)
            except Exception:  # noqa
                continue
            r_lo, r_hi = float(lo / M2 - 1), float(hi / M2 - 1)
            if j > i and min(r_lo, r_hi) > 2e-3:
                bad.append(f"m_{q}(m_{'cbt'[j]}) = {math.sqrt(float(lo))!r} > m_{'cbt'[j]} = {inputs['cbt'[j]][0]}: the fixed point of {q} lies above the heavier quark")
            if j < i and max(r_lo, r_hi) < -2e-3:
                bad.append(f"m_{q}(m_{'cbt'[j]}) = {math.sqrt(float(lo))!r} < m_{'cbt'[j]} = {inputs['cbt'[j]][0]}: the fixed point of {q} lies below the lighter quark")
    return bad


CARD_INPUTS = {"c": (1.10, 2.0), "b": (3.6, 10.0), "t": (170.0, 100.0)}  # every mass has to be solved for, each inside its own patch
CARD_NF_REF = 5
CARD_METHODS = {"iterate-exact": "exact", "truncated": "expanded", "perturbative-expanded": "expanded", "decompose-exact": "exact"}  # as documented for ModEv


def _call_card(case, shim):
    """The anchored glue: theory card -> runcards.masses(theory, evolution method of the operator card)."""
    from eko import msbar_masses as mm
    from eko.io import runcards
    from eko.io.types import EvolutionMethod
    from vf.core import cards

    mu_ref, alphas = COUPLING_REFS[CARD_NF_REF]
    theory, _ = cards.build(
        dict(
            order=list(case["order"]), alphas=alphas, alphaem=0.0075, ref=[mu_ref, CARD_NF_REF], em_running=case["em_running"],
            masses=[CARD_INPUTS[q][0] for q in "cbt"], mass_refs=[CARD_INPUTS[q][1] for q in "cbt"], scheme="MSBAR",
            ratios=list(case["lin_ratios"]), xif=case["xif"],
        )
    )
    saved = mm.optimize
    if shim:
        mm.optimize = _shimmed_fsolve()
    try:
        with _cpu_limit():
            return runcards.masses(theory, EvolutionMethod(case["ev_method"]))
    finally:
        mm.optimize = saved


def _eval_compute(case):
    import warnings

    import mpmath as mp
    import numpy as np

    from eko import msbar_masses as mm
    from vf.ref import c18_mass as M

    card = case["kind"] == "card"
    qed, em_running = 0, False
    if card:
        # linear ratios and xif on the card; the statement's (squared-scale) ratios are their squares
        inputs = dict(CARD_INPUTS)
        nf_ref, order, qed, em_running = CARD_NF_REF, case["order"][0], case["order"][1], case["em_running"]
        method = CARD_METHODS[case["ev_method"]]
        ratios, xif2 = [r * r for r in case["lin_ratios"]], case["xif"] ** 2
    else:
        if "inputs" in case:
            inputs = {q: tuple(case["inputs"][q]) for q in "cbt"}
        else:
            inputs = {q: OPTIONS[q][case["choice"][i]] for i, q in enumerate("cbt")}
        nf_ref, order, method, ratios, xif2 = case["nf_ref"], case["order"], case["method"], case["ratios"], case["xif2"]
    res = Result()
    bad = expected_consistency(inputs, nf_ref)
    if not bad and "inputs" in case:
        bad = expected_unsorted(inputs, nf_ref, order, method, ratios, xif2)
    unit = all(r == 1.0 for r in ratios) and xif2 == 1.0
    if not bad and not _perturbative(inputs, nf_ref, order, method, ratios, xif2):
        # e.g. alpha_s^(3)(1.1 GeV) = 0.4 with matching ratio 0.25 and xif2 = 0.25: the coupling would have to be run
        # down to 0.3 GeV through its Landau pole; no statement is made there
        res.outcome = "outside-perturbative-domain"
        res.nontrivial = False
        return res
    where = f"inputs={inputs} coupling_ref={COUPLING_REFS[nf_ref]}@nf{nf_ref} order={order} method={method} ratios={ratios} xif2={xif2}"
    if card:
        where = f"runcards.masses(theory card: order={case['order']} em_running={em_running} matching_ratios={case['lin_ratios']} xif={case['xif']}; ev. method {case['ev_method']}) " + where
    out = None
    exc = None
    with warnings.catch_warnings():
        warnings.simplefilter("ignore")
        for shim in (False, True):
            try:
                out = _call_card(case, shim) if card else _call_compute(inputs, nf_ref, order, method, ratios, xif2, shim)
                exc = None
                break
            except ValueError as e:
                exc = e
                break
            except TypeError as e:
                if "0-dimensional" in str(e) or "scalar" in str(e):
                    if not shim:
                        res.fail(
                            "msbar_masses.solve/TypeError-array-to-scalar",
                            f"{where}: {type(e).__name__}: {e} (fsolve hands a 1-element array to the residual function; "
                            f"Couplings.compute does float(scale_to) and solve() does float(msbar_mass))",
                        )
                        continue
                exc = e
                break
            except Exception as e:  # noqa
                exc = e
                break
    trivial = all(inputs[q][0] == inputs[q][1] for q in "cbt")
    pre = "runcards.masses" if card else "msbar_masses.compute"
    if bad:
        res.outcome = "inconsistent->" + (type(exc).__name__ if exc is not None else "returned")
        if any("fixed point of" in b or "own scale" in b for b in bad):
            res.outcome = "unsorted->" + (type(exc).__name__ if exc is not None else "returned")
        if not isinstance(exc, ValueError):
            res.fail(
                "msbar_masses.compute/inconsistent-input-accepted",
                f"{where}: inconsistent ({'; '.join(bad)}) but " + (f"raised {type(exc).__name__}: {exc}" if exc else f"returned {np.array(out).tolist()}"),
            )
        res.nontrivial = True
        return res
    if exc is not None:
        res.outcome = "consistent->" + type(exc).__name__
        res.fail(f"{pre}/consistent-input-raises/{type(exc).__name__}", f"{where}: {type(exc).__name__}: {exc}")
        return res
    if card and not (isinstance(out, list) and all(isinstance(v, float) for v in out)):
        res.fail("runcards.masses/return-type", f"{where}: a list of floats is announced, got {type(out).__name__}: {out!r}")
    out = np.array(out, dtype=float)
    if not (out.shape == (3,) and np.all(np.isfinite(out)) and np.all(np.diff(out) >= 0)):
        res.fail(f"{pre}/not-sorted", f"{where}: returned {out.tolist()}")
        return res
    # fixed points
    walls = [r * m for r, m in zip(ratios, out)]
    sc = None
    mxdev = 0.0
    ncross_total = 0
    nambiguous = 0
    mxmodel = 0.0
    nknown = 0
    with warnings.catch_warnings():
        warnings.simplefilter("ignore")
        from vf.ref.c15_mk import make_couplings

        mu_ref, alphas = COUPLING_REFS[nf_ref]
        sc = make_couplings((order, qed), em_running, method, (mu_ref, nf_ref), alphas, 0.0075, out.tolist(), [r * xif2 for r in ratios], "MSBAR")

        def a_of(s, nf):
            return float(sc.a(float(s) * xif2, nf)[0])

        g3 = (lambda nf: float(mm.gamma(4, nf))) if order == 4 else None
        for i, q in enumerate("cbt"):
            m, mu = inputs[q]
            if mu == m:
                if abs(out[i] / m**2 - 1) > 1e-14:
                    res.fail(f"{pre}/given-at-own-scale", f"{where}: m_{q}({m}) = {m} given but {math.sqrt(out[i])!r} returned")
                continue
            active = i + 4 <= nf_ref
            nf_target = i + 4 if active else i + 3
            # the quark's own matching scale is no wall for its own mass: the fixed point is sought in the patch
            # adjoining its threshold on the side of the coupling reference, formally continued
            walls_i = list(walls)
            walls_i[i] = 0.0 if active else math.inf
            nf_cur = 3 + sum(1 for w in walls_i if w <= mu**2)
            if any(min(w, mq) < mu**2 <= max(w, mq) or min(w, mq) <= mu**2 < max(w, mq) for j, (w, mq) in enumerate(zip(walls, out)) if j != i and w != mq):
                # the reference scale lies between another quark's mass and its matching scale: the statement does
                # not say in which flavour-number scheme such an input is meant
                nambiguous += 1
                continue
            try:
                lo, hi, ncross = M.walk(m**2, (mu**2, nf_cur), (float(out[i]), nf_target), walls_i, ratios, a_of, order, method, g3)
            except Exception as e:  # noqa
                res.fail(f"{pre}/reference-walk-impossible", f"{where}: quark {q}: {type(e).__name__}: {e}")
                continue
            ncross_total += ncross
            dev = min(abs(float(mp.sqrt(r / mp.mpf(float(out[i]))) - 1)) for r in (lo, hi))
            # the three-loop constants (6 printed digits in the code) enter only through a matching at order 4
            tol_fp = TOL_FIXED if (ncross > 0 and order >= 4) else TOL_FIXED_EXACT
            mxdev = max(mxdev, dev) if dev <= tol_fp else mxdev
            if not dev <= tol_fp:
                # recorded (known_findings): consequences of the two defects of evolve.  Filed under the recorded signature ONLY
                # if the returned mass is the fixed point of the evolution *with exactly these two defects*
                devm = math.inf
                try:
                    walls_d = _defect_walls(out.tolist(), ratios, xif2)
                    walls_d[i] = walls_i[i]
                    lo1, hi1, seen1 = _known_defect_model(M, m**2, (mu**2, nf_cur), (float(out[i]), nf_target), walls_d, ratios, a_of, order, method, g3)
                    if all(math.isfinite(v) and v > 0 for v in seen1):
                        devm = min(abs(float(mp.sqrt(r / mp.mpf(float(out[i]))) - 1)) for r in (lo1, hi1))
                except Exception:  # noqa
                    devm = math.inf
                if ncross > 0 and devm <= TOL_MODEL:
                    sig = f"{pre}/fixed-point/crossing=True/ratios={'unit' if unit else 'non-unit'}"
                    mxmodel = max(mxmodel, devm)
                    nknown += 1
                else:
                    sig = f"{pre}/fixed-point/beyond-known-defects/crossing={ncross > 0}/order={order}/q={q}"
                res.fail(
                    sig,
                    f"{where}: returned m_{q} = {math.sqrt(out[i])!r} (nf={nf_target} patch), but evolving m_{q}({mu}) = {m} from "
                    f"nf={nf_cur} to that scale gives m_{q}(m_{q}) = {mp.nstr(mp.sqrt(lo), 12)} (relative deviation {dev:.3e} > {tol_fp}); "
                    f"deviation from the fixed point predicted by the two recorded defects of evolve (factor not squared, matching at "
                    f"k^2*xif2*m_h^2): {devm:.3e} (limit {TOL_MODEL})",
                )
    res.info = {"max_rel_dev_fixed_point": mxdev, "crossings": ncross_total, "ambiguous_skipped": nambiguous}
    if nknown:
        res.info["max_rel_dev_known_defect_model"] = mxmodel
        res.info["known_defect_quarks"] = nknown
    res.nontrivial = not trivial
    res.outcome = ("card->ok" if card else "consistent->ok") + f"/crossings={min(ncross_total, 2)}"
    return res


def evaluate(case):
    return {"table": _eval_table, "kernel": _eval_kernel, "evolve": _eval_evolve, "compute": _eval_compute, "card": _eval_compute}[case["kind"]](case)


RATIO_XIF_QUICK = [([1.0, 1.0, 1.0], 1.0), ([0.5, 2.0, 1.0], 4.0)]
RATIO_XIF_THOROUGH = RATIO_XIF_QUICK + [([0.5, 2.0, 1.0], 1.0), ([2.0, 1.0, 0.5], 4.0), ([1.0, 1.0, 1.0], 0.25), ([4.0, 0.25, 2.0], 1.0), ([0.25, 4.0, 1.0], 0.25)]


def run(ctx):
    thorough = ctx.thorough()
    cases = [{"kind": "table", "nl": nl} for nl in (3, 4, 5)]
    cases += [{"kind": "kernel", "order": o, "nf": nf} for o in (1, 2, 3, 4) for nf in (3, 4, 5, 6)]
    rx = RATIO_XIF_THOROUGH if thorough else RATIO_XIF_QUICK
    for o, (r, x), nl, d, span in itertools.product((1, 2, 3, 4), rx, (3, 4, 5), ("up", "down"), ("zero", "wide")):
        for method in ("expanded", "exact") if thorough else ("expanded",):
            cases.append({"kind": "evolve", "order": o, "method": method, "ratios": r, "xif2": x, "nl": nl, "direction": d, "span": span})
    om = [(1, "expanded"), (2, "exact"), (3, "expanded"), (4, "expanded")]
    if thorough:
        om = [(o, m) for o in (1, 2, 3, 4) for m in ("expanded", "exact")]
    names = list(OPTIONS["c"].keys())
    for nf_ref, choice in itertools.product((3, 4, 5, 6), itertools.product(names, names, names)):
        inputs = {q: OPTIONS[q][choice[i]] for i, q in enumerate("cbt")}
        if expected_consistency(inputs, nf_ref):
            # refused before anything is computed: one configuration is enough
            cases.append({"kind": "compute", "choice": list(choice), "nf_ref": nf_ref, "order": 3, "method": "expanded", "ratios": [1.0, 1.0, 1.0], "xif2": 1.0})
            continue
        for (o, m), (r, x) in itertools.product(om, rx):
            cases.append({"kind": "compute", "choice": list(choice), "nf_ref": nf_ref, "order": o, "method": m, "ratios": r, "xif2": x})
    # the ordering refusal: (i) masses given at their own scale in the wrong order, (ii) only the *solved* mass ends up below
    # the lighter quark (b given as m_b(3 GeV) = 4.5 -> m_b(m_b) ~ 4.2 < m_c = 4.3), (iii) control of (ii): sorted, must be solved
    for nf_ref, inp, (o, m) in (
        [(n, {"c": [5.0, 5.0], "b": [4.18, 4.18], "t": [163.0, 163.0]}, (3, "expanded")) for n in (3, 4, 5, 6)]
        + [(n, {"c": [1.27, 1.27], "b": [170.0, 170.0], "t": [163.0, 163.0]}, (3, "expanded")) for n in (4, 5)]
        + [(n, {"c": [4.3, 4.3], "b": [4.5, 3.0], "t": [163.0, 163.0]}, om_) for n in (3, 4) for om_ in ((2, "exact"), (3, "expanded"))]
        + [(n, {"c": [4.0, 4.0], "b": [4.5, 3.0], "t": [163.0, 163.0]}, (2, "exact")) for n in (3, 4)]
    ):
        cases.append({"kind": "compute", "inputs": inp, "nf_ref": nf_ref, "order": o, "method": m, "ratios": [1.0, 1.0, 1.0], "xif2": 1.0})
    # the glue of the anchored io/runcards.py: linear ratios and xif on the card, QED entry of the order, ModEv -> coupling method
    card_orders = [[3, 0], [3, 1], [2, 2]]
    for (o, xif), ev in zip(itertools.product(card_orders, (1.0, 2.0)), itertools.cycle(("iterate-exact", "truncated"))):
        cases.append({"kind": "card", "order": o, "xif": xif, "ev_method": ev, "lin_ratios": [0.8, 1.2, 1.0], "em_running": False})
    cases.append({"kind": "card", "order": [3, 1], "xif": 2.0, "ev_method": "truncated", "lin_ratios": [0.8, 1.2, 1.0], "em_running": True})
    if thorough:
        for (o, xif), ev in zip(itertools.product(card_orders, (1.0, 2.0)), itertools.cycle(("perturbative-expanded", "decompose-exact"))):
            cases.append({"kind": "card", "order": o, "xif": xif, "ev_method": ev, "lin_ratios": [0.8, 1.2, 1.0], "em_running": False})
        for o, ev in itertools.product(([4, 0], [4, 1]), ("iterate-exact", "truncated")):
            cases.append({"kind": "card", "order": o, "xif": 1.0, "ev_method": ev, "lin_ratios": [1.2, 0.8, 1.5], "em_running": o[1] > 0})
    ctx.run_cases(cases, evaluate, chunksize=2)
    ctx.rule = (
        "table: nl 3,4,5; kernel: order 1-4 x nf 3-6 x 5x5 coupling pairs; evolve: order 1-4 x (ratios, xif2) sets x wall c/b/t x "
        "up/down x zero-length / wide span (x method in thorough); compute: product of 5 reference-scale choices per quark "
        "(at the mass, above near/far, below near/far; far ones lie beyond another quark's threshold) ^3 x coupling reference "
        "nf 3-6 = 500 inputs, the consistent ones x (order, method) x (ratios, xif2) [quick: 4 (order,method) pairs x 2 "
        "(ratios,xif2); thorough: 8 x 7], the inconsistent ones once; 12 explicit inputs for the ordering refusal (own-scale masses "
        "in the wrong order c>b x nf_ref 3-6, b>t x nf_ref 4,5; solved m_b(m_b) < m_c x nf_ref 3,4 x 2 (order, method); sorted control "
        "x nf_ref 3,4); card: theory cards order (3,0),(3,1),(2,2) x xif 1,2 with alternating ModEv + one with em_running [thorough: "
        "+ 2 more ModEv and order (4,0),(4,1) x 2 ModEv with other ratios] through runcards.masses. non-trivial = a mass had to be "
        "solved for / a refusal was demanded"
    )
    ctx.assumptions += [
        "consistency rules as read from the error texts: a quark active at the coupling reference must be given at or above its "
        "mass (the heaviest active one not above mu_ref), an inactive one at or below (the lightest inactive one not below mu_ref)",
        "matching scales are k_j m_j(m_j)^2 in units of the mass' scale argument, L = ln k_j, the decoupling factor uses the "
        "coupling of the upper theory at the matching scale; a_s is evaluated at xif2 * mu^2 (eko's convention for xif)",
        "configurations in which alpha_s is not finite or exceeds 0.6 at a matching scale / mass reference scale are outside the domain (counted as trivial)",
        "a_s^(nf)(mu) itself is taken from eko's Couplings object built with the returned masses (scheme MSBAR, ratios*xif2)",
        "a quark whose reference scale lies between another quark's mass and that quark's matching scale is not checked for the fixed point (flavour scheme of the input not defined by the statement)",
        f"fixed point tolerance on m: {TOL_FIXED_EXACT} relative; {TOL_FIXED} where a matching at order 4 enters (three-loop constants "
        f"with 6 printed digits); kernels 1e-8 (exact) / 1e-12 (expanded); evolution across a matching scale {TOL_EVOLVE_EXACT} (order <= 3) / 2e-7 (order 4)",
        f"recorded defects (known_findings: factor not squared; matching at k^2 xif2 m_h^2) are modelled; a failure keeps the recorded "
        f"signature only if eko agrees with the model within {TOL_MODEL} (measured: max_rel_dev_known_defect_model), else it is a violation",
        "masses whose fixed points are not ascending are inconsistent input (refusal demanded); decided on the input side only for masses "
        "given at their own scale and for one solved mass next to such a mass (sign of m_q(m_neighbour) - m_neighbour)",
        "card: the statement's squared-scale ratios are the squares of the card's matching_ratios, xif2 = xif^2; ModEv names containing "
        "'exact' mean the exact coupling/kernel, the others the expanded one; a_s from eko's Couplings built with the card's full order tuple",
        "order-4 comparisons substitute eko's own gamma_m^(3) when (and only when) that explains a kernel mismatch; the "
        "mismatch is then reported under a signature naming gamma_qcd_as4",
    ]
