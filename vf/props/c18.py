"""C18 MSbar heavy-quark masses are computable fixed points m(m) = m.

kinds of cases (each a complete enumeration):
  table    msbar_masses.compute_matching_coeffs_up/down(nl), nl = 3,4,5: constants vs published, logarithms
           vs the ones derived from RG invariance (with the code's own constants), down = reciprocal series
  kernel   ker_exact / ker_expanded on a coupling lattice x order 1-4 x nf 3-6 vs an mpmath quadrature of
           gamma_m/beta (literature tables) and an independently derived expanded series
  evolve   msbar_masses.evolve across one matching scale, in both directions, called the way compute() calls
           it: the running mass must change by the decoupling relation (linear mass!) at the matching scale
           k*m^2 with L = ln k
  compute  msbar_masses.compute on the product of reference-scale choices for (c, b, t) (at the mass, above
           near/far, below near/far) x coupling reference nf 3-6 x order x method x ratios x xif:
           consistent inputs -> no error, sorted, every mass a fixed point in the stated patch (independent
           re-evolution); inconsistent inputs -> ValueError
"""

import itertools
import math
import types

from vf.core.ctx import Result

ID = "C18"
LEVEL = "exploration"
TECHNIQUE = "complete input lattice vs independent mpmath mass-RGE integrator, exact series algebra for the decoupling tables"
LEVEL_TEXT = (
    "all combinations of reference-scale placements of the three heavy quarks, coupling reference nf, order, method, "
    "matching ratios and xif on the lattice are run through msbar_masses.compute and re-evolved with an independent "
    "integrator; decoupling tables decided exactly"
)
LEVEL_NOTE = (
    "decides on the lattice only; the coupling a_s^(nf)(mu) is taken from eko's Couplings (C15/C16's subject); "
    "literature tables typed by hand with import-time cross-checks; if the pinned NumPy refuses the 1-element-array to "
    "scalar conversion inside solve(), the remaining oracles are evaluated with fsolve's argument/result converted to "
    "scalars (the conversion failure itself is reported as a violation)"
)
FLOOR_NONTRIVIAL = 20

TOL_FIXED = 1e-6
import os

COMPUTE_TIMEOUT_S = int(os.environ.get("VERIF_C18_TIMEOUT", "300"))  # one compute() takes 0.1-3 s; a runaway (e.g. a root search drifting into a Landau pole) is a failure
COUPLING_REFS = {3: (1.1, 0.40), 4: (3.0, 0.25), 5: (91.2, 0.118), 6: (500.0, 0.095)}
OPTIONS = {
    "c": {"at": (1.27, 1.27), "up1": (1.10, 2.0), "up2": (0.88, 10.0), "dn1": (1.30, 1.2), "dn2": (1.29, 1.25)},
    "b": {"at": (4.18, 4.18), "up1": (3.6, 10.0), "up2": (2.7, 300.0), "dn1": (4.5, 3.0), "dn2": (4.9, 1.2)},
    "t": {"at": (163.0, 163.0), "up1": (150.0, 600.0), "up2": (140.0, 3000.0), "dn1": (170.0, 100.0), "dn2": (190.0, 3.0)},
}


# ------------------------------------------------------------------------------------------ helpers
def _shimmed_fsolve():
    """fsolve handing a Python float to the residual function and returning a 0-d result."""
    import numpy as np
    from scipy import optimize

    def fsolve(func, x0, args=()):
        sol = optimize.fsolve(lambda x, *a: func(float(np.ravel(x)[0]), *a), x0, args=args)
        return np.float64(np.ravel(sol)[0])

    return types.SimpleNamespace(fsolve=fsolve)


def _call_compute(inputs, nf_ref, order, method, ratios, xif2, shim):
    from eko import msbar_masses as mm
    from eko.quantities.couplings import CouplingEvolutionMethod, CouplingsInfo
    from eko.quantities.heavy_quarks import HeavyQuarkMasses, QuarkMassRef

    mu_ref, alphas = COUPLING_REFS[nf_ref]
    ci = CouplingsInfo.from_dict(dict(alphas=alphas, alphaem=0.0075, ref=(mu_ref, nf_ref), em_running=False))
    masses = HeavyQuarkMasses([QuarkMassRef(list(inputs[q])) for q in "cbt"])
    import signal

    saved = mm.optimize
    if shim:
        mm.optimize = _shimmed_fsolve()

    def _alarm(_sig, _frm):
        raise TimeoutError(f"msbar_masses.compute still running after {COMPUTE_TIMEOUT_S} s")

    old_handler = signal.signal(signal.SIGALRM, _alarm)
    signal.alarm(COMPUTE_TIMEOUT_S)
    try:
        return mm.compute(masses, ci, (order, 0), CouplingEvolutionMethod(method), list(ratios), xif2)
    finally:
        signal.alarm(0)
        signal.signal(signal.SIGALRM, old_handler)
        mm.optimize = saved


def expected_consistency(inputs, nf_ref):
    """Independent reading of the consistency rules: returns list of violated rules (empty = consistent)."""
    mu_ref = COUPLING_REFS[nf_ref][0]
    bad = []
    for i, q in enumerate("cbt"):
        m, mu = inputs[q]
        if mu == m:
            continue  # the mass is given at its own scale: nothing to run
        active = i + 4 <= nf_ref  # the quark is among the nf_ref flavours of the coupling reference
        if active:
            if mu < m:
                bad.append(f"{q}: active at the coupling reference but given below its mass")
            if i + 4 == nf_ref and mu > mu_ref:
                bad.append(f"{q}: heaviest active quark given above the coupling reference scale")
        else:
            if mu > m:
                bad.append(f"{q}: not active at the coupling reference but given above its mass")
            if i + 3 == nf_ref and mu < mu_ref:
                bad.append(f"{q}: lightest inactive quark given below the coupling reference scale")
    return bad


# ------------------------------------------------------------------------------------------ table
def _eval_table(case):
    import mpmath as mp
    import numpy as np

    from eko import msbar_masses as mm
    from vf.ref import c16_decoupling as dec

    nl = case["nl"]
    res = Result()
    up = np.array(mm.compute_matching_coeffs_up(nl), dtype=float)
    down = np.array(mm.compute_matching_coeffs_down(nl), dtype=float)
    where = f"nl={nl}"
    pub = dec.mass_up_published(nl)
    mx_c = mx_l = mx_i = 0.0
    for n in range(4):
        for k in range(4):
            if (n <= 1 or k > n) and up[n, k] != 0.0:
                res.fail(f"msbar_masses.compute_matching_coeffs_up/structure/c{n}{k}", f"{where}: c[{n},{k}] = {up[n, k]!r} must vanish")
    for n in (2, 3):
        ref = pub[(n, 0)]
        dev = abs(mp.mpf(float(up[n, 0])) - ref) / abs(ref)
        mx_c = max(mx_c, float(dev))
        if dev > (mp.mpf("1e-13") if n == 2 else mp.mpf("2e-5")):
            res.fail(f"msbar_masses.compute_matching_coeffs_up/const/c{n}0", f"{where}: c[{n},0] = {up[n, 0]!r}, published {mp.nstr(ref, 12)}")
    consts = {n: mp.mpf(float(up[n, 0])) for n in (1, 2, 3)}
    rg = dec.mass_up_rg(nl, consts)
    for n in (1, 2, 3):
        for k in range(1, n + 1):
            ref = rg.get((n, k), mp.mpf(0))
            dev = abs(mp.mpf(float(up[n, k])) - ref) / max(abs(ref), 1)
            mx_l = max(mx_l, float(dev))
            # c31 carries zeta(3): the code has 6-7 printed digits
            tol = mp.mpf("2e-6") if (n, k) == (3, 1) else mp.mpf("1e-12")
            if dev > tol:
                res.fail(
                    f"msbar_masses.compute_matching_coeffs_up/log/c{n}{k}",
                    f"{where}: coefficient of a^{n} L^{k} is {up[n, k]!r}; RG invariance (beta, gamma_m of nl and nl+1 flavours, "
                    f"coupling decoupling) with the code's own constants requires {mp.nstr(ref, 15)} (literature {mp.nstr(pub.get((n, k), 0), 15)})",
                )
    # down = reciprocal series of the code's own up table (same expansion parameter a^(nl+1))
    z = {(0, 0): mp.mpf(1)}
    for n in range(1, 4):
        for k in range(4):
            if up[n, k] != 0.0:
                z[(n, k)] = mp.mpf(float(up[n, k]))
    d = dict(z)
    d[(0, 0)] = 0
    inv = {(0, 0): mp.mpf(1)}
    term = {(0, 0): mp.mpf(1)}
    for _ in range(4):
        term = dec.s_scale(dec.s_mul(term, d), -1)
        inv = dec.s_add(inv, term)
    for n in range(1, 4):
        for k in range(4):
            ref = inv.get((n, k), mp.mpf(0))
            dev = abs(mp.mpf(float(down[n, k])) - ref) / max(abs(ref), 1)
            mx_i = max(mx_i, float(dev))
            if dev > mp.mpf("1e-11"):
                res.fail(f"msbar_masses.compute_matching_coeffs_down/d{n}{k}", f"{where}: down[{n},{k}] = {down[n, k]!r}, reciprocal series of the up table has {mp.nstr(ref, 15)}")
    res.info = {"max_rel_dev_mass_const": mx_c, "max_rel_dev_mass_log": mx_l, "max_rel_dev_mass_inverse": mx_i}
    res.outcome = "table"
    return res


# ------------------------------------------------------------------------------------------ kernel
A_LATTICE = [0.002, 0.005, 0.0125, 0.03, 0.04]


def _eval_kernel(case):
    import mpmath as mp

    from eko import msbar_masses as mm
    from vf.ref import c18_mass as M

    order, nf = case["order"], case["nf"]
    res = Result()
    mx = {"max_rel_dev_ker_exact": 0.0, "max_rel_dev_ker_expanded": 0.0}
    g3 = float(mm.gamma(4, nf)) if order == 4 else None
    for a0, a1 in itertools.product(A_LATTICE, A_LATTICE):
        for name, f, ref_f, tol in (
            ("ker_exact", lambda: mm.ker_exact(a0, a1, (order, 0), nf), M.ker_exact, 1e-8),
            ("ker_expanded", lambda: mm.ker_expanded(a0, float(a1), (order, 0), nf), M.ker_expanded, 1e-12),
        ):
            try:
                got = float(f())
            except Exception as e:  # noqa
                res.fail(f"msbar_masses.{name}/raises", f"order={order} nf={nf} a0={a0} a1={a1}: {type(e).__name__}: {e}")
                continue
            ref = ref_f(a0, a1, order, nf)
            dev = abs(float(mp.mpf(got) / ref - 1))
            if not dev <= tol and g3 is not None:
                ref2 = ref_f(a0, a1, order, nf, g3)
                if abs(float(mp.mpf(got) / ref2 - 1)) <= tol:
                    res.fail(
                        f"msbar_masses.{name}/order=4/caused-by-gamma_qcd_as4",
                        f"nf={nf} a0={a0} a1={a1}: kernel {got!r}, reference with the literature gamma_m^(3) {mp.nstr(ref, 15)} "
                        f"(rel. dev. {dev:.2e}); it agrees with the reference only if eko's own gamma(4,{nf}) = {g3!r} is used (see C20)",
                    )
                    continue
            mx[f"max_rel_dev_{name}"] = max(mx[f"max_rel_dev_{name}"], dev)
            if not dev <= tol:
                res.fail(f"msbar_masses.{name}/order={order}", f"nf={nf} a0={a0} a1={a1}: kernel {got!r}, reference {mp.nstr(ref, 15)} (rel. dev. {dev:.2e})")
    res.info = mx
    res.outcome = f"kernel/order={order}"
    return res


# ------------------------------------------------------------------------------------------ evolve
M2_FIXED = [1.27**2, 4.18**2, 163.0**2]


def _sc(order, method, nf_ref, masses2, ratios, xif2):
    """The Couplings object exactly as msbar_masses.compute builds it."""
    from vf.ref.c15_mk import make_couplings

    mu_ref, alphas = COUPLING_REFS[nf_ref]
    return make_couplings((order, 0), False, method, (mu_ref, nf_ref), alphas, 0.0075, masses2, [r * xif2 for r in ratios], "MSBAR")


def _eval_evolve(case):
    import warnings

    import mpmath as mp

    from eko import msbar_masses as mm
    from vf.ref import c18_mass as M

    order, method, ratios, xif2, nl, direction = case["order"], case["method"], case["ratios"], case["xif2"], case["nl"], case["direction"]
    res = Result()
    k = ratios[nl - 3]
    wall = k * M2_FIXED[nl - 3]  # matching scale of quark nl+1 (in units of the scale argument of the mass)
    walls = [r * m for r, m in zip(ratios, M2_FIXED)]
    sc = _sc(order, method, 5, M2_FIXED, ratios, xif2)

    def a_of(s, nf):
        return float(sc.a(float(s) * xif2, nf)[0])

    span = case["span"]
    if span == "zero":
        s_lo = s_hi = wall
    else:
        s_lo, s_hi = wall / 3.0, wall * 3.0
    if direction == "up":
        origin, target = (s_lo, nl), (s_hi, nl + 1)
    else:
        origin, target = (s_hi, nl + 1), (s_lo, nl)
    m2_ref = 2.0
    where = f"order={order} method={method} ratios={ratios} xif2={xif2} nl={nl} {direction} span={span}"
    with warnings.catch_warnings():
        warnings.simplefilter("ignore")
        try:
            got = float(mm.evolve(m2_ref, origin[0], sc, list(ratios), xif2, target[0], nf_ref=origin[1], nf_to=target[1]))
        except Exception as e:  # noqa
            res.fail("msbar_masses.evolve/raises", f"{where}: {type(e).__name__}: {e}")
            return res
    g3 = (lambda nf: float(mm.gamma(4, nf))) if order == 4 else None
    seen_a = []

    def a_of(s, nf, _f=a_of):  # noqa: F811  (records the couplings the reference walk needs)
        v = _f(s, nf)
        seen_a.append(v)
        return v

    lo, hi, ncross = M.walk(m2_ref, origin, target, walls, ratios, a_of, order, method, g3)
    if not all(math.isfinite(v) and 0 < v <= 0.6 / (4 * math.pi) for v in seen_a):
        # the walk would need alpha_s beyond 0.6 (or through the Landau pole): outside the domain of the statement
        res.outcome = "evolve/outside-perturbative-domain"
        res.nontrivial = False
        return res
    devs = [abs(float(mp.mpf(got) / r - 1)) for r in (lo, hi)]
    dev = min(devs)
    tol = 2e-7  # the code carries 6 printed digits in the three-loop constants
    res.info = {"max_rel_dev_evolve": dev if dev <= tol else 0.0}
    if not dev <= tol:
        # is it the linear-vs-squared confusion?  (m^2 multiplied by zeta instead of zeta^2)
        kind = "decoupling"
        if k != 1.0 or xif2 != 1.0:
            kind = "matching-scale-position"
        else:
            # diagnostic hypothesis: the factor of the linear mass applied once to the squared mass
            lo1, hi1, _ = M.walk(m2_ref, origin, target, walls, ratios, a_of, order, method, g3, factor_power=1)
            if min(abs(float(mp.mpf(got) / r - 1)) for r in (lo1, hi1)) < 1e-7:
                kind = "decoupling-factor-not-squared"
        res.fail(
            f"msbar_masses.evolve/{kind}",
            f"{where}: evolve gives m^2 = {got!r} from m^2 = {m2_ref} at {origin} to {target}; the decoupling relation "
            f"m^(nl+1) = m^(nl) * zeta (matching scale {wall!r} = k*m_h^2, L = ln {k}) requires {mp.nstr(lo, 15)} "
            f"(series-truncated inverse: {mp.nstr(hi, 15)}); relative deviation {dev:.3e}",
        )
    res.nontrivial = order >= 3 or span != "zero"
    res.outcome = f"evolve/{span}/order={order}"
    return res


# ------------------------------------------------------------------------------------------ compute
def _perturbative(inputs, nf_ref, order, method, ratios, xif2):
    """alpha_s finite and <= 0.6 at every matching scale (both adjacent nf) and at every mass reference scale."""
    import warnings

    import numpy as np

    m2 = [inputs[q][0] ** 2 for q in "cbt"]
    with warnings.catch_warnings():
        warnings.simplefilter("ignore")
        try:
            sc = _sc(order, method, nf_ref, m2, ratios, xif2)
            pts = []
            for j in range(3):
                pts += [(ratios[j] * m2[j], j + 3), (ratios[j] * m2[j], j + 4)]
            pts += [(inputs[q][1] ** 2, None) for q in "cbt"] + [(inputs[q][0] ** 2, None) for q in "cbt"]
            for s, nf in pts:
                a = float(sc.a(s * xif2, nf)[0])
                if not (np.isfinite(a) and 0 < a <= 0.6 / (4 * math.pi)):
                    return False
        except Exception:  # noqa
            return False
    return True


def _eval_compute(case):
    import warnings

    import mpmath as mp
    import numpy as np

    from eko import msbar_masses as mm
    from vf.ref import c18_mass as M

    inputs = {q: OPTIONS[q][case["choice"][i]] for i, q in enumerate("cbt")}
    nf_ref, order, method, ratios, xif2 = case["nf_ref"], case["order"], case["method"], case["ratios"], case["xif2"]
    res = Result()
    bad = expected_consistency(inputs, nf_ref)
    unit = all(r == 1.0 for r in ratios) and xif2 == 1.0
    if not bad and not _perturbative(inputs, nf_ref, order, method, ratios, xif2):
        # e.g. alpha_s^(3)(1.1 GeV) = 0.4 with matching ratio 0.25 and xif2 = 0.25: the coupling would have to be run
        # down to 0.3 GeV through its Landau pole; no statement is made there
        res.outcome = "outside-perturbative-domain"
        res.nontrivial = False
        return res
    where = f"inputs={inputs} coupling_ref={COUPLING_REFS[nf_ref]}@nf{nf_ref} order={order} method={method} ratios={ratios} xif2={xif2}"
    out = None
    exc = None
    with warnings.catch_warnings():
        warnings.simplefilter("ignore")
        for shim in (False, True):
            try:
                out = _call_compute(inputs, nf_ref, order, method, ratios, xif2, shim)
                exc = None
                break
            except ValueError as e:
                exc = e
                break
            except TypeError as e:
                if "0-dimensional" in str(e) or "scalar" in str(e):
                    if not shim:
                        res.fail(
                            "msbar_masses.solve/TypeError-array-to-scalar",
                            f"{where}: {type(e).__name__}: {e} (fsolve hands a 1-element array to the residual function; "
                            f"Couplings.compute does float(scale_to) and solve() does float(msbar_mass))",
                        )
                        continue
                exc = e
                break
            except Exception as e:  # noqa
                exc = e
                break
    trivial = all(inputs[q][0] == inputs[q][1] for q in "cbt")
    if bad:
        res.outcome = "inconsistent->" + (type(exc).__name__ if exc is not None else "returned")
        if not isinstance(exc, ValueError):
            res.fail(
                "msbar_masses.compute/inconsistent-input-accepted",
                f"{where}: inconsistent ({'; '.join(bad)}) but " + (f"raised {type(exc).__name__}: {exc}" if exc else f"returned {np.array(out).tolist()}"),
            )
        res.nontrivial = True
        return res
    if exc is not None:
        res.outcome = "consistent->" + type(exc).__name__
        res.fail(f"msbar_masses.compute/consistent-input-raises/{type(exc).__name__}", f"{where}: {type(exc).__name__}: {exc}")
        return res
    out = np.array(out, dtype=float)
    if not (out.shape == (3,) and np.all(np.isfinite(out)) and np.all(np.diff(out) >= 0)):
        res.fail("msbar_masses.compute/not-sorted", f"{where}: returned {out.tolist()}")
        return res
    # fixed points
    walls = [r * m for r, m in zip(ratios, out)]
    sc = None
    mxdev = 0.0
    ncross_total = 0
    nambiguous = 0
    with warnings.catch_warnings():
        warnings.simplefilter("ignore")
        from vf.ref.c15_mk import make_couplings

        mu_ref, alphas = COUPLING_REFS[nf_ref]
        sc = make_couplings((order, 0), False, method, (mu_ref, nf_ref), alphas, 0.0075, out.tolist(), [r * xif2 for r in ratios], "MSBAR")

        def a_of(s, nf):
            return float(sc.a(float(s) * xif2, nf)[0])

        g3 = (lambda nf: float(mm.gamma(4, nf))) if order == 4 else None
        for i, q in enumerate("cbt"):
            m, mu = inputs[q]
            if mu == m:
                if abs(out[i] / m**2 - 1) > 1e-14:
                    res.fail("msbar_masses.compute/given-at-own-scale", f"{where}: m_{q}({m}) = {m} given but {math.sqrt(out[i])!r} returned")
                continue
            active = i + 4 <= nf_ref
            nf_target = i + 4 if active else i + 3
            # the quark's own matching scale is no wall for its own mass: the fixed point is sought in the patch
            # adjoining its threshold on the side of the coupling reference, formally continued
            walls_i = list(walls)
            walls_i[i] = 0.0 if active else math.inf
            nf_cur = 3 + sum(1 for w in walls_i if w <= mu**2)
            if any(min(w, mq) < mu**2 <= max(w, mq) or min(w, mq) <= mu**2 < max(w, mq) for j, (w, mq) in enumerate(zip(walls, out)) if j != i and w != mq):
                # the reference scale lies between another quark's mass and its matching scale: the statement does
                # not say in which flavour-number scheme such an input is meant
                nambiguous += 1
                continue
            try:
                lo, hi, ncross = M.walk(m**2, (mu**2, nf_cur), (float(out[i]), nf_target), walls_i, ratios, a_of, order, method, g3)
            except Exception as e:  # noqa
                res.fail("msbar_masses.compute/reference-walk-impossible", f"{where}: quark {q}: {type(e).__name__}: {e}")
                continue
            ncross_total += ncross
            dev = min(abs(float(mp.sqrt(r / mp.mpf(float(out[i]))) - 1)) for r in (lo, hi))
            mxdev = max(mxdev, dev) if dev <= TOL_FIXED else mxdev
            if not dev <= TOL_FIXED:
                res.fail(
                    f"msbar_masses.compute/fixed-point/crossing={ncross > 0}/ratios={'unit' if unit else 'non-unit'}",
                    f"{where}: returned m_{q} = {math.sqrt(out[i])!r} (nf={nf_target} patch), but evolving m_{q}({mu}) = {m} from "
                    f"nf={nf_cur} to that scale gives m_{q}(m_{q}) = {mp.nstr(mp.sqrt(lo), 12)} (relative deviation {dev:.3e} > {TOL_FIXED})",
                )
    res.info = {"max_rel_dev_fixed_point": mxdev, "crossings": ncross_total, "ambiguous_skipped": nambiguous}
    res.nontrivial = not trivial
    res.outcome = f"consistent->ok/crossings={min(ncross_total, 2)}"
    return res


def evaluate(case):
    return {"table": _eval_table, "kernel": _eval_kernel, "evolve": _eval_evolve, "compute": _eval_compute}[case["kind"]](case)


RATIO_XIF_QUICK = [([1.0, 1.0, 1.0], 1.0), ([0.5, 2.0, 1.0], 4.0)]
RATIO_XIF_THOROUGH = RATIO_XIF_QUICK + [([0.5, 2.0, 1.0], 1.0), ([2.0, 1.0, 0.5], 4.0), ([1.0, 1.0, 1.0], 0.25), ([4.0, 0.25, 2.0], 1.0), ([0.25, 4.0, 1.0], 0.25)]


def run(ctx):
    thorough = ctx.thorough()
    cases = [{"kind": "table", "nl": nl} for nl in (3, 4, 5)]
    cases += [{"kind": "kernel", "order": o, "nf": nf} for o in (1, 2, 3, 4) for nf in (3, 4, 5, 6)]
    rx = RATIO_XIF_THOROUGH if thorough else RATIO_XIF_QUICK
    for o, (r, x), nl, d, span in itertools.product((1, 2, 3, 4), rx, (3, 4), ("up", "down"), ("zero", "wide")):
        for method in ("expanded", "exact") if thorough else ("expanded",):
            cases.append({"kind": "evolve", "order": o, "method": method, "ratios": r, "xif2": x, "nl": nl, "direction": d, "span": span})
    om = [(1, "expanded"), (2, "exact"), (3, "expanded"), (4, "expanded")]
    if thorough:
        om = [(o, m) for o in (1, 2, 3, 4) for m in ("expanded", "exact")]
    names = list(OPTIONS["c"].keys())
    for nf_ref, choice in itertools.product((3, 4, 5, 6), itertools.product(names, names, names)):
        inputs = {q: OPTIONS[q][choice[i]] for i, q in enumerate("cbt")}
        if expected_consistency(inputs, nf_ref):
            # refused before anything is computed: one configuration is enough
            cases.append({"kind": "compute", "choice": list(choice), "nf_ref": nf_ref, "order": 3, "method": "expanded", "ratios": [1.0, 1.0, 1.0], "xif2": 1.0})
            continue
        for (o, m), (r, x) in itertools.product(om, rx):
            cases.append({"kind": "compute", "choice": list(choice), "nf_ref": nf_ref, "order": o, "method": m, "ratios": r, "xif2": x})
    ctx.run_cases(cases, evaluate, chunksize=2)
    ctx.rule = (
        "table: nl 3,4,5; kernel: order 1-4 x nf 3-6 x 5x5 coupling pairs; evolve: order 1-4 x (ratios, xif2) sets x wall c/b x "
        "up/down x zero-length / wide span (x method in thorough); compute: product of 5 reference-scale choices per quark "
        "(at the mass, above near/far, below near/far; far ones lie beyond another quark's threshold) ^3 x coupling reference "
        "nf 3-6 = 500 inputs, the consistent ones x (order, method) x (ratios, xif2) [quick: 4 (order,method) pairs x 2 "
        "(ratios,xif2); thorough: 8 x 7], the inconsistent ones once. non-trivial = a mass had to be solved for / a refusal "
        "was demanded"
    )
    ctx.assumptions += [
        "consistency rules as read from the error texts: a quark active at the coupling reference must be given at or above its "
        "mass (the heaviest active one not above mu_ref), an inactive one at or below (the lightest inactive one not below mu_ref)",
        "matching scales are k_j m_j(m_j)^2 in units of the mass' scale argument, L = ln k_j, the decoupling factor uses the "
        "coupling of the upper theory at the matching scale; a_s is evaluated at xif2 * mu^2 (eko's convention for xif)",
        "configurations in which alpha_s is not finite or exceeds 0.6 at a matching scale / mass reference scale are outside the domain (counted as trivial)",
        "a_s^(nf)(mu) itself is taken from eko's Couplings object built with the returned masses (scheme MSBAR, ratios*xif2)",
        "a quark whose reference scale lies between another quark's mass and that quark's matching scale is not checked for the fixed point (flavour scheme of the input not defined by the statement)",
        f"fixed point tolerance {TOL_FIXED} relative on m; kernels 1e-8 (exact) / 1e-12 (expanded); evolution across a matching scale 2e-7",
        "order-4 comparisons substitute eko's own gamma_m^(3) when (and only when) that explains a kernel mismatch; the "
        "mismatch is then reported under a signature naming gamma_qcd_as4",
    ]
