"""C32 evolution-basis operators are reconstructed exactly in the flavour basis.

to_flavor_basis_tensor is linear in the members, so it is decided by its action on one member
at a time.  For every label set that the physical-operator map, the matching-condition map and
their products across thresholds can produce (nf_in, nf_out in 3..6, QCD and QED), every single
member in turn is set to a non-symmetric integer matrix (all others zero), plus one fill with
pairwise different matrices on all members; the flavour tensor is compared with

    T[o, :, i, :] = sum_members  Binv_out[o, target] * M_member * B_in[source, i]

where B_in is the 14x14 intrinsic (unified) evolution basis with nf_in light flavours typed from
the documentation (heavy quarks as q+-), and Binv_out is the exact rational inverse of the
nf_out one.  nf_in / nf_out come from the construction, never from eko's label heuristics.
The weight functions are also compared directly with the rows of B and the columns of B^-1.
"""

from fractions import Fraction as F

from vf.core.ctx import Result
from vf.ref import c31_bases as B

ID = "C32"
LEVEL = "exploration"
TECHNIQUE = "complete enumeration of label sets x single-member fills (linearity), exact rational change of basis as reference"
LEVEL_TEXT = (
    "every label set produced by ad_to_evol_map, split_ad_to_evol_map and their threshold products "
    "(all 16 nf_in x nf_out pairs, QCD and QED) is blown up with each member switched on alone and with "
    "all members different; the tensor is compared with the exact change of basis; by linearity in the "
    "members this decides the statement for arbitrary member matrices of the sizes tried"
)
LEVEL_NOTE = (
    "trusts vf/ref/c31_bases.py (documented bases, self-checked) and the linearity of the blow-up in the "
    "members (checked on the all-different fill); grid sizes 2 (quick) and 1,2,3 (thorough); "
    "float results compared to 1e-12 relative to the largest member entry"
)
FLOOR_NONTRIVIAL = 20

NFS = [3, 4, 5, 6]
TOL = 1e-12
M0 = {1: [[7]], 2: [[1, 2], [3, 5]], 3: [[1, 2, 3], [5, 7, 11], [13, 17, 19]]}


# ------------------------------------------------------------------------------------- label sets
def _ad_members(qed, ng, base=0):
    """op_members for ad_to_evol_map: one distinct matrix per anomalous-dimension sector."""
    import numpy as np
    from eko import basis_rotation as br
    from eko.member import OpMember

    labs = br.full_unified_labels if qed else br.full_labels
    return {
        lab: OpMember(np.arange(ng * ng, dtype=float).reshape(ng, ng) + 10.0 * (k + 1) + base, np.zeros((ng, ng)))
        for k, lab in enumerate(labs)
    }


def _ome_members(ng, base=0):
    import numpy as np
    from eko import basis_rotation as br
    from eko.member import OpMember

    hp, hm = br.matching_hplus_pid, br.matching_hminus_pid
    labs = [(100, 100), (100, 21), (21, 100), (21, 21), (200, 200), (hp, 100), (hp, 21), (hp, hp), (100, hp), (21, hp), (hm, hm), (200, hm), (hm, 200)]
    return {
        lab: OpMember(np.arange(ng * ng, dtype=float).reshape(ng, ng) + 7.0 * (k + 1) + base, np.zeros((ng, ng)))
        for k, lab in enumerate(labs)
    }


def _build(case):
    """The real object whose label set is examined + the nf of its input and output side."""
    from eko.evolution_operator import flavors
    from eko.evolution_operator.matching_condition import MatchingCondition
    from eko.evolution_operator.physical import PhysicalOperator
    from eko.member import ScalarOperator

    qed, ng, src = case["qed"], case["ng"], case["source"]
    if src == "physical":
        nf = case["nf"]
        return PhysicalOperator.ad_to_evol_map(_ad_members(qed, ng), nf, 10.0, qed), nf, nf
    if src == "matching":
        nf = case["nf"]  # flavours below the threshold: the labels live in the nf basis with (nf+1)+-
        return MatchingCondition.split_ad_to_evol_map(_ome_members(ng), nf, 10.0, qed), nf, nf
    if src == "chain":
        nfi, nfo = case["nf_in"], case["nf_out"]
        op = PhysicalOperator.ad_to_evol_map(_ad_members(qed, ng), nfi, 10.0, qed)
        nf = nfi
        while nf != nfo:
            if nfo > nf:  # forward: match nf -> nf+1, rotate to the new basis, evolve with nf+1
                mat = MatchingCondition.split_ad_to_evol_map(_ome_members(ng, 100), nf, 10.0, qed)
                rot = ScalarOperator.promote_names(flavors.rotate_matching(nf + 1, qed), 10.0)
                nxt = PhysicalOperator.ad_to_evol_map(_ad_members(qed, ng, 200), nf + 1, 10.0, qed)
                op = nxt @ rot @ mat @ op
                nf += 1
            else:  # backward: rotate nf basis -> matching basis of nf-1, inverse matching, evolve with nf-1
                rot = ScalarOperator.promote_names(flavors.rotate_matching_inverse(nf, qed), 10.0)
                mat = MatchingCondition.split_ad_to_evol_map(_ome_members(ng, 100), nf - 1, 10.0, qed)
                nxt = PhysicalOperator.ad_to_evol_map(_ad_members(qed, ng, 200), nf - 1, 10.0, qed)
                op = nxt @ mat @ rot @ op
                nf -= 1
        return op, nfi, nfo
    raise KeyError(src)


def _reference(members, nfi, nfo, qed, order, ng):
    """Exact tensor: dict (o, a, i, b) -> Fraction (only non-zero entries)."""
    li, Bi = B.basis_matrix(nfi, qed, order)
    lo, Bo = B.basis_matrix(nfo, qed, order)
    Binv = B.inverse(Bo)
    ii = {l: k for k, l in enumerate(li)}
    io = {l: k for k, l in enumerate(lo)}
    T = {}
    for (tgt, srcl), M in members.items():
        if all(x == 0 for r in M for x in r):
            continue
        if tgt not in io or srcl not in ii:
            return None, f"label {tgt}.{srcl} is not in the intrinsic bases nf_out={nfo} / nf_in={nfi}"
        col = [Binv[o][io[tgt]] for o in range(14)]
        row = Bi[ii[srcl]]
        for o in range(14):
            if not col[o]:
                continue
            for i in range(14):
                if not row[i]:
                    continue
                w = col[o] * row[i]
                for a in range(ng):
                    for b in range(ng):
                        if M[a][b]:
                            T[(o, a, i, b)] = T.get((o, a, i, b), F(0)) + w * M[a][b]
    return T, None


def _compare(res, sig, what, tensor, T, scale, order):
    """Largest deviation between the float tensor and the exact reference."""
    import numpy as np

    worst, where = 0.0, None
    ref = np.zeros(tensor.shape)
    for (o, a, i, b), v in T.items():
        ref[o, a, i, b] = float(v)
    if not np.all(np.isfinite(tensor)):
        res.fail(f"{sig}/non-finite", f"{what}: tensor has non-finite entries")
        return 0.0
    d = np.abs(tensor - ref)
    worst = float(d.max())
    if worst > TOL * scale:
        o, a, i, b = np.unravel_index(int(d.argmax()), d.shape)
        where = (
            f"{what}: T[out pid {order[o]}, {a}, in pid {order[i]}, {b}] = {tensor[o, a, i, b]!r} "
            f"expected {T.get((int(o), int(a), int(i), int(b)), F(0))} (|diff| {worst:.3g}, {int((d > TOL * scale).sum())} entries differ)"
        )
        res.fail(sig, where)
    return worst / scale


def _eval_tensor(case):
    import numpy as np
    from eko import basis_rotation as br
    from eko.member import MemberName, OperatorBase, OpMember

    qed, ng, src = case["qed"], case["ng"], case["source"]
    res = Result()
    order = [int(p) for p in br.flavor_basis_pids]
    tag = f"{src}/qed={qed}"
    try:
        obj, nfi, nfo = _build(case)
    except Exception as e:  # noqa
        res.fail(f"build/{tag}/raises:{type(e).__name__}", f"{case}: {type(e).__name__}: {e}")
        res.outcome = "build-raises"
        return res
    names = sorted(str(k) for k in obj.op_members)
    split = [tuple(n.split(".")) for n in names]
    sig = f"to_flavor_basis_tensor/{tag}" + ("" if src != "chain" else f"/{'up' if nfo > nfi else 'down' if nfo < nfi else 'flat'}")
    worst = 0.0
    nfill = 0
    # (1) the object as produced by the real maps, with its own member matrices (exact small integers
    #     for physical/matching; for chains the members went through float products and are skipped)
    chunk, nchunks = case.get("chunk", 0), case.get("nchunks", 1)
    if src != "chain" and chunk == 0:
        mem = {}
        for k, v in obj.op_members.items():
            t, s = str(k).split(".")
            mem[(t, s)] = [[F(int(x)) for x in r] for r in np.asarray(v.value)]
            assert np.all(np.asarray(v.value) == np.round(v.value))
        T, err = _reference(mem, nfi, nfo, qed, order, ng)
        if T is None:
            res.fail(f"{sig}/label-outside-basis", f"{case}: {err}")
        else:
            try:
                val, _ = obj.to_flavor_basis_tensor(qed)
                scale = max(abs(float(x)) for M in mem.values() for r in M for x in r)
                worst = max(worst, _compare(res, sig, f"{case} as built", np.asarray(val), T, scale, order))
                nfill += 1
            except Exception as e:  # noqa
                res.fail(f"{sig}/raises:{type(e).__name__}", f"{case} as built: {type(e).__name__}: {e}")
    # (2) fresh members on the same label set: each alone, then all different
    fills = [[n] for n in range(len(names)) if n % nchunks == chunk and case.get("single", True)]
    if chunk == nchunks - 1:
        fills.append(list(range(len(names))))
    base = M0[ng]
    for fill in fills:
        mats = {}
        for k, (t, s) in enumerate(split):
            if k in fill:
                off = 0 if len(fill) == 1 else 23 * (k + 1)
                mats[(t, s)] = [[F(x + off) for x in r] for r in base]
            else:
                mats[(t, s)] = [[F(0)] * ng for _ in range(ng)]
        T, err = _reference(mats, nfi, nfo, qed, order, ng)
        what = f"{case} fill={'all-different' if len(fill) > 1 else names[fill[0]]}"
        if T is None:
            res.fail(f"{sig}/label-outside-basis", f"{what}: {err}")
            continue
        ob = OperatorBase(
            {
                MemberName(f"{t}.{s}"): OpMember(np.array([[float(x) for x in r] for r in M]), np.zeros((ng, ng)))
                for (t, s), M in mats.items()
            },
            10.0,
        )
        try:
            val, _ = ob.to_flavor_basis_tensor(qed)
        except Exception as e:  # noqa
            res.fail(f"{sig}/raises:{type(e).__name__}", f"{what}: {type(e).__name__}: {e}")
            continue
        scale = max(abs(float(x)) for M in mats.values() for r in M for x in r)
        worst = max(worst, _compare(res, sig, what, np.asarray(val), T, scale, order))
        nfill += 1
    res.info = {"max_rel_deviation": worst, "members": len(names), "fills": nfill}
    res.outcome = f"{src} qed={qed} nf_in={nfi} nf_out={nfo} members={len(names)} {'ok' if not res.fails else 'bad'}"
    return res


def _eval_weights(case):
    import numpy as np
    from eko import basis_rotation as br
    from eko.evolution_operator import flavors

    nf, qed, norm = case["nf"], case["qed"], case["normalize"]
    res = Result()
    order = [int(p) for p in br.flavor_basis_pids]
    labs, rows = B.basis_matrix(nf, qed, order)
    inv = B.inverse(rows)
    fn = flavors.pids_from_intrinsic_unified_evol if qed else flavors.pids_from_intrinsic_evol
    fname = fn.__name__
    worst = 0.0
    if qed:
        try:
            got = sorted(br.intrinsic_unified_evol_labels(nf))
            if got != sorted(labs):
                res.fail("intrinsic_unified_evol_labels", f"nf={nf}: {got} expected {sorted(labs)}")
        except Exception as e:  # noqa
            res.fail(f"intrinsic_unified_evol_labels/raises:{type(e).__name__}", f"nf={nf}: {e}")
    for k, l in enumerate(labs):
        want = [inv[o][k] for o in range(14)] if norm else rows[k]
        try:
            w = np.asarray(fn(l, nf, norm), dtype=float)
        except Exception as e:  # noqa
            res.fail(f"{fname}/normalize={norm}/raises:{type(e).__name__}", f"label={l} nf={nf}: {type(e).__name__}: {e}")
            continue
        try:
            got = []
            for x in w:
                fr, r = B.rat(x)
                worst = max(worst, r)
                got.append(fr)
        except ValueError as e:
            res.fail(f"{fname}/normalize={norm}/not-rational", f"label={l} nf={nf}: {e}")
            continue
        if got != want:
            res.fail(
                f"{fname}/normalize={norm}",
                f"label={l} nf={nf}: weights {B.show(got, order)} expected {B.show(want, order)}",
            )
    res.info = {"max_rounding_residue": worst, "labels": len(labs)}
    res.outcome = f"weights qed={qed} normalize={norm} {'ok' if not res.fails else 'bad'}"
    return res


def evaluate(case):
    return _eval_weights(case) if case["kind"] == "weights" else _eval_tensor(case)


def run(ctx):
    sizes = [1, 2, 3] if ctx.thorough() else [2]
    cases = []
    for qed in (False, True):
        for nf in NFS:
            for norm in (False, True):
                cases.append({"kind": "weights", "nf": nf, "qed": qed, "normalize": norm})
        for ng in sizes:
            sets = [{"source": "physical", "nf": nf} for nf in NFS]
            sets += [{"source": "matching", "nf": nf} for nf in (3, 4, 5)]
            sets += [{"source": "chain", "nf_in": a, "nf_out": b} for a in NFS for b in NFS if a != b]
            for s in sets:
                # the single-member fills of one label set are spread over several cases (wall time only)
                n = (8 if qed else 4) if s["source"] == "chain" else 2
                far = s["source"] == "chain" and abs(s["nf_in"] - s["nf_out"]) > 1
                if far and not ctx.thorough():
                    # quick: products over two and three thresholds only with the all-different fill
                    cases.append({"kind": "tensor", **s, "qed": qed, "ng": ng, "chunk": 0, "nchunks": 1, "single": False})
                    continue
                for c in range(n):
                    cases.append({"kind": "tensor", **s, "qed": qed, "ng": ng, "chunk": c, "nchunks": n})
    results = ctx.run_cases(cases, evaluate, chunksize=1)
    ctx.exhaustive = True
    nfills = sum((r[1][3] or {}).get("fills", 0) for r in results)
    ctx.extra.update(blow_ups_compared=int(nfills))
    ctx.rule = (
        "label sets: ad_to_evol_map for nf 3-6, split_ad_to_evol_map for nf 3-5, and the products "
        "evolve.rotate.match...evolve for all 12 ordered pairs nf_in != nf_out (forward and backward), each for "
        "QCD and QED and grid sizes " + str(sizes) + "; on each label set every member is switched on alone "
        "(non-symmetric integer matrix) and once all members differ"
        + ("" if ctx.thorough() else " (quick: products over 2-3 thresholds only with the all-different fill)")
        + "; plus the weight functions for all 14 "
        "labels x nf 3-6 x QCD/QED x normalize on/off; non-trivial = all"
    )
    ctx.assumptions += [
        "reference bases typed from doc/source/theory/FlavorSpace.rst (vf/ref/c31_bases.py); output weights = columns of the exact inverse",
        "linearity of the blow-up in the members (single-member fills decide arbitrary members); checked by the all-different fill",
        "nf_in, nf_out are those of the construction; labels absent from a set are zero blocks",
        "only the value tensor is compared (the statement says nothing about the error tensor)",
        f"floats compared to {TOL} x largest member entry",
    ]
