"""C32 evolution-basis operators are reconstructed exactly in the flavour basis.

to_flavor_basis_tensor is linear in the members, so it is decided by its action on one member
at a time.  For every label set that the physical-operator map, the matching-condition map and
their products across thresholds can produce (nf_in, nf_out in 3..6, QCD and QED), every single
member in turn is set to a non-symmetric integer matrix (all others zero), plus one fill with
pairwise different matrices on all members; the flavour tensor is compared with

    T[o, :, i, :] = sum_members  Binv_out[o, target] * M_member * B_in[source, i]

where B_in is the 14x14 intrinsic (unified) evolution basis with nf_in light flavours typed from
the documentation (heavy quarks as q+-), and Binv_out is the exact rational inverse of the
nf_out one.  nf_in / nf_out come from the construction, never from eko's label heuristics.
The weight functions are also compared directly with the rows of B and the columns of B^-1.
"""

from fractions import Fraction as F

from vf.core.ctx import Result
from vf.ref import c31_bases as B

ID = "C32"
LEVEL = "exploration"
TECHNIQUE = "complete enumeration of label sets x single-member fills (linearity), exact rational change of basis as reference"
LEVEL_TEXT = (
    "every label set produced by ad_to_evol_map, split_ad_to_evol_map and their threshold products "
    "(all 16 nf_in x nf_out pairs, QCD and QED) is blown up with each member switched on alone and with "
    "all members different; the tensor is compared with the exact change of basis; by linearity in the "
    "members this decides the statement for arbitrary member matrices of the sizes tried; which input element "
    "feeds which block of the evolution-basis operator is compared exactly with a typed table for both maps"
)
LEVEL_NOTE = (
    "trusts vf/ref/c31_bases.py (documented bases, self-checked) and the linearity of the blow-up in the "
    "members (checked on the all-different fill); grid sizes 2 (+1 on the two maps' own label sets; quick) and 1,2,3 (thorough); "
    "float results compared to 1e-12 relative to the largest member entry"
)
FLOOR_NONTRIVIAL = 20

NFS = [3, 4, 5, 6]
TOL = 1e-12
M0 = {1: [[7]], 2: [[1, 2], [3, 5]], 3: [[1, 2, 3], [5, 7, 11], [13, 17, 19]]}


# ------------------------------------------------------------------------------------- label sets
def _ad_members(qed, ng, base=0):
    """op_members for ad_to_evol_map: one distinct matrix per anomalous-dimension sector."""
    import numpy as np
    from eko import basis_rotation as br
    from eko.member import OpMember

    labs = br.full_unified_labels if qed else br.full_labels
    return {
        lab: OpMember(np.arange(ng * ng, dtype=float).reshape(ng, ng) + 10.0 * (k + 1) + base, np.zeros((ng, ng)))
        for k, lab in enumerate(labs)
    }


def _ome_members(ng, base=0):
    import numpy as np
    from eko import basis_rotation as br
    from eko.member import OpMember

    hp, hm = br.matching_hplus_pid, br.matching_hminus_pid
    labs = [(100, 100), (100, 21), (21, 100), (21, 21), (200, 200), (hp, 100), (hp, 21), (hp, hp), (100, hp), (21, hp), (hm, hm), (200, hm), (hm, 200)]
    return {
        lab: OpMember(np.arange(ng * ng, dtype=float).reshape(ng, ng) + 7.0 * (k + 1) + base, np.zeros((ng, ng)))
        for k, lab in enumerate(labs)
    }


def _expected_physical(nf, qed):
    """member name -> anomalous-dimension sector label, or "identity" (typed: vf/ref/c31_bases.py sectors).

    The block-diagonal evolution-basis operator: every active distribution pair of a sector evolves with the
    kernel of that sector (singlet / valence blocks, T_k with ns+, V_k with ns-, V with nsV; unified: u/d families),
    quarks heavier than nf do not evolve (identity on q+ and q-)."""
    exp = {}
    for lab, members in B.sectors(qed).items():
        for a, b in members:
            if B.is_active(a, nf, qed) and B.is_active(b, nf, qed):
                exp[f"{a}.{b}"] = lab
    for l in B.heavy_labels(nf):
        exp[f"{l}.{l}"] = "identity"
    return exp


HPLUS, HMINUS = 90, 91  # pids of the matching h+ / h- members (eko.basis_rotation docstring)


def _expected_matching(nf, qed):
    """member name -> matrix-element label, or "identity"; nf = flavours below the threshold (typed table).

    Light singlet block <- (S,g)x(S,g) elements, every light valence-like / non-singlet distribution <- the
    non-singlet element (200,200), photon untouched, the quark that becomes active (h = nf+1): h+ <- S, g, h+ ;
    S, g <- h+ ; h- <- h- ; quarks heavier than h untouched."""
    exp = {"S.S": (100, 100), "S.g": (100, 21), "g.S": (21, 100), "g.g": (21, 21), "V.V": (200, 200)}
    singlet_like = ("g", "ph", "S", "V", "Sdelta", "Vdelta")
    for l in B.intrinsic_labels(nf, qed):
        if l in singlet_like or l in B.heavy_labels(nf):
            continue
        exp[f"{l}.{l}"] = (200, 200)
    if qed:
        exp["Sdelta.Sdelta"] = (200, 200)
        exp["Vdelta.Vdelta"] = (200, 200)
        exp["ph.ph"] = "identity"
    h = B.QUARK_OF_PID[nf + 1]
    exp[f"{h}+.S"] = (HPLUS, 100)
    exp[f"{h}+.g"] = (HPLUS, 21)
    exp[f"{h}+.{h}+"] = (HPLUS, HPLUS)
    exp[f"S.{h}+"] = (100, HPLUS)
    exp[f"g.{h}+"] = (21, HPLUS)
    exp[f"{h}-.{h}-"] = (HMINUS, HMINUS)
    for l in B.heavy_labels(nf + 1):
        exp[f"{l}.{l}"] = "identity"
    return exp


def _check_map(res, case, obj):
    """Which input member feeds which evolution-basis block (exact comparison, matrices are small integers)."""
    import numpy as np

    qed, ng, src, nf = case["qed"], case["ng"], case["source"], case["nf"]
    if src == "physical":
        site, exp, inp = "ad_to_evol_map", _expected_physical(nf, qed), _ad_members(qed, ng)
    else:
        site, exp, inp = "split_ad_to_evol_map", _expected_matching(nf, qed), _ome_members(ng)
    got = {str(k): np.asarray(v.value) for k, v in obj.op_members.items()}
    miss, extra = sorted(set(exp) - set(got)), sorted(set(got) - set(exp))
    if miss:
        res.fail(f"{site}/qed={qed}/members-missing", f"{case}: the map has no member {miss}")
    if extra:
        res.fail(f"{site}/qed={qed}/members-unexpected", f"{case}: the map holds the members {extra}, which no block of the nf={nf} basis has")
    n = 0
    for name in sorted(set(exp) & set(got)):
        lab = exp[name]
        if lab == "identity":
            want = np.eye(ng)
        elif lab in inp:
            want = np.asarray(inp[lab].value)
        else:
            res.fail(f"{site}/qed={qed}/input-label-missing", f"{case}: input members have no element {lab}")
            continue
        n += 1
        if got[name].shape != want.shape or not np.array_equal(got[name], want):
            feeds = [str(l) for l, m in inp.items() if np.array_equal(np.asarray(m.value), got[name])]
            if np.array_equal(got[name], np.eye(ng)):
                feeds.append("identity")
            res.fail(
                f"{site}/qed={qed}/member={name}",
                f"{case}: block {name} holds the input element {feeds or got[name].tolist()}, expected {lab}",
            )
    return n


def _build(case):
    """The real object whose label set is examined + the nf of its input and output side."""
    from eko.evolution_operator import flavors
    from eko.evolution_operator.matching_condition import MatchingCondition
    from eko.evolution_operator.physical import PhysicalOperator
    from eko.member import ScalarOperator

    qed, ng, src = case["qed"], case["ng"], case["source"]
    if src == "physical":
        nf = case["nf"]
        return PhysicalOperator.ad_to_evol_map(_ad_members(qed, ng), nf, 10.0, qed), nf, nf
    if src == "matching":
        nf = case["nf"]  # flavours below the threshold: the labels live in the nf basis with (nf+1)+-
        return MatchingCondition.split_ad_to_evol_map(_ome_members(ng), nf, 10.0, qed), nf, nf
    if src == "chain":
        nfi, nfo = case["nf_in"], case["nf_out"]
        op = PhysicalOperator.ad_to_evol_map(_ad_members(qed, ng), nfi, 10.0, qed)
        nf = nfi
        while nf != nfo:
            if nfo > nf:  # forward: match nf -> nf+1, rotate to the new basis, evolve with nf+1
                mat = MatchingCondition.split_ad_to_evol_map(_ome_members(ng, 100), nf, 10.0, qed)
                rot = ScalarOperator.promote_names(flavors.rotate_matching(nf + 1, qed), 10.0)
                nxt = PhysicalOperator.ad_to_evol_map(_ad_members(qed, ng, 200), nf + 1, 10.0, qed)
                op = nxt @ rot @ mat @ op
                nf += 1
            else:  # backward: rotate nf basis -> matching basis of nf-1, inverse matching, evolve with nf-1
                rot = ScalarOperator.promote_names(flavors.rotate_matching_inverse(nf, qed), 10.0)
                mat = MatchingCondition.split_ad_to_evol_map(_ome_members(ng, 100), nf - 1, 10.0, qed)
                nxt = PhysicalOperator.ad_to_evol_map(_ad_members(qed, ng, 200), nf - 1, 10.0, qed)
                op = nxt @ mat @ rot @ op
                nf -= 1
        return op, nfi, nfo
    raise KeyError(src)


def _reference(members, nfi, nfo, qed, order, ng):
    """Exact tensor: dict (o, a, i, b) -> Fraction (only non-zero entries)."""
    li, Bi = B.basis_matrix(nfi, qed, order)
    lo, Bo = B.basis_matrix(nfo, qed, order)
    Binv = B.inverse(Bo)
    ii = {l: k for k, l in enumerate(li)}
    io = {l: k for k, l in enumerate(lo)}
    T = {}
    for (tgt, srcl), M in members.items():
        if all(x == 0 for r in M for x in r):
            continue
        if tgt not in io or srcl not in ii:
            return None, f"label {tgt}.{srcl} is not in the intrinsic bases nf_out={nfo} / nf_in={nfi}"
        col = [Binv[o][io[tgt]] for o in range(14)]
        row = Bi[ii[srcl]]
        for o in range(14):
            if not col[o]:
                continue
            for i in range(14):
                if not row[i]:
                    continue
                w = col[o] * row[i]
                for a in range(ng):
                    for b in range(ng):
                        if M[a][b]:
                            T[(o, a, i, b)] = T.get((o, a, i, b), F(0)) + w * M[a][b]
    return T, None


def _compare(res, sig, what, tensor, T, scale, order):
    """Largest deviation between the float tensor and the exact reference."""
    import numpy as np

    worst, where = 0.0, None
    ref = np.zeros(tensor.shape)
    for (o, a, i, b), v in T.items():
        ref[o, a, i, b] = float(v)
    if not np.all(np.isfinite(tensor)):
        res.fail(f"{sig}/non-finite", f"{what}: tensor has non-finite entries")
        return 0.0
    d = np.abs(tensor - ref)
    worst = float(d.max())
    if worst > TOL * scale:
        o, a, i, b = np.unravel_index(int(d.argmax()), d.shape)
        where = (
            f"{what}: T[out pid {order[o]}, {a}, in pid {order[i]}, {b}] = {tensor[o, a, i, b]!r} "
            f"expected {T.get((int(o), int(a), int(i), int(b)), F(0))} (|diff| {worst:.3g}, {int((d > TOL * scale).sum())} entries differ)"
        )
        res.fail(sig, where)
    return worst / scale


def _zero_error(res, sig, what, err):
    """All members carry an exactly vanishing error estimate: the blown-up error tensor vanishes as well
    (whatever rule propagates the errors; nothing is demanded about non-zero errors)."""
    import numpy as np

    err = np.asarray(err)
    if err.size and not np.all(err == 0.0):
        o = np.unravel_index(int(np.abs(np.nan_to_num(err, nan=np.inf)).argmax()), err.shape)
        res.fail(f"{sig}/error-tensor-nonzero", f"{what}: all member errors are 0 but the error tensor has {err[o]!r} at {tuple(int(x) for x in o)}")


def _eval_tensor(case):
    import numpy as np
    from eko import basis_rotation as br
    from eko.member import MemberName, OperatorBase, OpMember

    qed, ng, src = case["qed"], case["ng"], case["source"]
    res = Result()
    order = [int(p) for p in br.flavor_basis_pids]
    tag = f"{src}/qed={qed}"
    try:
        obj, nfi, nfo = _build(case)
    except Exception as e:  # noqa
        res.fail(f"build/{tag}/raises:{type(e).__name__}", f"{case}: {type(e).__name__}: {e}")
        res.outcome = "build-raises"
        return res
    names = sorted(str(k) for k in obj.op_members)
    split = [tuple(n.split(".")) for n in names]
    sig = f"to_flavor_basis_tensor/{tag}" + ("" if src != "chain" else f"/{'up' if nfo > nfi else 'down' if nfo < nfi else 'flat'}")
    worst = 0.0
    nfill = 0
    # (1) the object as produced by the real maps, with its own member matrices (exact small integers
    #     for physical/matching; for chains the members went through float products and are skipped)
    chunk, nchunks = case.get("chunk", 0), case.get("nchunks", 1)
    nmap = 0
    if src != "chain" and chunk == 0:
        nmap = _check_map(res, case, obj)
        mem = {}
        for k, v in obj.op_members.items():
            t, s = str(k).split(".")
            mem[(t, s)] = [[F(int(x)) for x in r] for r in np.asarray(v.value)]
            assert np.all(np.asarray(v.value) == np.round(v.value))
        T, err = _reference(mem, nfi, nfo, qed, order, ng)
        if T is None:
            res.fail(f"{sig}/label-outside-basis", f"{case}: {err}")
        else:
            try:
                val, err_t = obj.to_flavor_basis_tensor(qed)
                scale = max(abs(float(x)) for M in mem.values() for r in M for x in r)
                worst = max(worst, _compare(res, sig, f"{case} as built", np.asarray(val), T, scale, order))
                _zero_error(res, sig, f"{case} as built", err_t)
                nfill += 1
            except Exception as e:  # noqa
                res.fail(f"{sig}/raises:{type(e).__name__}", f"{case} as built: {type(e).__name__}: {e}")
    # (2) fresh members on the same label set: each alone, then all different
    fills = [[n] for n in range(len(names)) if n % nchunks == chunk and case.get("single", True)]
    if chunk == nchunks - 1:
        fills.append(list(range(len(names))))
    base = M0[ng]
    for fill in fills:
        mats = {}
        for k, (t, s) in enumerate(split):
            if k in fill:
                off = 0 if len(fill) == 1 else 23 * (k + 1)
                mats[(t, s)] = [[F(x + off) for x in r] for r in base]
            else:
                mats[(t, s)] = [[F(0)] * ng for _ in range(ng)]
        T, err = _reference(mats, nfi, nfo, qed, order, ng)
        what = f"{case} fill={'all-different' if len(fill) > 1 else names[fill[0]]}"
        if T is None:
            res.fail(f"{sig}/label-outside-basis", f"{what}: {err}")
            continue
        ob = OperatorBase(
            {
                MemberName(f"{t}.{s}"): OpMember(np.array([[float(x) for x in r] for r in M]), np.zeros((ng, ng)))
                for (t, s), M in mats.items()
            },
            10.0,
        )
        try:
            val, err_t = ob.to_flavor_basis_tensor(qed)
        except Exception as e:  # noqa
            res.fail(f"{sig}/raises:{type(e).__name__}", f"{what}: {type(e).__name__}: {e}")
            continue
        scale = max(abs(float(x)) for M in mats.values() for r in M for x in r)
        worst = max(worst, _compare(res, sig, what, np.asarray(val), T, scale, order))
        _zero_error(res, sig, what, err_t)
        nfill += 1
    res.info = {"max_rel_deviation": worst, "members": len(names), "fills": nfill, "map_entries": nmap}
    res.outcome = f"{src} qed={qed} nf_in={nfi} nf_out={nfo} members={len(names)} {'ok' if not res.fails else 'bad'}"
    return res


def _eval_weights(case):
    import numpy as np
    from eko import basis_rotation as br
    from eko.evolution_operator import flavors

    nf, qed, norm = case["nf"], case["qed"], case["normalize"]
    res = Result()
    order = [int(p) for p in br.flavor_basis_pids]
    labs, rows = B.basis_matrix(nf, qed, order)
    inv = B.inverse(rows)
    fn = flavors.pids_from_intrinsic_unified_evol if qed else flavors.pids_from_intrinsic_evol
    fname = fn.__name__
    worst = 0.0
    if qed:
        try:
            got = sorted(br.intrinsic_unified_evol_labels(nf))
            if got != sorted(labs):
                res.fail("intrinsic_unified_evol_labels", f"nf={nf}: {got} expected {sorted(labs)}")
        except Exception as e:  # noqa
            res.fail(f"intrinsic_unified_evol_labels/raises:{type(e).__name__}", f"nf={nf}: {e}")
    for k, l in enumerate(labs):
        want = [inv[o][k] for o in range(14)] if norm else rows[k]
        try:
            w = np.asarray(fn(l, nf, norm), dtype=float)
        except Exception as e:  # noqa
            res.fail(f"{fname}/normalize={norm}/raises:{type(e).__name__}", f"label={l} nf={nf}: {type(e).__name__}: {e}")
            continue
        try:
            got = []
            for x in w:
                fr, r = B.rat(x)
                worst = max(worst, r)
                got.append(fr)
        except ValueError as e:
            res.fail(f"{fname}/normalize={norm}/not-rational", f"label={l} nf={nf}: {e}")
            continue
        if got != want:
            res.fail(
                f"{fname}/normalize={norm}",
                f"label={l} nf={nf}: weights {B.show(got, order)} expected {B.show(want, order)}",
            )
    res.info = {"max_rounding_residue": worst, "labels": len(labs)}
    res.outcome = f"weights qed={qed} normalize={norm} {'ok' if not res.fails else 'bad'}"
    return res


def evaluate(case):
    return _eval_weights(case) if case["kind"] == "weights" else _eval_tensor(case)


def run(ctx):
    sizes = [1, 2, 3] if ctx.thorough() else [2]
    cases = []
    for qed in (False, True):
        for nf in NFS:
            for norm in (False, True):
                cases.append({"kind": "weights", "nf": nf, "qed": qed, "normalize": norm})
        for ng in sizes:
            sets = [{"source": "physical", "nf": nf} for nf in NFS]
            sets += [{"source": "matching", "nf": nf} for nf in (3, 4, 5)]
            sets += [{"source": "chain", "nf_in": a, "nf_out": b} for a in NFS for b in NFS if a != b]
            for s in sets:
                # the single-member fills of one label set are spread over several cases (wall time only)
                n = (8 if qed else 4) if s["source"] == "chain" else 2
                far = s["source"] == "chain" and abs(s["nf_in"] - s["nf_out"]) > 1
                if far and not ctx.thorough():
                    # quick: products over two and three thresholds only with the all-different fill
                    cases.append({"kind": "tensor", **s, "qed": qed, "ng": ng, "chunk": 0, "nchunks": 1, "single": False})
                    continue
                for c in range(n):
                    cases.append({"kind": "tensor", **s, "qed": qed, "ng": ng, "chunk": c, "nchunks": n})
        if not ctx.thorough():
            # quick: 1-point grids (scalar members) on the label sets of the two maps: as built + all-different fill
            for s in [{"source": "physical", "nf": nf} for nf in NFS] + [{"source": "matching", "nf": nf} for nf in (3, 4, 5)]:
                cases.append({"kind": "tensor", **s, "qed": qed, "ng": 1, "chunk": 0, "nchunks": 1, "single": False})
    results = ctx.run_cases(cases, evaluate, chunksize=1)
    ctx.exhaustive = True
    nmap = sum((r[1][3] or {}).get("map_entries", 0) for r in results)
    nfills = sum((r[1][3] or {}).get("fills", 0) for r in results)
    ctx.extra.update(blow_ups_compared=int(nfills), map_entries_compared=int(nmap))
    ctx.rule = (
        "label sets: ad_to_evol_map for nf 3-6, split_ad_to_evol_map for nf 3-5, and the products "
        "evolve.rotate.match...evolve for all 12 ordered pairs nf_in != nf_out (forward and backward), each for "
        "QCD and QED and grid sizes " + str(sizes) + "; on each label set every member is switched on alone "
        "(non-symmetric integer matrix) and once all members differ"
        + ("" if ctx.thorough() else " (quick: products over 2-3 thresholds only with the all-different fill)")
        + ("" if ctx.thorough() else "; quick: 1-point grids on the label sets of the two maps with the as-built and the all-different fill")
        + "; for the objects returned by the two maps every block is compared exactly with the input element that "
        "the typed block table (sector -> active distribution pairs; matching: 13 matrix elements -> blocks; identity "
        "on untouched heavy quarks / photon) names, and the key set must equal the table's"
        "; every blow-up is done with vanishing member errors and must return a vanishing error tensor"
        "; plus the weight functions for all 14 "
        "labels x nf 3-6 x QCD/QED x normalize on/off; non-trivial = all"
    )
    ctx.assumptions += [
        "reference bases typed from doc/source/theory/FlavorSpace.rst (vf/ref/c31_bases.py); output weights = columns of the exact inverse",
        "linearity of the blow-up in the members (single-member fills decide arbitrary members); checked by the all-different fill",
        "nf_in, nf_out are those of the construction; labels absent from a set are zero blocks",
        "block table of the evolution-basis operator typed in this module / vf/ref/c31_bases.py: S,g (unified: g,ph,S,Sdelta) and V (V,Vdelta) blocks, "
        "T_k <- ns+, V_k <- ns- (unified: u/d families), heavy q+- <- identity; matching: light non-singlet-like blocks <- (200,200), "
        "h+ <-> S,g,h+ and h- <- h- for the quark that becomes active, photon and heavier quarks <- identity; the elements (200,h-),(h-,200) are unused",
        "of the error tensor only 'zero member errors give a zero error tensor' is demanded (the statement says nothing about error propagation)",
        f"floats compared to {TOL} x largest member entry",
    ]
