"""C12 exact singlet methods converge to the path-ordered solution.

For every point of a fixed lattice (non-commuting tower x order x nf x coupling pair) the true solution
of dE/da = gamma(a)/beta(a) E is obtained from mpmath's Taylor-series ODE solver at 30 digits and

* iterate-exact (10/40/160/640 steps) must converge to it at the second order of the documented
  midpoint rule (error ratio >= 12 per x4 steps, 16 for an exact second-order scheme, 4 for first order)
  and its Richardson limit must hit the reference;
* perturbative-exact must converge geometrically in ev_op_max_order: error <= C (a_max/rho)^K with rho
  the radius of convergence of 1/beta (smallest root of the truncated beta polynomial);
* the QED singlet (4x4) and valence (2x2) iterated kernels, fed coupling steps sampled from a smooth
  trajectory (a_s(s), a_em(a_s)), must converge to the path-ordered solution along that trajectory, and
  must BE the ordered product of one-step exponentials built from the supplied step borders and the supplied
  (a_s, a_em) of every step (exact step-product oracle: a scheme with the right limit that ignores the
  supplied values is not "along the supplied coupling steps");
* perturbative-exact: besides the envelope, the error must fall geometrically between the successive deciding
  orders K = 10 -> 20 -> 30.
"""

import numpy as np

from vf.core.ctx import Result
from vf.ref import c11_ode as ode
from vf.ref import c11_towers as tw

ID = "C12"
LEVEL = "exploration"
TECHNIQUE = "exhaustive lattice of non-commuting towers x orders x nf x coupling pairs against a 30-digit mpmath ODE solution"
LEVEL_TEXT = (
    "on every lattice point the iterated and perturbative exact singlet kernels (and the QED 4x4 / 2x2 "
    "iterated kernels) are compared with an independent high-precision solution of the defining matrix ODE; "
    "the convergence order in the number of steps, the Richardson limit and the geometric convergence in "
    "ev_op_max_order (envelope and decrease between successive orders) are checked; the QED kernels are in addition "
    "compared, at 1/4/10/40 steps, with the ordered product of one-step matrix exponentials (scaling-and-squaring Taylor "
    "series) built from exactly the supplied step borders and per-step (a_s, a_em) values"
)
LEVEL_NOTE = (
    "decides the property on the lattice only; beta coefficients are taken from eko.beta as inputs (C20 checks "
    "them); trusted: mpmath.odefun (tolerance 1e-18)"
)
FLOOR_NONTRIVIAL = 30

L_A = [0.002, 0.005, 0.0125, 0.03, 0.05]
PAIRS_QUICK = [[0.03, 0.0125], [0.0125, 0.03], [0.05, 0.005]]
ITERS = [10, 40, 160, 640]
KS = [3, 5, 10, 20, 30]
RATIO_MIN = 12.0
NOISE = 1e-12  # errors below this are rounding, not discretisation
RICH_TOL = 5e-8  # measured quick 2.3e-11 (QCD) / 1.3e-12 (QED); thorough (long paths 0.05 <-> 0.002/0.005) 7.1e-10 (QCD) / 2.8e-9 (QED): no room to tighten
PERT_C = 50.0
PERT_RATIO_GAP = 10  # successive deciding orders K = 10 -> 20 -> 30
STEP_NS = [1, 4, 10, 40]  # step counts of the exact step-product oracle (QED kernels)
STEP_TOL = 1e-12  # |E - P| <= STEP_TOL max(1, |P|): rounding only
QED_ORDERS = [[1, 1], [1, 2], [2, 1], [2, 2], [3, 1], [3, 2], [4, 1], [4, 2]]
QED_ORDERS_QUICK = [[1, 1], [2, 2], [3, 1], [4, 2]]


def _rel(e, ref):
    return float(np.abs(e - ref).max() / np.abs(ref).max())


def qed_steps(variant, a0, a1, e0, n):
    """Coupling steps handed to the QED kernels: values at the step borders and (a_s, a_em) at the
    'middle' of each step.  geom: borders geometric in a_s, middle = arithmetic mean, a_em fixed.
    param: borders uniform in 1/a_s (LO-like running in ln mu^2), middle = a_s at the middle of the
    parameter (NOT the arithmetic mean of the borders, as in the runner), a_em a linear function of a_s."""
    s = np.arange(n + 1) / n
    sm = (s[1:] + s[:-1]) / 2
    if variant == "geom":
        al = np.geomspace(a0, a1, n + 1)
        ah = (al[1:] + al[:-1]) / 2
        e = np.full(n, e0)
    else:
        f = lambda t: 1.0 / (1.0 / a0 + t * (1.0 / a1 - 1.0 / a0))
        al = f(s)
        ah = f(sm)
        e = e0 * (1.0 + 0.3 * (ah - a0) / (a1 - a0))
    return al, np.stack([ah, e], axis=1)


def qed_aem_of_a(variant, a0, a1, e0):
    import mpmath as mp

    if variant == "geom":
        return lambda a: mp.mpf(e0)
    return lambda a: mp.mpf(e0) * (1 + mp.mpf("0.3") * (a - mp.mpf(a0)) / (mp.mpf(a1) - mp.mpf(a0)))


def step_product(g, bg, al, ah):
    """The discretisation the statement names, written from the definition and independent of any
    eigen-decomposition: P = prod_k exp( G(ah_k, e_k) / B(ah_k, e_k) (al_{k+1} - al_k) ) (later steps on the
    left), G = sum_ij gamma[i,j] a^i e^j, B = sum_ij beta[i,j] a^(i+1) e^j, with (a, e) = the SUPPLIED
    middle values ah[k] of every step and al the supplied borders."""
    dim = g.shape[-1]
    P = np.eye(dim, dtype=complex)
    for k in range(len(al) - 1):
        a, e = float(ah[k, 0]), float(ah[k, 1])
        G = np.zeros((dim, dim), dtype=complex)
        B = 0.0
        for i in range(g.shape[0]):
            for j in range(g.shape[1]):
                G = G + g[i, j] * a**i * e**j
                B += bg[i, j] * a ** (i + 1) * e**j
        P = ode.expm_small(G / B * (al[k + 1] - al[k])) @ P
    return P


def _convergence(res, sig, where, errs, info, pre):
    """errs[i] = relative error with ITERS[i] steps."""
    for i in range(len(ITERS) - 1):
        if errs[i + 1] < NOISE:
            continue
        r = errs[i] / errs[i + 1]
        key = f"max_{pre}_inverse_ratio_x16"
        info[key] = max(info.get(key, 0.0), 16.0 / r)
        if not r >= RATIO_MIN:
            res.fail(
                f"{sig}/convergence-order",
                f"{where}: relative error {errs[i]:.3e} with {ITERS[i]} steps, {errs[i+1]:.3e} with {ITERS[i+1]}: "
                f"ratio {r:.2f} < {RATIO_MIN} (second-order midpoint rule gives 16)",
            )
    if not errs[-1] <= 1e-3 * max(errs[0], NOISE) + NOISE:
        res.fail(f"{sig}/not-approaching", f"{where}: errors {errs} for {ITERS} steps")


def _richardson(res, sig, where, e_lo, e_hi, ref, info, pre):
    lim = (16.0 * e_hi - e_lo) / 15.0
    d = _rel(lim, ref)
    info[f"max_{pre}_richardson_over_tol"] = max(info.get(f"max_{pre}_richardson_over_tol", 0.0), d / RICH_TOL)
    if not d <= RICH_TOL:
        res.fail(
            f"{sig}/limit",
            f"{where}: Richardson limit of the {ITERS[-2]}/{ITERS[-1]}-step results differs from the path-ordered "
            f"solution by {d:.3e} (relative) > {RICH_TOL}; limit={lim.tolist()} ref={ref.tolist()}",
        )


def eval_qcd(case, res, info):
    import mpmath as mp
    from eko import beta
    from eko.kernels import EvoMethods as EM
    from eko.kernels import singlet as s

    name, order, nf, a0, a1 = case["tower"], case["order"], case["nf"], case["a0"], case["a1"]
    g = tw.arr(tw.GENERIC2[name])[:order]
    bl = [float(beta.beta_qcd((2 + i, 0), nf)) for i in range(order)]
    ref = ode.path_ordered(ode.qcd_generator(g.tolist(), bl), a0, a1, 2)
    where = f"tower={name} order={order} nf={nf} a0={a0} a1={a1}"
    # --- iterate-exact
    sig = f"singlet.eko_iterate/order={order}"
    outs = []
    try:
        for n in ITERS:
            outs.append(np.asarray(s.dispatcher((order, 0), EM.ITERATE_EXACT, g.copy(), a1, a0, nf, n, (10, 0))))
        errs = [_rel(e, ref) for e in outs]
        info["max_iterate_err_640"] = errs[-1]
        _convergence(res, sig, where, errs, info, "iterate")
        _richardson(res, sig, where, outs[-2], outs[-1], ref, info, "iterate")
    except Exception as e:  # noqa
        res.fail(sig + "/raises", f"{where}: {type(e).__name__}: {e}")
    # --- perturbative-exact
    sig = f"singlet.eko_perturbative/order={order}"
    with mp.workdps(30):
        rts = mp.polyroots([mp.mpf(b) for b in reversed(bl)], maxsteps=200, extraprec=200) if order > 1 else []
        rho = float(min(abs(r) for r in rts))
    q = max(a0, a1) / rho
    info["max_a_over_rho"] = q
    try:
        for its in (1, 10):
            perr = {}
            for K in KS:
                e = np.asarray(s.dispatcher((order, 0), EM.PERTURBATIVE_EXACT, g.copy(), a1, a0, nf, its, (K, 0)))
                err = _rel(e, ref)
                perr[K] = err
                bound = PERT_C * q**K + NOISE
                info["max_perturbative_err_over_bound"] = max(info.get("max_perturbative_err_over_bound", 0.0), err / bound)
                info[f"max_perturbative_err_K{K}"] = max(info.get(f"max_perturbative_err_K{K}", 0.0), err)
                info[f"max_perturbative_err_over_bound_K{K}"] = max(info.get(f"max_perturbative_err_over_bound_K{K}", 0.0), err / bound)
                if not err <= bound:
                    res.fail(
                        f"{sig}/geometric-convergence",
                        f"{where} ev_op_iterations={its} ev_op_max_order={K}: relative error {err:.3e} > "
                        f"{PERT_C} (a_max/rho)^K = {bound:.3e} (rho={rho:.4g}); got={e.tolist()} ref={ref.tolist()}",
                    )
            # the decrease itself ("at the documented rate"): geometric between successive deciding orders
            for K0 in (10, 20):
                K1 = K0 + PERT_RATIO_GAP
                bound = perr[K0] * PERT_C * q**PERT_RATIO_GAP + NOISE
                kk = f"max_perturbative_successive_over_bound_K{K0}to{K1}"
                info[kk] = max(info.get(kk, 0.0), perr[K1] / bound)
                if not perr[K1] <= bound:
                    res.fail(
                        f"{sig}/successive-orders",
                        f"{where} ev_op_iterations={its}: relative error {perr[K0]:.3e} at ev_op_max_order={K0} but {perr[K1]:.3e} at {K1} "
                        f"> err({K0}) x {PERT_C} (a_max/rho)^{PERT_RATIO_GAP} = {bound:.3e} (rho={rho:.4g})",
                    )
    except Exception as e:  # noqa
        res.fail(sig + "/raises", f"{where}: {type(e).__name__}: {e}")
    return f"qcd/order={order}"


def eval_qed(case, res, info):
    from eko import beta
    from eko.kernels import EvoMethods as EM
    from eko.kernels import singlet_qed as sq
    from eko.kernels import valence_qed as vq

    kind, name, (o0, o1), nf = case["kind"], case["tower"], case["order"], case["nf"]
    variant, e0, a0, a1 = case["variant"], case["e0"], case["a0"], case["a1"]
    if kind == "qed-singlet":
        dim, g, disp, fn = 4, tw.qed_singlet_generic(name, o0, o1), sq.dispatcher, "singlet_qed.eko_iterate"
    else:
        dim, g, disp, fn = 2, tw.qed_valence_generic(name, o0, o1), vq.dispatcher, "valence_qed.eko_iterate"
    bg = np.zeros((o0 + 1, o1 + 1))
    for i in range(1, o0 + 1):
        bg[i, 0] = beta.beta_qcd((i + 1, 0), nf)
    bg[1, 1] = beta.beta_qcd((2, 1), nf)
    ref = ode.path_ordered(ode.qed_generator(g.tolist(), bg.tolist(), qed_aem_of_a(variant, a0, a1, e0)), a0, a1, dim)
    where = f"{kind} tower={name} order=({o0},{o1}) nf={nf} steps={variant} aem0={e0} a0={a0} a1={a1}"
    sig = f"{fn}/order=({o0},{o1})/steps={variant}"
    outs = []
    # --- "along the supplied coupling steps", literally: the kernel IS the step product built from the supplied
    # borders and the supplied (a_s, a_em) of every step (decided independently of the convergence below)
    for n in STEP_NS:
        try:
            al, ah = qed_steps(variant, a0, a1, e0, n)
            E = np.asarray(disp((o0, o1), EM.ITERATE_EXACT, g.copy(), al, ah, nf, n, (10, 0)))
            P = step_product(g, bg, al, ah)
            d = float(np.abs(E - P).max() / max(1.0, float(np.abs(P).max()))) if np.all(np.isfinite(E)) else float("inf")
            info["max_qed_step_product_over_tol"] = max(info.get("max_qed_step_product_over_tol", 0.0), d / STEP_TOL)
            if not d <= STEP_TOL:
                res.fail(
                    f"{sig}/step-product",
                    f"{where} iterations={n}: kernel differs from prod_k exp(gamma(ah_k,e_k)/beta(ah_k,e_k) (al_k+1 - al_k)) built from the "
                    f"supplied steps by {d:.3e} > {STEP_TOL}; got={E.tolist()} expected={P.tolist()}",
                )
        except Exception as e:  # noqa
            res.fail(sig + "/raises", f"{where} iterations={n}: {type(e).__name__}: {e}")
    try:
        for n in ITERS:
            al, ah = qed_steps(variant, a0, a1, e0, n)
            outs.append(np.asarray(disp((o0, o1), EM.ITERATE_EXACT, g.copy(), al, ah, nf, n, (10, 0))))
        errs = [_rel(e, ref) for e in outs]
        info["max_qed_err_640"] = errs[-1]
        _convergence(res, sig, where, errs, info, "qed")
        _richardson(res, sig, where, outs[-2], outs[-1], ref, info, "qed")
    except Exception as e:  # noqa
        res.fail(sig + "/raises", f"{where}: {type(e).__name__}: {e}")
    return f"{kind}/order=({o0},{o1})/{variant}"


def evaluate(case):
    res = Result()
    info = {}
    with np.errstate(all="ignore"):
        cls = eval_qcd(case, res, info) if case["kind"] == "qcd" else eval_qed(case, res, info)
    res.info = info
    res.outcome = cls + ("/ok" if not res.fails else "/fail")
    return res


def cases(tier):
    out = []
    th = tier == "thorough"
    pairs = [[x, y] for x in L_A for y in L_A if x != y] if th else PAIRS_QUICK
    for name in tw.GENERIC2:
        for order in (2, 3, 4):
            for nf in (3, 4, 5, 6) if th else (3, 6):
                for a0, a1 in pairs:
                    out.append({"kind": "qcd", "tower": name, "order": order, "nf": nf, "a0": a0, "a1": a1})
    qpairs = PAIRS_QUICK if th else PAIRS_QUICK[:1]
    for kind in ("qed-singlet", "qed-valence"):
        for name in ("real", "cplx"):
            for order in QED_ORDERS if th else QED_ORDERS_QUICK:
                for variant in ("geom", "param"):
                    for e0 in (0.0006, 0.004):
                        for nf in (4, 6) if th else (4,):
                            for a0, a1 in qpairs:
                                out.append(
                                    {"kind": kind, "tower": name, "order": order, "nf": nf, "variant": variant, "e0": e0, "a0": a0, "a1": a1}
                                )
    return out


def run(ctx):
    cs = cases(ctx.tier)
    ctx.run_cases(cs, evaluate, chunksize=1)
    nq = sum(1 for c in cs if c["kind"] == "qcd")
    ctx.rule = (
        f"complete product: QCD {nq} points = 3 non-commuting complex 2x2 towers x order 2-4 x nf x ordered coupling pairs "
        f"from {L_A if ctx.thorough() else PAIRS_QUICK}; QED {len(cs) - nq} points = (4x4 singlet, 2x2 valence) x 2 dense towers x "
        "orders x 2 step shapes (geometric with fixed a_em; uniform in 1/a_s with the middle taken in the parameter and running a_em) "
        "x a_em in {6e-4, 4e-3} x nf x pairs; per point iterate with 10/40/160/640 steps (ratio test, Richardson limit), for QED also "
        f"{STEP_NS} steps against the exact step product of the supplied steps, and, for QCD, "
        "perturbative-exact with ev_op_max_order 3/5/10/20/30 x ev_op_iterations 1/10 (envelope per K, decrease 10 -> 20 -> 30); "
        "non-trivial = all (every tower is non-commuting)"
    )
    ctx.assumptions += [
        "true solution = mpmath.odefun (tol 1e-18, 30 digits) of dE/da = [sum gamma_i a^i / sum beta_i a^(i+1)] E, for QED with "
        "gamma and beta summed over the (a_s, a_em) grid and a_em a prescribed function of a_s",
        f"documented rate = midpoint rule: error ratio per x4 steps >= {RATIO_MIN} (measured 15.9-16.0); Richardson limit within {RICH_TOL}",
        f"'along the supplied coupling steps' = the kernel equals prod_k exp(gamma(ah_k, e_k)/beta(ah_k, e_k) (al_k+1 - al_k)), later steps on "
        f"the left, with (ah_k, e_k) the supplied a_half row of step k, to {STEP_TOL} relative to max(1,|P|) (rounding; measured <= 5e-15); in the "
        "'param' step shape the supplied a_s middle differs from the mean of the borders and a_em differs from step to step",
        f"perturbative-exact, decrease: err(K+{PERT_RATIO_GAP}) <= err(K) x {PERT_C} (a_max/rho)^{PERT_RATIO_GAP} + {NOISE} for K = 10, 20 "
        "(K = 3, 5 are pre-asymptotic and only bounded by the envelope)",
        f"perturbative-exact: error <= {PERT_C} (a_max/rho)^K + {NOISE} (geometric envelope; the error itself need not be monotone: "
        "measured 4.2e-2 -> 4.6e-2 between K=3 and K=5 at a_max/rho = 0.57)",
        "nothing is claimed between lattice points",
    ]
