"""C12 exact singlet methods converge to the path-ordered solution.

For every point of a fixed lattice (non-commuting tower x order x nf x coupling pair) the true solution
of dE/da = gamma(a)/beta(a) E is obtained from mpmath's Taylor-series ODE solver at 30 digits and

* iterate-exact (10/40/160/640 steps) must converge to it at the second order of the documented
  midpoint rule (error ratio >= 12 per x4 steps, 16 for an exact second-order scheme, 4 for first order)
  and its Richardson limit must hit the reference;
* perturbative-exact must converge geometrically in ev_op_max_order: error <= C (a_max/rho)^K with rho
  the radius of convergence of 1/beta (smallest root of the truncated beta polynomial);
* the QED singlet (4x4) and valence (2x2) iterated kernels, fed coupling steps sampled from a smooth
  trajectory (a_s(s), a_em(a_s)), must converge to the path-ordered solution along that trajectory.
"""

import numpy as np

from vf.core.ctx import Result
from vf.ref import c11_ode as ode
from vf.ref import c11_towers as tw

ID = "C12"
LEVEL = "exploration"
TECHNIQUE = "exhaustive lattice of non-commuting towers x orders x nf x coupling pairs against a 30-digit mpmath ODE solution"
LEVEL_TEXT = (
    "on every lattice point the iterated and perturbative exact singlet kernels (and the QED 4x4 / 2x2 "
    "iterated kernels) are compared with an independent high-precision solution of the defining matrix ODE; "
    "the convergence order in the number of steps, the Richardson limit and the geometric convergence in "
    "ev_op_max_order are checked"
)
LEVEL_NOTE = (
    "decides the property on the lattice only; beta coefficients are taken from eko.beta as inputs (C20 checks "
    "them); trusted: mpmath.odefun (tolerance 1e-18)"
)
FLOOR_NONTRIVIAL = 30

L_A = [0.002, 0.005, 0.0125, 0.03, 0.05]
PAIRS_QUICK = [[0.03, 0.0125], [0.0125, 0.03], [0.05, 0.005]]
ITERS = [10, 40, 160, 640]
KS = [3, 5, 10, 20, 30]
RATIO_MIN = 12.0
NOISE = 1e-12  # errors below this are rounding, not discretisation
RICH_TOL = 5e-8
PERT_C = 50.0
QED_ORDERS = [[1, 1], [1, 2], [2, 1], [2, 2], [3, 1], [3, 2], [4, 1], [4, 2]]
QED_ORDERS_QUICK = [[1, 1], [2, 2], [3, 1], [4, 2]]


def _rel(e, ref):
    return float(np.abs(e - ref).max() / np.abs(ref).max())


def qed_steps(variant, a0, a1, e0, n):
    """Coupling steps handed to the QED kernels: values at the step borders and (a_s, a_em) at the
    'middle' of each step.  geom: borders geometric in a_s, middle = arithmetic mean, a_em fixed.
    param: borders uniform in 1/a_s (LO-like running in ln mu^2), middle = a_s at the middle of the
    parameter (NOT the arithmetic mean of the borders, as in the runner), a_em a linear function of a_s."""
    s = np.arange(n + 1) / n
    sm = (s[1:] + s[:-1]) / 2
    if variant == "geom":
        al = np.geomspace(a0, a1, n + 1)
        ah = (al[1:] + al[:-1]) / 2
        e = np.full(n, e0)
    else:
        f = lambda t: 1.0 / (1.0 / a0 + t * (1.0 / a1 - 1.0 / a0))
        al = f(s)
        ah = f(sm)
        e = e0 * (1.0 + 0.3 * (ah - a0) / (a1 - a0))
    return al, np.stack([ah, e], axis=1)


def qed_aem_of_a(variant, a0, a1, e0):
    import mpmath as mp

    if variant == "geom":
        return lambda a: mp.mpf(e0)
    return lambda a: mp.mpf(e0) * (1 + mp.mpf("0.3") * (a - mp.mpf(a0)) / (mp.mpf(a1) - mp.mpf(a0)))


def _convergence(res, sig, where, errs, info, pre):
    """errs[i] = relative error with ITERS[i] steps."""
    for i in range(len(ITERS) - 1):
        if errs[i + 1] < NOISE:
            continue
        r = errs[i] / errs[i + 1]
        key = f"max_{pre}_inverse_ratio_x16"
        info[key] = max(info.get(key, 0.0), 16.0 / r)
        if not r >= RATIO_MIN:
            res.fail(
                f"{sig}/convergence-order",
                f"{where}: relative error {errs[i]:.3e} with {ITERS[i]} steps, {errs[i+1]:.3e} with {ITERS[i+1]}: "
                f"ratio {r:.2f} < {RATIO_MIN} (second-order midpoint rule gives 16)",
            )
    if not errs[-1] <= 1e-3 * max(errs[0], NOISE) + NOISE:
        res.fail(f"{sig}/not-approaching", f"{where}: errors {errs} for {ITERS} steps")


def _richardson(res, sig, where, e_lo, e_hi, ref, info, pre):
    lim = (16.0 * e_hi - e_lo) / 15.0
    d = _rel(lim, ref)
    info[f"max_{pre}_richardson_over_tol"] = max(info.get(f"max_{pre}_richardson_over_tol", 0.0), d / RICH_TOL)
    if not d <= RICH_TOL:
        res.fail(
            f"{sig}/limit",
            f"{where}: Richardson limit of the {ITERS[-2]}/{ITERS[-1]}-step results differs from the path-ordered "
            f"solution by {d:.3e} (relative) > {RICH_TOL}; limit={lim.tolist()} ref={ref.tolist()}",
        )


def eval_qcd(case, res, info):
    import mpmath as mp
    from eko import beta
    from eko.kernels import EvoMethods as EM
    from eko.kernels import singlet as s

    name, order, nf, a0, a1 = case["tower"], case["order"], case["nf"], case["a0"], case["a1"]
    g = tw.arr(tw.GENERIC2[name])[:order]
    bl = [float(beta.beta_qcd((2 + i, 0), nf)) for i in range(order)]
    ref = ode.path_ordered(ode.qcd_generator(g.tolist(), bl), a0, a1, 2)
    where = f"tower={name} order={order} nf={nf} a0={a0} a1={a1}"
    # --- iterate-exact
    sig = f"singlet.eko_iterate/order={order}"
    outs = []
    try:
        for n in ITERS:
            outs.append(np.asarray(s.dispatcher((order, 0), EM.ITERATE_EXACT, g.copy(), a1, a0, nf, n, (10, 0))))
        errs = [_rel(e, ref) for e in outs]
        info["max_iterate_err_640"] = errs[-1]
        _convergence(res, sig, where, errs, info, "iterate")
        _richardson(res, sig, where, outs[-2], outs[-1], ref, info, "iterate")
    except Exception as e:  # noqa
        res.fail(sig + "/raises", f"{where}: {type(e).__name__}: {e}")
    # --- perturbative-exact
    sig = f"singlet.eko_perturbative/order={order}"
    with mp.workdps(30):
        rts = mp.polyroots([mp.mpf(b) for b in reversed(bl)], maxsteps=200, extraprec=200) if order > 1 else []
        rho = float(min(abs(r) for r in rts))
    q = max(a0, a1) / rho
    info["max_a_over_rho"] = q
    try:
        for its in (1, 10):
            for K in KS:
                e = np.asarray(s.dispatcher((order, 0), EM.PERTURBATIVE_EXACT, g.copy(), a1, a0, nf, its, (K, 0)))
                err = _rel(e, ref)
                bound = PERT_C * q**K + NOISE
                info["max_perturbative_err_over_bound"] = max(info.get("max_perturbative_err_over_bound", 0.0), err / bound)
                if not err <= bound:
                    res.fail(
                        f"{sig}/geometric-convergence",
                        f"{where} ev_op_iterations={its} ev_op_max_order={K}: relative error {err:.3e} > "
                        f"{PERT_C} (a_max/rho)^K = {bound:.3e} (rho={rho:.4g}); got={e.tolist()} ref={ref.tolist()}",
                    )
    except Exception as e:  # noqa
        res.fail(sig + "/raises", f"{where}: {type(e).__name__}: {e}")
    return f"qcd/order={order}"


def eval_qed(case, res, info):
    from eko import beta
    from eko.kernels import EvoMethods as EM
    from eko.kernels import singlet_qed as sq
    from eko.kernels import valence_qed as vq

    kind, name, (o0, o1), nf = case["kind"], case["tower"], case["order"], case["nf"]
    variant, e0, a0, a1 = case["variant"], case["e0"], case["a0"], case["a1"]
    if kind == "qed-singlet":
        dim, g, disp, fn = 4, tw.qed_singlet_generic(name, o0, o1), sq.dispatcher, "singlet_qed.eko_iterate"
    else:
        dim, g, disp, fn = 2, tw.qed_valence_generic(name, o0, o1), vq.dispatcher, "valence_qed.eko_iterate"
    bg = np.zeros((o0 + 1, o1 + 1))
    for i in range(1, o0 + 1):
        bg[i, 0] = beta.beta_qcd((i + 1, 0), nf)
    bg[1, 1] = beta.beta_qcd((2, 1), nf)
    ref = ode.path_ordered(ode.qed_generator(g.tolist(), bg.tolist(), qed_aem_of_a(variant, a0, a1, e0)), a0, a1, dim)
    where = f"{kind} tower={name} order=({o0},{o1}) nf={nf} steps={variant} aem0={e0} a0={a0} a1={a1}"
    sig = f"{fn}/order=({o0},{o1})/steps={variant}"
    outs = []
    try:
        for n in ITERS:
            al, ah = qed_steps(variant, a0, a1, e0, n)
            outs.append(np.asarray(disp((o0, o1), EM.ITERATE_EXACT, g.copy(), al, ah, nf, n, (10, 0))))
        errs = [_rel(e, ref) for e in outs]
        info["max_qed_err_640"] = errs[-1]
        _convergence(res, sig, where, errs, info, "qed")
        _richardson(res, sig, where, outs[-2], outs[-1], ref, info, "qed")
    except Exception as e:  # noqa
        res.fail(sig + "/raises", f"{where}: {type(e).__name__}: {e}")
    return f"{kind}/order=({o0},{o1})/{variant}"


def evaluate(case):
    res = Result()
    info = {}
    with np.errstate(all="ignore"):
        cls = eval_qcd(case, res, info) if case["kind"] == "qcd" else eval_qed(case, res, info)
    res.info = info
    res.outcome = cls + ("/ok" if not res.fails else "/fail")
    return res


def cases(tier):
    out = []
    th = tier == "thorough"
    pairs = [[x, y] for x in L_A for y in L_A if x != y] if th else PAIRS_QUICK
    for name in tw.GENERIC2:
        for order in (2, 3, 4):
            for nf in (3, 4, 5, 6) if th else (3, 6):
                for a0, a1 in pairs:
                    out.append({"kind": "qcd", "tower": name, "order": order, "nf": nf, "a0": a0, "a1": a1})
    qpairs = PAIRS_QUICK if th else PAIRS_QUICK[:1]
    for kind in ("qed-singlet", "qed-valence"):
        for name in ("real", "cplx"):
            for order in QED_ORDERS if th else QED_ORDERS_QUICK:
                for variant in ("geom", "param"):
                    for e0 in (0.0006, 0.004):
                        for nf in (4, 6) if th else (4,):
                            for a0, a1 in qpairs:
                                out.append(
                                    {"kind": kind, "tower": name, "order": order, "nf": nf, "variant": variant, "e0": e0, "a0": a0, "a1": a1}
                                )
    return out


def run(ctx):
    cs = cases(ctx.tier)
    ctx.run_cases(cs, evaluate, chunksize=1)
    nq = sum(1 for c in cs if c["kind"] == "qcd")
    ctx.rule = (
        f"complete product: QCD {nq} points = 3 non-commuting complex 2x2 towers x order 2-4 x nf x ordered coupling pairs "
        f"from {L_A if ctx.thorough() else PAIRS_QUICK}; QED {len(cs) - nq} points = (4x4 singlet, 2x2 valence) x 2 dense towers x "
        "orders x 2 step shapes (geometric with fixed a_em; uniform in 1/a_s with the middle taken in the parameter and running a_em) "
        "x a_em in {6e-4, 4e-3} x nf x pairs; per point iterate with 10/40/160/640 steps (ratio test, Richardson limit) and, for QCD, "
        "perturbative-exact with ev_op_max_order 3/5/10/20/30 x ev_op_iterations 1/10; non-trivial = all (every tower is non-commuting)"
    )
    ctx.assumptions += [
        "true solution = mpmath.odefun (tol 1e-18, 30 digits) of dE/da = [sum gamma_i a^i / sum beta_i a^(i+1)] E, for QED with "
        "gamma and beta summed over the (a_s, a_em) grid and a_em a prescribed function of a_s",
        f"documented rate = midpoint rule: error ratio per x4 steps >= {RATIO_MIN} (measured 15.9-16.0); Richardson limit within {RICH_TOL}",
        f"perturbative-exact: error <= {PERT_C} (a_max/rho)^K + {NOISE} (geometric envelope; the error itself need not be monotone: "
        "measured 4.2e-2 -> 4.6e-2 between K=3 and K=5 at a_max/rho = 0.57)",
        "nothing is claimed between lattice points",
    ]
