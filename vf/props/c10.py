"""C10 evolution kernels are trivial at equal couplings and compose where exact.

Five exhaustive products over the coupling lattice:
  id        every dispatcher (non-singlet, singlet, QED non-singlet / singlet / valence), every method, order, nf,
            tower, a: kernel(a <- a) = identity
  comp-ns   non-singlet exact / expanded / ordered-truncated: E(a2<-a1) E(a1<-a0) = E(a2<-a0) on ALL triples
            (a0,a1,a2) of the lattice (incl. forward-and-back a2=a0)
  comp-lo   the leading-order singlet kernel, same triples, non-commuting 2x2 gamma_0
  comp-it   the iterated singlet kernel: the composition defect must lie within its own discretisation error, which is
            that of a second-order scheme (defect <= 1e-2 at 20 steps and it shrinks by >= 3 when the steps are doubled)
  near-id   every singlet method evaluated for real (the dispatcher returns np.eye at a1 == a0 without touching a kernel):
            a1 = a0 (1 + eps), eps = 1e-6, 1e-9, 1e-12, both directions: |kernel - 1| <= 4 |a1 - a0| / a0, i.e. the kernel formula itself
            tends to the identity at coinciding couplings
The oracle is the algebraic statement itself (no reference formula is needed).
"""

import numpy as np

from vf.core.ctx import Result

ID = "C10"
LEVEL = "exploration"
TECHNIQUE = "exhaustive lattice of coupling triples; algebraic identities (identity at a1=a0, semigroup law) checked on each"
LEVEL_TEXT = (
    "on every point of the finite lattice (all methods/orders/nf, fixed complex towers, every coupling value resp. "
    "every ordered triple of the coupling lattice) the kernel at equal couplings is the identity to 1e-13 and the "
    "exactly-composing kernels satisfy the semigroup law to 1e-13 relative; the iterated singlet kernel violates it "
    "by no more than 10x its self-estimated discretisation error, by no more than 1e-2 at >= 20 steps, and the defect "
    "shrinks by >= 3 when the steps are doubled (second order); every singlet method, evaluated at a1 = a0 (1 +- eps) "
    "down to eps = 1e-12, is within 4 |a1-a0|/a0 of the identity"
)
LEVEL_NOTE = (
    "no external reference needed; kernels are called through their dispatchers (the singlet dispatcher's a1==a0 "
    "shortcut is part of what is tested, and because it hides every singlet kernel formula at a1 == a0 the formulas are "
    "additionally evaluated next to the coincidence point); QED stepped kernels are given constant coupling lists"
)
FLOOR_NONTRIVIAL = 50

TOL = 1e-13  # measured maxima: identity 1.1e-16, composition 9.9e-16
LA = [0.002, 0.005, 0.0125, 0.03, 0.05]
LA_THOROUGH = [0.002, 0.003, 0.005, 0.008, 0.0125, 0.02, 0.03, 0.04, 0.05, 0.1]
# iterated kernel: absolute cap on the composition defect at >= 20 steps and the factor by which it must shrink when the
# number of steps is doubled (second order: 4, first order: 2); defects below the floor are rounding dominated
IT_CAP = 1e-2
IT_SHRINK = 3.0
IT_FLOOR = 1e-9
# near-identity: |K(a0 (1+eps) <- a0) - 1| <= NEAR_BOUND * |a1 - a0| / a0  (measured: 0.17 up to a = 0.05, 0.31 at a = 0.1)
NEAR_EPS = [1e-6, 1e-9, 1e-12]
NEAR_BOUND = 4.0
NFS = [3, 4, 5, 6]

T = [
    [0.8, 7.5, 61.0, 880.0],
    [-0.45, 9.1, -83.0, 410.0],
    [0.6 + 0.3j, -4.2 + 6.1j, 55.0 - 38.0j, -320.0 + 710.0j],
    [-0.2 - 0.9j, 8.8 - 1.7j, -12.0 + 95.0j, 640.0 + 120.0j],
    [0.0, 3.3 - 2.2j, -47.0 + 21.0j, 150.0 - 930.0j],
    [-1.0, 10.0j, -100.0, 1000.0j],
]
S = [
    [
        [[0.8, 0.35], [-0.5, -0.45]],
        [[7.5, -3.1], [4.4, 9.1]],
        [[61.0, 25.0], [-37.0, -83.0]],
        [[880.0, -300.0], [150.0, 410.0]],
    ],
    [
        [[0.6 + 0.3j, -0.2 - 0.9j], [0.4 - 0.1j, -0.7 + 0.2j]],
        [[-4.2 + 6.1j, 8.8 - 1.7j], [3.3 - 2.2j, 1.0 + 5.0j]],
        [[55 - 38j, -12 + 95j], [-47 + 21j, 20 + 20j]],
        [[-320 + 710j, 640 + 120j], [150 - 930j, -500 - 100j]],
    ],
    [
        [[0.9, 0.0], [0.3, -0.6]],
        [[-2.0 + 1.0j, 6.0], [0.0, 5.5 - 3.0j]],
        [[10 + 70j, -90.0], [33 + 3j, 0.0]],
        [[0.0, 999.0], [-700 + 100j, 250 + 250j]],
    ],
]
AEM = 0.00058


def _qed_gamma(o, q, dim):
    """Deterministic dense complex QED tower gamma[k][j] (dim x dim), built from the fixed lists above."""
    g = np.zeros((o + 1, q + 1, dim, dim), dtype=np.complex128)
    for k in range(o + 1):
        for j in range(q + 1):
            for r in range(dim):
                for c in range(dim):
                    base = T[(r + 2 * c + j) % 6][min(k, 3)]
                    g[k, j, r, c] = base * (1.0 if r == c else 0.35) * (1.0 + 0.5 * j)
    return g


def _ns_comp_methods(M):
    return [("exact", M.ITERATE_EXACT), ("expanded", M.ITERATE_EXPANDED), ("eko_ordered_truncated", M.ORDERED_TRUNCATED)]


def _kname(kind, o):
    pre = {1: "lo", 2: "nlo", 3: "nnlo", 4: "n3lo"}[o]
    if o == 1:
        return "lo_exact"
    return f"{pre}_{kind}" if kind in ("exact", "expanded") else kind


def evaluate(case):
    from eko.kernels import EvoMethods as M
    from eko.kernels import non_singlet as ns
    from eko.kernels import non_singlet_qed as nsq
    from eko.kernels import singlet as s
    from eko.kernels import singlet_qed as sq
    from eko.kernels import valence_qed as vq

    res = Result()
    kind = case["kind"]
    nf = case["nf"]
    la = case["la"]
    mx = 0.0
    npts = 0
    if kind == "id":
        o = case["order"]
        for a in la:
            # ---- QCD non-singlet and singlet, all methods
            for ti, tw in enumerate(T):
                g = np.array(tw[:o], dtype=np.complex128)
                for m in M:
                    sig = f"non_singlet.dispatcher/identity/order={o}/method={m.name}"
                    try:
                        e = complex(ns.dispatcher((o, 0), m, g, a, a, nf))
                        d = abs(e - 1.0)
                    except Exception as ex:  # noqa
                        res.fail(sig + "/raises", f"{type(ex).__name__}: {ex} a={a} nf={nf} tower={ti}")
                        continue
                    npts += 1
                    if np.isfinite(d):
                        mx = max(mx, d)
                    if not d <= TOL:
                        res.fail(sig, f"a1=a0={a} nf={nf} tower={ti}: kernel={e!r}, expected 1")
            for ti, tw in enumerate(S):
                G = np.array(tw[:o], dtype=np.complex128)
                for m in M:
                    for it, mo in ((1, 10), (4, max(o, 2))):
                        sig = f"singlet.dispatcher/identity/order={o}/method={m.name}"
                        try:
                            e = np.array(s.dispatcher((o, 0), m, G.copy(), a, a, nf, it, (mo, 0)))
                            d = float(np.max(np.abs(e - np.eye(2))))
                        except Exception as ex:  # noqa
                            res.fail(sig + "/raises", f"{type(ex).__name__}: {ex} a={a} nf={nf} tower={ti}")
                            continue
                        npts += 1
                        if np.isfinite(d):
                            mx = max(mx, d)
                        if not d <= TOL:
                            res.fail(sig, f"a1=a0={a} nf={nf} tower={ti} it={it}: kernel={e.tolist()}, expected identity")
            # ---- QED kernels (only iterate-exact exists), constant couplings, equal scales
            for q in (1, 2):
                for it in (1, 3):
                    as_list = np.full(it + 1, a)
                    a_half = np.array([[a, AEM]] * it)
                    for name, fn, dim in (("singlet_qed", sq.dispatcher, 4), ("valence_qed", vq.dispatcher, 2)):
                        sig = f"{name}.dispatcher/identity/order=({o},{q})"
                        try:
                            e = np.array(fn((o, q), M.ITERATE_EXACT, _qed_gamma(o, q, dim), as_list, a_half, nf, it, (10, 0)))
                            d = float(np.max(np.abs(e - np.eye(dim))))
                        except Exception as ex:  # noqa
                            res.fail(sig + "/raises", f"{type(ex).__name__}: {ex} a={a} nf={nf} it={it}")
                            continue
                        npts += 1
                        if np.isfinite(d):
                            mx = max(mx, d)
                        if not d <= TOL:
                            res.fail(sig, f"a1=a0={a} aem={AEM} nf={nf} it={it}: max|kernel-1|={d}")
                    g2 = _qed_gamma(o, q, 1)[:, :, 0, 0]
                    sig = f"non_singlet_qed.dispatcher/identity/order=({o},{q})"
                    try:
                        e1 = complex(nsq.dispatcher((o, q), M.ITERATE_EXACT, g2, as_list, np.full(it, AEM), False, nf, it, 30.0, 30.0))
                        e2 = complex(nsq.fixed_alphaem_exact((o, q), g2, a, a, AEM, nf, 30.0, 30.0))
                        d = max(abs(e1 - 1), abs(e2 - 1))
                    except Exception as ex:  # noqa
                        res.fail(sig + "/raises", f"{type(ex).__name__}: {ex} a={a} nf={nf} it={it}")
                        continue
                    npts += 1
                    if np.isfinite(d):
                        mx = max(mx, d)
                    if not d <= TOL:
                        res.fail(sig, f"a1=a0={a} aem={AEM} nf={nf} it={it}: kernels={e1!r},{e2!r}, expected 1")
        res.info = {"max_identity_dev": mx, "points": npts}
    elif kind == "comp-ns":
        o = case["order"]
        g = np.array(T[case["tower"]][:o], dtype=np.complex128)
        a0 = case["a0"]
        for kn, m in _ns_comp_methods(M):
            sig = f"non_singlet.{_kname(kn, o)}/composition/order={o}"
            cache = {}

            def k(af, ai):
                if (af, ai) not in cache:
                    cache[(af, ai)] = complex(ns.dispatcher((o, 0), m, g, af, ai, nf))
                return cache[(af, ai)]

            for a1 in la:
                for a2 in la:
                    try:
                        lhs = k(a2, a1) * k(a1, a0)
                        rhs = k(a2, a0)
                    except Exception as ex:  # noqa
                        res.fail(sig + "/raises", f"{type(ex).__name__}: {ex} a0={a0} a1={a1} a2={a2}")
                        continue
                    d = abs(lhs - rhs) / abs(rhs)
                    npts += 1
                    if np.isfinite(d):
                        mx = max(mx, d)
                    if not d <= TOL:
                        res.fail(
                            sig,
                            f"method={m.name} nf={nf} tower={case['tower']} a0={a0} a1={a1} a2={a2}: E(a2<-a1)E(a1<-a0)={lhs!r} E(a2<-a0)={rhs!r} rel.dev={d:.3e}",
                        )
        res.info = {"max_composition_dev_ns": mx, "points": npts}
    elif kind == "comp-lo":
        G = np.array(S[case["tower"]][:1], dtype=np.complex128)
        a0 = case["a0"]
        sig = "singlet.lo_exact/composition/order=1"
        for meth in (M.ITERATE_EXACT, M.TRUNCATED):
            for a1 in la:
                for a2 in la:
                    try:
                        e10 = np.array(s.dispatcher((1, 0), meth, G.copy(), a1, a0, nf, 1, (10, 0)))
                        e21 = np.array(s.dispatcher((1, 0), meth, G.copy(), a2, a1, nf, 1, (10, 0)))
                        e20 = np.array(s.dispatcher((1, 0), meth, G.copy(), a2, a0, nf, 1, (10, 0)))
                    except Exception as ex:  # noqa
                        res.fail(sig + "/raises", f"{type(ex).__name__}: {ex} a0={a0} a1={a1} a2={a2}")
                        continue
                    d = float(np.max(np.abs(e21 @ e10 - e20)) / np.max(np.abs(e20)))
                    npts += 1
                    if np.isfinite(d):
                        mx = max(mx, d)
                    if not d <= TOL:
                        res.fail(sig, f"nf={nf} tower={case['tower']} a0={a0} a1={a1} a2={a2}: E21.E10={(e21 @ e10).tolist()} E20={e20.tolist()} rel.dev={d:.3e}")
        res.info = {"max_composition_dev_lo_singlet": mx, "points": npts}
    elif kind == "near-id":
        o = case["order"]
        worst = 0.0
        for a in la:
            for ti, tw in enumerate(S):
                G = np.array(tw[:o], dtype=np.complex128)
                for m in M:
                    for it, mo in ((1, 10), (4, max(o, 2))):
                        sig = f"singlet.dispatcher/near-identity/order={o}/method={m.name}"
                        for eps in NEAR_EPS:
                            a1 = a * (1.0 + eps)
                            rel = abs(a1 - a) / a
                            for af, ai in ((a1, a), (a, a1)):
                                try:
                                    e = np.array(s.dispatcher((o, 0), m, G.copy(), af, ai, nf, it, (mo, 0)))
                                    d = float(np.max(np.abs(e - np.eye(2))))
                                except Exception as ex:  # noqa
                                    res.fail(sig + "/raises", f"{type(ex).__name__}: {ex} a0={ai} a1={af} nf={nf} tower={ti} it={it} max_order={mo}")
                                    continue
                                npts += 1
                                if np.isfinite(d):
                                    worst = max(worst, d / rel)
                                if not d <= NEAR_BOUND * rel:
                                    res.fail(
                                        sig,
                                        f"a0={ai} a1={af} (relative distance {rel:.3e}) nf={nf} tower={ti} it={it} max_order={mo}: "
                                        f"max|kernel-1|={d:.3e} > {NEAR_BOUND} x {rel:.3e}; kernel={e.tolist()}",
                                    )
        res.info = {"max_near_identity_dev_over_relative_distance": worst, "points": npts}
    else:  # comp-it
        o = case["order"]
        G = np.array(S[case["tower"]][:o], dtype=np.complex128)
        a0 = case["a0"]
        it = case["iterations"]
        sig = f"singlet.eko_iterate/composition/order={o}"
        big = 0.0
        shrink = 0.0
        for a1 in la:
            for a2 in la:
                try:
                    def k(af, ai, n):
                        return np.array(s.dispatcher((o, 0), M.ITERATE_EXACT, G.copy(), af, ai, nf, n, (10, 0)))

                    c1 = k(a2, a1, it) @ k(a1, a0, it)
                    d1 = k(a2, a0, it)
                    c2 = k(a2, a1, 2 * it) @ k(a1, a0, 2 * it)
                    d2 = k(a2, a0, 2 * it)
                except Exception as ex:  # noqa
                    res.fail(sig + "/raises", f"{type(ex).__name__}: {ex} a0={a0} a1={a1} a2={a2}")
                    continue
                defect = float(np.max(np.abs(c1 - d1)))
                est = float(np.max(np.abs(c1 - c2)) + np.max(np.abs(d1 - d2)))
                bound = 10.0 * est + TOL
                npts += 1
                if np.isfinite(defect):
                    mx = max(mx, defect / bound)
                    big = max(big, defect)
                if not defect <= bound:
                    res.fail(
                        sig,
                        f"nf={nf} tower={case['tower']} a0={a0} a1={a1} a2={a2} iterations={it}: composition defect {defect:.3e} > 10 x "
                        f"self-estimated discretisation error {est:.3e}",
                    )
                # the self-estimate alone accepts any convergent scheme: the documented one is of second order
                defect2 = float(np.max(np.abs(c2 - d2)))
                if not defect <= IT_CAP:
                    res.fail(
                        f"singlet.eko_iterate/composition-cap/order={o}",
                        f"nf={nf} tower={case['tower']} a0={a0} a1={a1} a2={a2} iterations={it}: composition defect {defect:.3e} > {IT_CAP}",
                    )
                if defect > IT_FLOOR and np.isfinite(defect2):
                    shrink = max(shrink, defect2 / defect)
                    if not defect2 * IT_SHRINK <= defect:
                        res.fail(
                            f"singlet.eko_iterate/composition-order/order={o}",
                            f"nf={nf} tower={case['tower']} a0={a0} a1={a1} a2={a2}: composition defect {defect:.3e} at {it} iterations, "
                            f"{defect2:.3e} at {2 * it}: shrinks by {defect / defect2:.2f} only (second-order scheme: 4)",
                        )
        res.info = {"max_iterate_defect_over_bound": mx, "max_iterate_defect_abs": big, "max_iterate_defect_doubled_over_defect": shrink, "points": npts}
    res.outcome = f"{kind}:" + ("holds" if not res.fails else "VIOLATED")
    res.nontrivial = npts > 0
    return res


def run(ctx):
    la = LA_THOROUGH if ctx.thorough() else LA
    cases = []
    for o in (1, 2, 3, 4):
        for nf in NFS:
            for a in la:
                cases.append({"kind": "id", "order": o, "nf": nf, "la": [a]})
                cases.append({"kind": "near-id", "order": o, "nf": nf, "la": [a]})
            for t in range(len(T)):
                for a0 in la:
                    cases.append({"kind": "comp-ns", "order": o, "nf": nf, "tower": t, "a0": a0, "la": la})
    for nf in NFS:
        for t in range(len(S)):
            for a0 in la:
                cases.append({"kind": "comp-lo", "nf": nf, "tower": t, "a0": a0, "la": la})
    its = (20, 50) if ctx.thorough() else (20,)
    for o in (2, 3, 4):
        for nf in NFS:
            for t in range(len(S) if ctx.thorough() else 2):
                for a0 in LA:
                    for it in its:
                        cases.append({"kind": "comp-it", "order": o, "nf": nf, "tower": t, "a0": a0, "la": LA, "iterations": it})
    results = ctx.run_cases(cases, evaluate)
    ctx.extra.update(points_checked=sum((r[1][3] or {}).get("points", 0) for r in results))
    ctx.rule = (
        f"coupling lattice {la}. id: every a x order 1-4 x nf 3-6 x all 8 methods x 6 NS towers / 3 non-commuting singlet towers "
        "(2 (iterations, max_order) settings) + QED non-singlet/singlet(4x4)/valence(2x2) at QED order 1-2 with 1 and 3 constant steps. "
        "comp-ns: ALL ordered triples (a0,a1,a2) of the lattice x order 1-4 x nf x 6 towers x {exact, expanded, ordered-truncated}. "
        "comp-lo: all triples x nf x 3 non-commuting gamma_0 (reached through two different methods). comp-it: all triples of the "
        f"5-value lattice x order 2-4 x nf x towers, iterations {its} vs doubled (self-estimate, absolute cap {IT_CAP}, shrink factor >= {IT_SHRINK} "
        f"wherever the defect exceeds {IT_FLOOR}). near-id: every a x order 1-4 x nf x 8 methods x 3 non-commuting towers x 2 (iterations, max_order) "
        f"settings x eps in {NEAR_EPS} x both directions (a1 = a(1+eps) <- a and a <- a(1+eps)). "
        "a case = one (kind, order, nf, tower, a0) resp. (id | near-id, order, nf, a); non-trivial = all"
    )
    ctx.assumptions += [
        "'identity at equal couplings' is tested through the dispatchers (QED: equal scales too, since the pure-QED factor depends on "
        "the scales); calling singlet.lo_exact / *_decompose_* directly with a1 == a0 is outside the statement (0/0 in the "
        "projector formula, guarded by the dispatcher shortcut)",
        "'composes up to its discretisation error' := defect at n iterations <= 10 x (change of both sides when going to 2n "
        f"iterations) + {TOL}; the discretisation is the documented one (midpoint rule on a geometric grid, second order): defect <= "
        f"{IT_CAP} (measured maximum 9.7e-4 at 20 steps) and defect(2n) <= defect(n)/{IT_SHRINK} (measured 1/3.99) where defect(n) > {IT_FLOOR}",
        "'identity when the couplings coincide' is read for the singlet kernels as a property of the kernel formulas, not only of the "
        f"dispatcher shortcut: max|K(a(1+eps) <- a) - 1| <= {NEAR_BOUND} x relative distance (measured 0.31: the kernels are Lipschitz there with "
        "constant |gamma(a)/beta(a)| a); whether the slope equals the generator gamma/beta is NOT judged here (C07/C08/C12)",
        "interpreted mode (NUMBA_DISABLE_JIT=1)",
    ]
