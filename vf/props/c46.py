"""C46 PDF flavour projection is an exact orthogonal projection: complete subset enumeration.

project(blocks, reprs) is linear in the data, so unit data (one flavour switched on per grid point)
plus two generic integer rows decide it for arbitrary data of a block layout.  The selections are
ALL subsets (thorough) / all subsets of size <= 2 or >= 12 (quick) of complete orthogonal bases of
the 14-dimensional flavour space:
   pid      the 14 PIDs                     (representations from pid_to_flavor)
   evol     the 14 evolution-basis labels   (representations from evol_to_flavor)
   custom   unified basis, intrinsic bases (QCD nf=3,4,5; QED nf=3,5 with 3/2 weights), the q+- basis,
            a rescaled evolution basis (factors 2,-3,1/2,...), a Hadamard basis on u,d,s,c
Because each family is a complete orthogonal basis {r_1..r_14} (verified exactly at run time), the
statement "keeps exactly the components along the selected combinations and removes everything
orthogonal to them" reads, for every grid point with flavour vector f and result f':
   r.f' == r.f   for r selected,          r.f' == 0   for r not selected,
which fixes f' uniquely.  Further: projecting the result again changes nothing (idempotent) and the
full selection returns the data unchanged.  All comparisons exact (fractions).
"""

from fractions import Fraction as F

from vf.core.ctx import Result
from vf.ref import c31_bases as B

ID = "C46"
LEVEL = "exploration"
TECHNIQUE = "complete subset enumeration of orthogonal flavour bases x block layouts x unit data, exact rational oracle"
LEVEL_TEXT = (
    "every subset (thorough; quick: sizes <=2 and >=12) of the PID set, of the evolution labels and of nine "
    "custom complete orthogonal bases is projected out of blocks in eleven layouts (several of one shape with different PID subsets) carrying unit and generic "
    "integer data; result compared exactly with the defining conditions of the orthogonal projection; the library's label-kind "
    "dispatch must send every selection (in every container form) to its own representation builder; "
    "by linearity in the data this decides the statement for these selections and layouts"
)
LEVEL_NOTE = (
    "trusts vf/ref/c31_bases.py for the flavour content of the labels; linearity of project in the data; "
    "results must be multiples of 1/L (L = exact common denominator of the reference, per family) within 1e-12; custom selections "
    "are subsets of the listed orthogonal bases, not arbitrary orthogonal frames"
)
FLOOR_NONTRIVIAL = 20

LHAPDF_ORDER = [-5, -4, -3, -2, -1, 21, 1, 2, 3, 4, 5]
ODD_ORDER = [6, 22, -1, 3, 21, -6, 2, -2, 5]
SCALES = [2, -3, F(1, 2), 1, -1, 5, F(3, 2), 4, -2, 3, F(1, 4), 7, -5, 6]
SAME_SHAPE_PIDS = [LHAPDF_ORDER, ODD_ORDER, [21, 2, -2], [5, -2, 21, 22, 2, -4, 1]]
SAME_SHAPE_BLOCKS = [6, 7, 8, 9]  # their positions in _blocks()
FAMILIES = ["pid", "evol", "unified", "iqcd3", "iqcd4", "iqcd5", "iqed3", "iqed5", "pm", "scaled", "hadamard"]
FULL_FAMILIES = ["pid", "evol"]


def _family(name, order):
    """-> (labels, rows as Fractions in the given pid order)."""
    if name == "pid":
        labs = list(order)
        return labs, [[F(int(p == q)) for q in order] for p in order]
    if name == "evol":
        return list(B.EVOL_LABELS), [B.vec(B.evol_def(l), order) for l in B.EVOL_LABELS]
    if name == "unified":
        return list(B.UNI_LABELS), [B.vec(B.uni_def(l), order) for l in B.UNI_LABELS]
    if name.startswith("iqcd") or name.startswith("iqed"):
        return B.basis_matrix(int(name[-1]), name.startswith("iqed"), order)
    if name == "pm":
        labs = ["ph", "g"] + [f"{q}{s}" for q in "duscbt" for s in "+-"]
        rows = [B.vec({22: 1}, order), B.vec({21: 1}, order)] + [B.vec(B.pm_def(l), order) for l in labs[2:]]
        return labs, rows
    if name == "scaled":
        labs = [f"{s}*{l}" for s, l in zip(SCALES, B.EVOL_LABELS)]
        return labs, [[F(s) * x for x in B.vec(B.evol_def(l), order)] for s, l in zip(SCALES, B.EVOL_LABELS)]
    if name == "hadamard":
        had = [[1, 1, 1, 1], [1, -1, 1, -1], [1, 1, -1, -1], [1, -1, -1, 1]]
        rows, labs = [], []
        for k, h in enumerate(had):
            rows.append(B.vec({2: h[0], 1: h[1], 3: h[2], 4: h[3]}, order))
            labs.append(f"H{k}")
        for p in order:
            if p not in (1, 2, 3, 4):
                rows.append(B.vec({p: 1}, order))
                labs.append(str(p))
        return labs, rows
    raise KeyError(name)


def _blocks():
    """Eleven blocks: full order, LHAPDF order (t, tbar, photon absent), no data, odd order, all 14 PIDs in LHAPDF order and shuffled,
    four blocks of the shape of the complete ones with different PID subsets, odd order with two scales."""
    import numpy as np
    from eko import basis_rotation as br

    full = [int(p) for p in br.flavor_basis_pids]
    out = []
    # complete blocks in another order than eko's own (all 14 PIDs: the LHAPDF order and a shuffled one)
    full_lhapdf = [-6, -5, -4, -3, -2, -1, 1, 2, 3, 4, 5, 6, 21, 22]
    full_shuffled = [3, -1, 22, 5, -6, 21, 2, -4, 1, 6, -3, 4, -5, -2]
    for pids in (full, LHAPDF_ORDER, None, ODD_ORDER, full_lhapdf, full_shuffled):
        if pids is None:
            out.append({"mu2grid": np.array([1.0, 2.0]), "xgrid": np.array([0.1, 1.0]), "pids": np.array(LHAPDF_ORDER), "data": np.array([])})
            continue
        n = len(pids)
        data = np.zeros((n + 2, n))
        for j in range(n):
            data[j, j] = 1.0
            data[n, j] = float(2 * j * j + 3 * j + 7)  # distinct integers
            data[n + 1, j] = float((-1) ** j * (5 * j + 11))
        out.append({"mu2grid": np.array([1.0]), "xgrid": np.linspace(0.1, 1.0, n + 2), "pids": np.array(pids), "data": data})
    # blocks of ONE shape (16 points, like the three complete blocks before them) listing different PID subsets: directly
    # after a complete block a block without t, tbar, photon; then one that has these but lacks others; then a strict subset
    # of it; then a strict superset of that again.  Whatever a block does not list is absent (zero) in it - not what an
    # earlier block of the same shape had there.
    for bi, pids in enumerate(SAME_SHAPE_PIDS):
        n = len(pids)
        data = np.zeros((16, n))
        for i in range(16):
            for j in range(n):
                data[i, j] = float(i == j) if i < n else float((i * (5 + bi) + j * (3 + 2 * bi) + bi) % 13 - 6)
        out.append({"mu2grid": np.array([1.0]), "xgrid": np.linspace(0.1, 1.0, 16), "pids": np.array(pids), "data": data})
    # a data block with two scales (rows = x major, Q minor): the second scale carries other integers
    n = len(ODD_ORDER)
    data = np.zeros((2 * (n + 2), n))
    for i in range(n + 2):
        for j in range(n):
            data[2 * i, j] = out[3]["data"][i, j]
            data[2 * i + 1, j] = float((i * 7 + j * 3) % 11 - 5)
    out.append({"mu2grid": np.array([1.0, 2.0]), "xgrid": np.linspace(0.1, 1.0, n + 2), "pids": np.array(ODD_ORDER), "data": data})
    return out


def _dispatch(gf, kind, sel_labels, sel_rows):
    """The library's own label-kind tests (used by genpdf.generate_pdf to choose the representation builder) on the
    selection, offered in every container a caller could use.  -> list of (signature, message)."""
    import numpy as np

    if not sel_labels:
        return []  # the empty selection has no kind (is_evolution_labels([]) is vacuously True): nothing demanded
    if kind == "pid":
        forms = {
            "list-of-int": [int(p) for p in sel_labels],
            "list-of-np.int64": [np.int64(p) for p in sel_labels],
            "int-array": np.array(sel_labels, dtype=np.int_),
            "tuple-of-int": tuple(int(p) for p in sel_labels),
        }
        want = (False, True)
    elif kind == "evol":
        forms = {"list-of-str": list(sel_labels), "tuple-of-str": tuple(sel_labels), "str-array": np.array(sel_labels)}
        want = (True, False)
    else:
        fl = [[float(x) for x in r] for r in sel_rows]
        forms = {"float-matrix": np.array(fl), "list-of-float-arrays": [np.array(r) for r in fl], "list-of-float-lists": fl}
        if all(x.denominator == 1 for r in sel_rows for x in r):
            # rows whose entries are integers, many of them valid PIDs (0 is not, 1, 2, -1, ... are)
            il = [[int(x) for x in r] for r in sel_rows]
            forms.update({"int-matrix": np.array(il, dtype=np.int_), "list-of-int-arrays": [np.array(r, dtype=np.int_) for r in il], "list-of-int-lists": il})
        want = (False, False)
    bad = []
    for form, labels in forms.items():
        try:
            got = (bool(gf.is_evolution_labels(labels)), bool(gf.is_pid_labels(labels)))
        except Exception as e:  # noqa
            bad.append((f"dispatch/{kind}/container={form}/raises:{type(e).__name__}", f"{type(e).__name__}: {e}"))
            continue
        if got != want:
            bad.append(
                (
                    f"dispatch/{kind}/container={form}",
                    f"(is_evolution_labels, is_pid_labels) = {got}, a {kind} selection must give {want}: the selection would be "
                    "projected through the wrong representation builder",
                )
            )
    if kind == "pid":
        # the route of generate_pdf: pid_to_flavor(np.array(labels, dtype=int))
        try:
            a = np.asarray(gf.pid_to_flavor(forms["int-array"]))
            b = np.asarray(gf.pid_to_flavor(forms["list-of-int"]))
            if a.shape != b.shape or not np.array_equal(a, b):
                bad.append(("pid_to_flavor/container=int-array", "representations differ between an int array and a list of ints"))
        except Exception as e:  # noqa
            bad.append((f"pid_to_flavor/container=int-array/raises:{type(e).__name__}", f"{type(e).__name__}: {e}"))
    return bad


def _same_blocks(a, b):
    import numpy as np

    if len(a) != len(b):
        return False
    for x, y in zip(a, b):
        if [int(p) for p in x["pids"]] != [int(p) for p in y["pids"]]:
            return False
        dx, dy = np.asarray(x["data"]), np.asarray(y["data"])
        if dx.shape != dy.shape or not np.array_equal(dx, dy):
            return False
    return True


def _flavour_vectors(block, order):
    """Exact 14-vectors (one per grid point) of a block."""
    import numpy as np

    data = np.asarray(block["data"])
    pids = [int(p) for p in block["pids"]]
    out = []
    for row in data:
        f = [F(0)] * 14
        for p, x in zip(pids, row):
            f[order.index(p)] = B.rat(x)[0]
        out.append(f)
    return out


def _subsets(case):
    sizes = set(case["sizes"])
    for mask in range(case["lo"], case["hi"]):
        if bin(mask).count("1") in sizes:
            yield mask, [k for k in range(14) if mask >> k & 1]


def _prepare(rows, blocks, order):
    """Per data block: exact expected pieces with a common denominator L.

    For grid point f and basis row r_k:  t_k = (r_k.f / r_k.r_k) r_k.  It is verified here, exactly, that
    r_j.t_k = delta_jk r_k.f, hence (linearity) sum_{k in sel} t_k is THE vector with the selected components
    kept and the unselected ones removed.  Returned as integer arrays L*t_k, L*f.
    """
    import math

    import numpy as np

    prep = []
    for b in blocks:
        if not np.size(b["data"]):
            prep.append(None)
            continue
        old = _flavour_vectors(b, order)
        pieces = []  # [k][pt] -> vector
        for k, r in enumerate(rows):
            rr = B.dot(r, r)
            tk = []
            for f in old:
                c = B.dot(r, f)
                t = [c / rr * x for x in r]
                tk.append(t)
            pieces.append(tk)
        # defining conditions of the pieces, exact
        for k in range(14):
            for pt, f in enumerate(old):
                for j, r in enumerate(rows):
                    want = B.dot(r, f) if j == k else 0
                    assert B.dot(r, pieces[k][pt]) == want
        L = 1
        for tk in pieces:
            for t in tk:
                for x in t:
                    L = L * x.denominator // math.gcd(L, x.denominator)
        E = [np.array([[int(x * L) for x in t] for t in tk], dtype=np.int64) for tk in pieces]
        OLD = np.array([[int(x * L) for x in f] for f in old], dtype=np.int64)
        prep.append({"old": old, "L": L, "E": E, "OLD": OLD})
    return prep


def _to_order(block, order, npts):
    """Data of an output block as (npts, 14) float array in the reference pid order (absent pids = 0)."""
    import numpy as np

    pids = [int(p) for p in block["pids"]]
    data = np.asarray(block["data"], dtype=float)
    if len(set(pids)) != len(pids) or not set(pids) <= set(order) or data.shape != (npts, len(pids)):
        return None
    out = np.zeros((npts, 14))
    for c, p in enumerate(pids):
        out[:, order.index(p)] = data[:, c]
    return out


def evaluate(case):
    import numpy as np
    from eko import basis_rotation as br
    from ekobox.genpdf import flavors as gf

    fam = case["family"]
    res = Result()
    order = [int(p) for p in br.flavor_basis_pids]
    if sorted(order) != B.ALL_PIDS:
        res.fail("flavor_basis_pids", f"{order}")
        return res
    labs, rows = _family(fam, order)
    G = B.matmul(rows, B.transpose(rows))
    assert B.rank(rows) == 14 and all(G[i][j] == 0 for i in range(14) for j in range(14) if i != j), fam
    kind = fam if fam in ("pid", "evol") else "custom"
    sig = f"project/{kind}"
    blocks = _blocks()
    subsets = list(_subsets(case))
    prep = _prepare(rows, blocks, order) if subsets else []
    nsub = 0
    worst = 0.0
    nbad = 0
    for mask, sel in subsets:
        nsub += 1
        what = f"family={fam} selection={[labs[k] for k in sel]}"
        # representations of the selection
        try:
            if fam == "pid":
                reprs = gf.pid_to_flavor([labs[k] for k in sel])
            elif fam == "evol":
                reprs = gf.evol_to_flavor([labs[k] for k in sel])
            else:
                reprs = np.array([[float(x) for x in rows[k]] for k in sel]).reshape(len(sel), 14)
            if fam in ("pid", "evol"):
                got = [[F(float(x)) for x in r] for r in np.asarray(reprs)]
                if got != [rows[k] for k in sel]:
                    res.fail(f"{'pid_to_flavor' if fam == 'pid' else 'evol_to_flavor'}", f"{what}: representations {got} expected {[rows[k] for k in sel]}")
                    nbad += 1
                    continue
            for dsig, dmsg in _dispatch(gf, kind, [labs[k] for k in sel], [rows[k] for k in sel]):
                res.fail(dsig, f"{what}: {dmsg}")
                nbad += 1
            new = gf.project(blocks, reprs)
            again = gf.project(new, reprs)
            if kind == "custom" and sel:
                # the documented call passes a Python list of 1-d arrays (generate_pdf(name, [anti_qed_singlet]))
                try:
                    alt = gf.project(blocks, [np.array(r) for r in reprs])
                    if not _same_blocks(alt, new):
                        res.fail("project/custom/container=list-of-arrays", f"{what}: result differs from the one for the same rows as a matrix")
                        nbad += 1
                except Exception as e:  # noqa
                    res.fail(f"project/custom/container=list-of-arrays/raises:{type(e).__name__}", f"{what}: {type(e).__name__}: {e}")
                    nbad += 1
        except Exception as e:  # noqa
            res.fail(f"{sig}/raises:{type(e).__name__}", f"{what}: {type(e).__name__}: {e}")
            nbad += 1
            continue
        if len(new) != len(blocks) or len(again) != len(blocks):
            res.fail(f"{sig}/block-count", f"{what}: {len(blocks)} blocks in, {len(new)} out")
            nbad += 1
            continue
        for bi, (b0, b1, b2, pr) in enumerate(zip(blocks, new, again, prep)):
            w2 = f"{what} block={bi} (pids {[int(p) for p in b0['pids']]})"
            if pr is None:
                if np.size(b1["data"]) != 0 or np.size(b2["data"]) != 0:
                    res.fail(f"{sig}/empty-block", f"{w2}: data appeared in a block without data")
                    nbad += 1
                continue
            L, old = pr["L"], pr["old"]
            d1, d2 = _to_order(b1, order, len(old)), _to_order(b2, order, len(old))
            if d1 is None or d2 is None:
                res.fail(f"{sig}/shape", f"{w2}: output pids {list(b1['pids'])} data shape {np.shape(b1['data'])} for {len(old)} points")
                nbad += 1
                continue
            if not np.all(np.isfinite(d1)) or not np.all(np.isfinite(d2)):
                res.fail(f"{sig}/non-finite", f"{w2}: non-finite data")
                nbad += 1
                continue
            if bi in SAME_SHAPE_BLOCKS:
                # the result for a block does not depend on the blocks before it
                try:
                    alone = gf.project([b0], reprs)
                    same = len(alone) == 1 and _same_blocks(alone, [b1])
                except Exception as e:  # noqa
                    same = False
                if not same:
                    res.fail(
                        f"{sig}/depends-on-earlier-blocks",
                        f"{w2}: projected together with the blocks before it the result differs from projecting the block alone",
                    )
                    nbad += 1
                    continue
            X1, X2 = d1 * L, d2 * L
            R1, R2 = np.rint(X1), np.rint(X2)
            resid = max(float(np.abs(X1 - R1).max()), float(np.abs(X2 - R2).max())) / L
            big = max(1.0, float(np.abs(d1).max()))
            worst = max(worst, resid / big)
            if resid > 1e-12 * big:
                res.fail(f"{sig}/not-rational", f"{w2}: results are not multiples of 1/{L} (residue {resid:.3g})")
                nbad += 1
                continue
            R1, R2 = R1.astype(np.int64), R2.astype(np.int64)
            want = np.zeros_like(pr["OLD"])
            for k in sel:
                want = want + pr["E"][k]
            if not np.array_equal(R1, want):
                pt = int(np.argwhere((R1 != want).any(axis=1))[0][0])
                g = [F(int(x), L) for x in R1[pt]]
                f = old[pt]
                bad = ("keeps-selected", "differs from the orthogonal projection")
                for k, r in enumerate(rows):
                    c_old, c_new = B.dot(r, f), B.dot(r, g)
                    if k in sel and c_new != c_old:
                        bad = ("keeps-selected", f"component along {labs[k]} is {c_new}, was {c_old}")
                        break
                    if k not in sel and c_new != 0:
                        bad = ("removes-orthogonal", f"component along unselected {labs[k]} is {c_new} (was {c_old})")
                        break
                res.fail(f"{sig}/{bad[0]}", f"{w2} point {pt} f={B.show(f, order)}: {bad[1]}; result {B.show(g, order)}")
                nbad += 1
                continue
            if not np.array_equal(R2, R1):
                pt = int(np.argwhere((R1 != R2).any(axis=1))[0][0])
                res.fail(
                    f"{sig}/idempotent",
                    f"{w2} point {pt}: second projection {B.show([F(int(x), L) for x in R2[pt]], order)} != first "
                    f"{B.show([F(int(x), L) for x in R1[pt]], order)}",
                )
                nbad += 1
                continue
            if len(sel) == 14 and not np.array_equal(R1, pr["OLD"]):
                pt = int(np.argwhere((R1 != pr["OLD"]).any(axis=1))[0][0])
                res.fail(f"{sig}/complete-set-unchanged", f"{w2} point {pt}: {B.show([F(int(x), L) for x in R1[pt]], order)} != input {B.show(old[pt], order)}")
                nbad += 1
    res.info = {"max_rel_rounding_residue": worst, "subsets": nsub}
    res.nontrivial = nsub > 0
    res.outcome = f"{kind} subsets={'some' if nsub else 'none'} {'ok' if not nbad else 'bad'}"
    return res


def run(ctx):
    cases = []
    step = 1024 if ctx.thorough() else 2048
    for fam in FAMILIES:
        if ctx.thorough():
            sizes = list(range(15)) if fam in FULL_FAMILIES else [0, 1, 2, 3, 4, 10, 11, 12, 13, 14]
        else:
            sizes = [0, 1, 2, 12, 13, 14]
        for lo in range(0, 1 << 14, step):
            cases.append({"family": fam, "lo": lo, "hi": lo + step, "sizes": sizes})
    results = ctx.run_cases(cases, evaluate)
    nsub = sum((r[1][3] or {}).get("subsets", 0) for r in results)
    ctx.extra.update(selections_projected=int(nsub))
    ctx.exhaustive = True
    ctx.rule = (
        "selections = all subsets "
        + ("(pid, evol: every size; custom bases: sizes 0-4 and 10-14)" if ctx.thorough() else "of size 0-2 and 12-14")
        + " of 11 complete orthogonal bases of flavour space (14 PIDs via pid_to_flavor, 14 evolution labels via "
        "evol_to_flavor, 9 custom: unified, intrinsic QCD nf=3,4,5, intrinsic QED nf=3,5, q+-, rescaled evolution, "
        "Hadamard); each projected out of 11 blocks (full order, LHAPDF order without t/photon, no data, odd order, all 14 PIDs in "
        "LHAPDF order and shuffled, four blocks of the same shape as the complete ones listing different PID subsets [fewer PIDs than "
        "the block before, other PIDs, strict subset, strict superset], odd order with two scales) "
        "carrying unit data for every column plus 2 integer rows, and projected a second time; the same-shape blocks also projected alone (result must not depend on the blocks before); custom selections also as a Python list "
        "of 1-d arrays (must reproduce the matrix call bit for bit); for every non-empty selection the library's label-kind tests "
        "is_evolution_labels / is_pid_labels (the dispatch of generate_pdf) must classify it as (False, True) [pid: list of int, of "
        "np.int64, int array, tuple], (True, False) [evolution: list, tuple, array of str], (False, False) [custom: float matrix, "
        "list of float arrays, list of float lists, and, for integer-valued rows, int matrix, list of int arrays, list of int lists]; "
        "a case = " + str(step) + " "
        "consecutive subset masks of one family; non-trivial = at least one subset of the tier in the range"
    )
    ctx.assumptions += [
        "project is linear in the data (unit data decide arbitrary data for a layout)",
        "each family is verified at run time to be a complete orthogonal basis, so the conditions r.f'=r.f (selected), "
        "r.f'=0 (unselected) are equivalent to f' = orthogonal projection of f on the span of the selection",
        "results are identified with multiples of 1/L, L the exact common denominator of the reference (max residue recorded, bound 1e-12)",
        "flavour content of evolution labels from vf/ref/c31_bases.py (documentation)",
        "block data are float arrays (as the loader and generate_block produce); integer-dtype data are outside the lattice",
        "the empty selection has no label kind: its classification is not judged",
    ]
