"""C39 read-only and closed EKOs never change on disk (X-hist).

BFS over histories of read and write attempts on the real EKO object from three initial
states (opened read-only; closed after an edit session; closed after a read-only session).
Oracle after every step: every mutating attempt raised, and the SHA-256 of the archive is the
one taken before the session; the same after the session is ended.
"""

import hashlib
import os
import shutil

import numpy as np

from vf.core import cards, hist
from vf.core.ctx import Result

ID = "C39"
LEVEL = "model_checking"
TECHNIQUE = "explicit-state BFS over read/write-attempt histories on the real EKO; invariant: archive hash unchanged, every write attempt raises"
LEVEL_TEXT = (
    "all histories up to the depth bound over 22 operations from 3 initial states are executed on the "
    "real object; the archive's SHA-256 is compared after every step and after the session"
)
LEVEL_NOTE = "bounded depth (quick 3, thorough 5); one archive content; trusted: hashlib, the op classification (mutating / not)"
FLOOR_NONTRIVIAL = 30

EP0 = (9.0, 4)
EP1 = (16.0, 4)
MUTATING = {
    "set_existing",
    "set_new",
    "set_xgrid",
    "update",
    "load_recipes_evo",
    "load_recipes_match",
    "load_recipes_known_evo",
    "load_recipes_known_match",
    "parts_set_known",
    "parts_set",
    "parts_matching_set",
    "setitem_operators",
}
OPS = sorted(MUTATING) + ["get", "with_operator", "read_recipes", "read_part", "list", "items", "unload", "del_operators", "dump", "close", "exit"]
INITS = ["ro_open", "closed_after_rw", "closed_after_ro"]


def _sha(p):
    return hashlib.sha256(open(p, "rb").read()).hexdigest()


def _mk_archive(path):
    from eko.io.items import Operator
    from eko.io.struct import EKO

    th, op = cards.build(dict(xgrid=[0.5, 1.0], mugrid=[[3.0, 4]]))
    a = np.arange(16, dtype=float).reshape(2, 2, 2, 2)
    from eko.io.items import Evolution, Matching

    with EKO.create(path) as b:
        e = b.load_cards(th, op).build()
        e[EP0] = Operator(a, a * 0.01)
        # recipes and a part that already exist in the archive (stores of *known* headers must raise as well)
        e.load_recipes([Evolution(4.0, 9.0, 4), Matching(9.0, 5, False)])
        e.parts[Evolution(4.0, 9.0, 4)] = Operator(a)


def _apply(e, name):
    """Returns ('ok', ...) or ('raises', type)."""
    from eko import interpolation
    from eko.io.items import Evolution, Matching, Operator, Target

    a = np.ones((2, 2, 2, 2))
    try:
        if name == "set_existing":
            e[EP0] = Operator(a)
        elif name == "set_new":
            e[EP1] = Operator(a, a)
        elif name == "set_xgrid":
            e.xgrid = interpolation.XGrid([0.25, 1.0])
        elif name == "update":
            e.update()
        elif name == "load_recipes_evo":
            e.load_recipes([Evolution(1.0, 2.0, 4)])
        elif name == "load_recipes_match":
            e.load_recipes([Matching(4.0, 5, False)])
        elif name == "load_recipes_known_evo":
            e.load_recipes([Evolution(4.0, 9.0, 4)])
        elif name == "load_recipes_known_match":
            e.load_recipes([Matching(9.0, 5, False)])
        elif name == "parts_set_known":
            e.parts[Evolution(4.0, 9.0, 4)] = Operator(a)
        elif name == "read_recipes":
            _ = e.recipes[Evolution(4.0, 9.0, 4)]
            _ = e.recipes_matching[Matching(9.0, 5, False)]
        elif name == "read_part":
            _ = e.parts[Evolution(4.0, 9.0, 4)]
        elif name == "parts_set":
            e.parts[Evolution(1.0, 2.0, 4)] = Operator(a)
        elif name == "parts_matching_set":
            e.parts_matching[Matching(4.0, 5, False)] = Operator(a)
        elif name == "setitem_operators":
            e.operators[Target(25.0, 5)] = Operator(a)
        elif name == "get":
            _ = e[EP0]
        elif name == "with_operator":
            with e.operator(EP0) as o:
                _ = o.operator.sum()
        elif name == "list":
            _ = list(e)
        elif name == "items":
            _ = [(k, v.operator.sum()) for k, v in e.items()]
        elif name == "unload":
            e.unload()
        elif name == "del_operators":
            del e.operators
        elif name == "dump":
            e.dump()
        elif name == "close":
            e.close()
        elif name == "exit":
            e.__exit__(None, None, None)
        else:
            raise ValueError(name)
        return ("ok",)
    except Exception as exc:  # noqa
        return ("raises", type(exc).__name__)


def evaluate(case):
    from eko.io.struct import EKO

    init = case["init"]
    h = case["history"]
    op = case["op"]
    path = cards.scratch_path("c39")
    _mk_archive(path)
    res = Result()
    tmpdirs = []
    try:
        if init == "ro_open":
            e = EKO.read(path)
        elif init == "closed_after_rw":
            e = EKO.edit(path)
            tmpdirs.append(e.metadata.path)
            _apply(e, "read_recipes")
            _apply(e, "read_part")
            _apply(e, "get")
            e.close()
        else:
            e = EKO.read(path)
            tmpdirs.append(e.metadata.path)
            e.close()
        tmpdirs.append(e.metadata.path)
        sha0 = _sha(path)
        seq = list(h) + [op]
        for i, name in enumerate(seq):
            was_open, ro = e.access.open, e.access.readonly
            got = _apply(e, name)
            full = f"init={init} history={seq[: i + 1]}"
            if i == len(seq) - 1:
                if name in MUTATING and got[0] != "raises":
                    res.fail(f"EKO/{init}/{name}/no-error", f"{full}: write attempt on {'closed' if not was_open else 'read-only'} EKO did not raise")
                if not os.path.exists(path):
                    res.fail(f"EKO/{'closed' if not was_open else 'ro'}/{name}/archive-removed", f"{full}: archive does not exist any more (observation {got})")
                    break
                if _sha(path) != sha0:
                    res.fail(f"EKO/{'closed' if not was_open else 'ro'}/{name}/archive-changed", f"{full}: archive bytes changed (observation {got})")
                    break
            elif not os.path.exists(path):
                break
        # end of session
        if not res.fails:
            if e.access.open:
                g = _apply(e, "close")
            if not os.path.exists(path) or _sha(path) != sha0:
                res.fail(f"EKO/{init}/session-end/archive-changed", f"init={init} history={seq}: archive differs after the session was ended")
        md = e.metadata._path
        d = sorted(os.listdir(md)) if md is not None and os.path.isdir(md) else "gone"
        cache = sorted((str(t), v is not None) for t, v in e.operators.cache.items())
        cache += sorted(("r" + str(t), v is not None) for t, v in e.recipes.cache.items())
        cache += sorted(("rm" + str(t), v is not None) for t, v in e.recipes_matching.cache.items())
        cache += sorted(("p" + str(t), v is not None) for t, v in e.parts.cache.items())
        res.info = {"state": repr((init, e.access.open, e.access.readonly, d if d == "gone" else len(d), cache, str(e.metadata.xgrid.raw.tolist())))}
        res.outcome = f"{op}:{got[0]}:{'open' if was_open else 'closed'}"
        res.nontrivial = op in MUTATING or op in ("close", "dump", "exit")
        return res
    finally:
        for t in tmpdirs:
            shutil.rmtree(t, ignore_errors=True)
        try:
            os.unlink(path)
        except OSError:
            pass


def run(ctx):
    depth = 5 if ctx.thorough() else 3
    for init in INITS:
        hist.bfs(ctx, OPS, evaluate, depth, init_key=f"<{init}>", extra_case={"init": init})
    ctx.rule = (
        f"BFS over histories of length <= {depth} of {len(OPS)} operations (12 write attempts on operators, "
        "metadata, recipes and parts; reads, unload, dump, close, context exit) from 3 initial states "
        "(read-only open, closed after edit, closed after read-only); non-trivial = last op is a write attempt, dump, close or exit"
    )
    ctx.assumptions += ["state key = (initial state, open, readonly, temp dir present, cache flags, in-memory xgrid)"]
