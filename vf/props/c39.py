"""C39 read-only and closed EKOs never change on disk (X-hist).

BFS over histories of read and write attempts on the real EKO object from seven initial
states (opened read-only: from the archive, into a caller-supplied directory, from an already
extracted directory; closed: after an edit session, after a read-only session, after the
creating session, and after an edit session whose working directory exists again).
Oracle after every step: every mutating attempt raised, and the SHA-256 of the archive is the
one taken before the session; the same after the session is ended.
"""

import hashlib
import os
import pathlib
import shutil
import tarfile

import numpy as np

from vf.core import cards
from vf.core.ctx import Result, HarnessError

ID = "C39"
LEVEL = "model_checking"
TECHNIQUE = "explicit-state BFS over read/write-attempt histories on the real EKO; invariant: archive hash unchanged, every write attempt raises"
LEVEL_TEXT = (
    "all histories up to the depth bound over 28 operations from 7 initial states are executed on the "
    "real object; the archive's SHA-256 (for an EKO opened from a directory: the hash of the directory tree) "
    "is compared after every step and after the session"
)
LEVEL_NOTE = (
    "bounded depth (quick 3, thorough 5); one archive content; trusted: hashlib, the op classification (mutating / not); "
    "'raises an error' = any exception (the class is recorded in the outcome, not judged)"
)
FLOOR_NONTRIVIAL = 30

EP0 = (9.0, 4)
EP1 = (16.0, 4)
MUTATING = {
    "set_existing",
    "set_new",
    "set_xgrid",
    "update",
    "load_recipes_evo",
    "load_recipes_match",
    "load_recipes_known_evo",
    "load_recipes_known_match",
    "parts_set_known",
    "parts_set",
    "parts_matching_set",
    "setitem_operators",
    # the documented manual store of metadata (metadata.py: "a call to update has to be performed manually")
    "metadata_update",
}
# explicit dumps / copies: need not raise, but the own archive must keep its bytes
DUMPS = ["dump", "dump_own_path", "dump_elsewhere", "deepcopy_own_path", "metadata_update+dump_own_path"]
OPS = sorted(MUTATING) + ["get", "with_operator", "read_recipes", "read_part", "list", "items", "unload", "del_operators"] + DUMPS + ["close", "exit"]
INITS = ["ro_open", "closed_after_rw", "closed_after_ro", "closed_after_create", "ro_open_dest", "ro_dir", "closed_dir_recreated"]
# operations added after the audit get a signature that names the call site (one defect = one site x access state x clause)
SITE = {
    "metadata_update": "Metadata.update",
    "dump_own_path": "EKO.dump(own path)",
    "dump_elsewhere": "EKO.dump(other path)",
    "deepcopy_own_path": "EKO.deepcopy(own path)",
    # the two unguarded sites in sequence (whether or not the first one raised): the way a read-only session rewrites its archive
    "metadata_update+dump_own_path": "Metadata.update+EKO.dump(own path)",
}


def _sha(p):
    return hashlib.sha256(open(p, "rb").read()).hexdigest()


def _tree_sha(d):
    """Hash of a directory tree (relative names + file bytes); 'gone' if the directory does not exist."""
    d = pathlib.Path(d)
    if not d.is_dir():
        return "gone"
    h = hashlib.sha256()
    for f in sorted(d.rglob("*")):
        h.update(str(f.relative_to(d)).encode() + b"\0")
        if f.is_file():
            h.update(f.read_bytes())
        h.update(b"\1")
    return h.hexdigest()


def _mk_archive(path):
    """Create the archive in a real session; returns the (now closed) object that session held."""
    from eko.io.items import Operator
    from eko.io.struct import EKO

    th, op = cards.build(dict(xgrid=[0.5, 1.0], mugrid=[[3.0, 4]]))
    a = np.arange(16, dtype=float).reshape(2, 2, 2, 2)
    from eko.io.items import Evolution, Matching

    with EKO.create(path) as b:
        e = b.load_cards(th, op).build()
        e[EP0] = Operator(a, a * 0.01)
        # recipes and a part that already exist in the archive (stores of *known* headers must raise as well)
        e.load_recipes([Evolution(4.0, 9.0, 4), Matching(9.0, 5, False)])
        e.parts[Evolution(4.0, 9.0, 4)] = Operator(a)
    return e


_TEMPLATE = []


def _template():
    """Bytes of the archive, created once per process by a real session (every case works on its own copy)."""
    if not _TEMPLATE:
        p = cards.scratch_path("c39-template")
        _mk_archive(p)
        _TEMPLATE.append(p.read_bytes())
        os.unlink(p)
    return _TEMPLATE[0]


def _extract(archive, d):
    with tarfile.open(archive) as tar:
        tar.extractall(d, filter="fully_trusted")


def _apply(e, name):
    """Returns ('ok', ...) or ('raises', type)."""
    from eko import interpolation
    from eko.io.items import Evolution, Matching, Operator, Target

    a = np.ones((2, 2, 2, 2))
    try:
        if name == "set_existing":
            e[EP0] = Operator(a)
        elif name == "set_new":
            e[EP1] = Operator(a, a)
        elif name == "set_xgrid":
            e.xgrid = interpolation.XGrid([0.25, 1.0])
        elif name == "update":
            e.update()
        elif name == "load_recipes_evo":
            e.load_recipes([Evolution(1.0, 2.0, 4)])
        elif name == "load_recipes_match":
            e.load_recipes([Matching(4.0, 5, False)])
        elif name == "load_recipes_known_evo":
            e.load_recipes([Evolution(4.0, 9.0, 4)])
        elif name == "load_recipes_known_match":
            e.load_recipes([Matching(9.0, 5, False)])
        elif name == "parts_set_known":
            e.parts[Evolution(4.0, 9.0, 4)] = Operator(a)
        elif name == "read_recipes":
            _ = e.recipes[Evolution(4.0, 9.0, 4)]
            _ = e.recipes_matching[Matching(9.0, 5, False)]
        elif name == "read_part":
            _ = e.parts[Evolution(4.0, 9.0, 4)]
        elif name == "parts_set":
            e.parts[Evolution(1.0, 2.0, 4)] = Operator(a)
        elif name == "parts_matching_set":
            e.parts_matching[Matching(4.0, 5, False)] = Operator(a)
        elif name == "setitem_operators":
            e.operators[Target(25.0, 5)] = Operator(a)
        elif name == "get":
            _ = e[EP0]
        elif name == "with_operator":
            with e.operator(EP0) as o:
                _ = o.operator.sum()
        elif name == "list":
            _ = list(e)
        elif name == "items":
            _ = [(k, v.operator.sum()) for k, v in e.items()]
        elif name == "unload":
            e.unload()
        elif name == "del_operators":
            del e.operators
        elif name == "metadata_update":
            e.metadata.origin = (123.0, 3)
            e.metadata.update()
        elif name == "dump":
            e.dump()
        elif name == "dump_own_path":
            e.dump(e.access.path)
        elif name == "dump_elsewhere":
            other = pathlib.Path(str(e.metadata._path) + "-elsewhere.tar")
            try:
                e.dump(other)
            finally:
                other.unlink(missing_ok=True)
        elif name == "deepcopy_own_path":
            e.deepcopy(e.access.path)
        elif name == "metadata_update+dump_own_path":
            e.metadata.origin = (123.0, 3)
            try:
                e.metadata.update()
            except Exception:  # noqa  (judged by the operation "metadata_update")
                pass
            e.dump(e.access.path)
        elif name == "close":
            e.close()
        elif name == "exit":
            e.__exit__(None, None, None)
        else:
            raise ValueError(name)
        return ("ok",)
    except Exception as exc:  # noqa
        return ("raises", type(exc).__name__)


def evaluate(case):
    from eko.io.struct import EKO

    init = case["init"]
    h = case["history"]
    op = case["op"]
    path = cards.scratch_path("c39")
    dest = pathlib.Path(str(path)[:-4] + "-dir")
    res = Result()
    tmpdirs = [dest]
    try:
        if init == "closed_after_create":
            # the object a creating session leaves behind (what `eko.solve` users may still hold)
            e = _mk_archive(path)
        else:
            path.write_bytes(_template())
        if init == "ro_open":
            e = EKO.read(path)
        elif init == "ro_open_dest":
            dest.mkdir()
            e = EKO.read(path, dest=dest)
        elif init == "ro_dir":
            # opened from an already extracted directory: no archive file; the directory is the permanent object
            _extract(path, dest)
            e = EKO.read(dest, extract=False)
        elif init == "closed_after_rw":
            e = EKO.edit(path)
            tmpdirs.append(e.metadata.path)
            _apply(e, "read_recipes")
            _apply(e, "read_part")
            _apply(e, "get")
            e.close()
        elif init == "closed_dir_recreated":
            # closed after an edit session in a caller-supplied directory, and that directory exists again
            # (re-used for the next session): a refusal must not depend on the working directory being gone
            dest.mkdir()
            e = EKO.edit(path, dest=dest)
            _apply(e, "get")
            e.close()
            _extract(path, dest)
        elif init == "closed_after_ro":
            e = EKO.read(path)
            tmpdirs.append(e.metadata.path)
            e.close()
        tmpdirs.append(e.metadata.path)
        # the permanent object whose bytes must not change
        if init == "ro_dir":
            exists, sha = (lambda: dest.is_dir()), (lambda: _tree_sha(dest))
        else:
            exists, sha = (lambda: os.path.exists(path)), (lambda: _sha(path))
        sha0 = sha()
        seq = list(h) + [op]
        for i, name in enumerate(seq):
            was_open, ro = e.access.open, e.access.readonly
            got = _apply(e, name)
            full = f"init={init} history={seq[: i + 1]}"
            st = "closed" if not was_open else "ro"
            # signatures: historical form for the original alphabet, call-site form for the added operations
            pre = f"{SITE[name]}/{st}" if name in SITE else None
            if name == "metadata_update+dump_own_path" and st == "closed":
                # Metadata.update cannot reach the archive of a closed EKO: what happens to it is the dump's doing
                pre = f"{SITE['dump_own_path']}/{st}"
            if i == len(seq) - 1:
                if name in MUTATING and got[0] != "raises":
                    res.fail(f"{pre}/no-error" if pre else f"EKO/{init}/{name}/no-error", f"{full}: write attempt on {'closed' if not was_open else 'read-only'} EKO did not raise")
                if not exists():
                    res.fail(f"{pre}/archive-removed" if pre else f"EKO/{st}/{name}/archive-removed", f"{full}: archive does not exist any more (observation {got})")
                    break
                if sha() != sha0:
                    res.fail(f"{pre}/archive-changed" if pre else f"EKO/{st}/{name}/archive-changed", f"{full}: archive bytes changed (observation {got})")
                    break
            elif not exists():
                break
        # canonical key of the state reached (taken BEFORE the session is ended: open and closed states differ)
        md = e.metadata._path
        d = sorted(os.listdir(md)) if md is not None and os.path.isdir(md) else "gone"
        cache = sorted((str(t), v is not None) for t, v in e.operators.cache.items())
        cache += sorted(("r" + str(t), v is not None) for t, v in e.recipes.cache.items())
        cache += sorted(("rm" + str(t), v is not None) for t, v in e.recipes_matching.cache.items())
        cache += sorted(("p" + str(t), v is not None) for t, v in e.parts.cache.items())
        res.info = {"state": repr((init, e.access.open, e.access.readonly, d if d == "gone" else len(d), cache, str(e.metadata.xgrid.raw.tolist()), str(tuple(e.metadata.origin))))}
        # end of session
        if not res.fails:
            if e.access.open and init != "ro_dir":
                g = _apply(e, "close")
            if not exists() or sha() != sha0:
                res.fail(f"EKO/{init}/session-end/archive-changed", f"init={init} history={seq}: archive differs after the session was ended")
        res.outcome = f"{op}:{got[0]}:{'open' if was_open else 'closed'}" + (f":{got[1]}" if got[0] == "raises" else "")
        res.nontrivial = op in MUTATING or op in DUMPS or op in ("close", "exit")
        return res
    finally:
        for t in tmpdirs:
            shutil.rmtree(t, ignore_errors=True)
        try:
            os.unlink(path)
        except OSError:
            pass


def _ops_for(init):
    # an EKO opened from a directory has no archive file: its close() removes that directory by design
    # ("remove the temporary directory used"), which the statement (archive *file*) does not speak about
    return [o for o in OPS if not (init == "ro_dir" and o == "close")]


def _bfs(ctx, depth):
    """vf.core.hist.bfs for all initial states at once (one batch of cases per depth instead of one per depth and initial state).

    Same rules: a state is represented by the first history (canonical order) that reaches its key; failing histories are
    reported, not extended; the key contains the initial state, so the searches of the initial states stay separate."""
    seen = {init: {f"<{init}>"} for init in INITS}
    frontier = {init: [[]] for init in INITS}
    transitions = completed = 0
    for d in range(1, depth + 1):
        cases = [{"history": h, "op": op, "init": init} for init in INITS for h in frontier[init] for op in _ops_for(init)]
        if not cases:
            break
        results = ctx.run_cases(cases, evaluate)
        results.sort(key=lambda r: repr((r[0]["init"], r[0]["history"], r[0]["op"])))
        new = {init: [] for init in INITS}
        for case, (outcome, fails, nt, info, tb) in results:
            transitions += 1
            if fails:
                continue
            if not isinstance(info, dict) or "state" not in info:
                raise HarnessError("C39: evaluate must return info['state']")
            if info["state"] not in seen[case["init"]]:
                seen[case["init"]].add(info["state"])
                new[case["init"]].append(case["history"] + [case["op"]])
        completed = d
        frontier = new
    ctx.extra.update(
        states=sum(len(v) for v in seen.values()),
        states_per_initial_state={k: len(v) for k, v in seen.items()},
        transitions=transitions,
        traces_validated_against_impl=transitions,
        max_depth_completed=completed,
        frontier_at_bound=sum(len(v) for v in frontier.values()),
    )


def run(ctx):
    depth = 5 if ctx.thorough() else 3
    _template()  # built once, before the workers are forked
    _bfs(ctx, depth)
    ctx.rule = (
        f"BFS over histories of length <= {depth} of {len(OPS)} operations (13 write attempts on operators, "
        "metadata (EKO.update, xgrid setter, Metadata.update), recipes and parts; reads, unload; dump to the default archive, "
        "to the own path given explicitly, to another path, deepcopy onto the own path, Metadata.update followed by a dump to the own path; close, context exit) from "
        f"{len(INITS)} initial states (read-only open from the archive / into a caller-supplied directory / from an extracted "
        "directory (no close there; the directory tree is hashed); closed after edit, after read-only, after the creating "
        "session, after an edit session whose working directory has been re-populated); "
        "non-trivial = last op is a write attempt, a dump/copy, close or exit"
    )
    ctx.assumptions += [
        "state key = (initial state, open, readonly, temp dir present, cache flags, in-memory xgrid, in-memory origin)",
        "'raises an error' is any exception; its class is part of the recorded outcome only",
    ]
