"""C02 each final EKO is the ordered product of the parts along its matched path (X-conf).

(a) stub mode: `runner.parts.evolve/match` are replaced by a deterministic generator of dense,
mutually non-commuting (14,2,14,2) tensors keyed by the recipe (and counting calls); the real
`recipes.create`, `managed.solve` loop, inventories and `operators.retrieve/join` run unchanged.
(b) probe mode: the real parts through the S2 moment probe (non-commuting singlet physics).
Oracle: (1) the archive's parts are exactly those named by an independent path builder,
(2) each was computed exactly once and is stored as exactly one header + one array file, (3) every stored operator equals the product of the archived
parts re-read from disk, later steps to the left, (error tensors are measured but not judged: not part of the statement).
"""

import itertools
import math

import numpy as np

from vf.core import cards, probe
from vf.core.ctx import Result, HarnessError
from vf.ref import paths as refp

ID = "C02"
LEVEL = "exploration"
TECHNIQUE = "exhaustive enumeration of (matching-scale layout, origin, target set) through the real runner with stubbed part providers; product recomputed from the archived parts"
LEVEL_TEXT = (
    "all origins x all single targets and target pairs (thorough: 5 wall layouts, all pairs, triples) on a scale lattice placed "
    "below/on/between/above the matching scales (plus scales with 17-digit squares, two targets one ulp apart, repeated targets, "
    "4-5 target lists) are run through the real recipes/managed/operators code; stored operators are "
    "compared with the independently ordered product of the stored parts; part and operator files are counted"
)
LEVEL_NOTE = "scales restricted to the lattice; parts are synthetic non-commuting tensors (stub mode) or real moment matrices (probe mode); tensordot trusted"
FLOOR_NONTRIVIAL = 100

INF = math.inf
# all scales are LINEAR (GeV) small integers / dyadic numbers, so that squaring is exact everywhere
LAYOUTS = {
    "distinct": [3.0, 5.0, 7.0],
    "cc": [3.0, 3.0, 7.0],
    "ccc": [3.0, 3.0, 3.0],
    "c0": [0.0, 5.0, 7.0],
    "tinf": [3.0, 5.0, INF],
}
SCALES = [2.0, 3.0, 4.0, 5.0, 6.0, 7.0, 8.0]
NFS = [3, 4, 5, 6]
REDUCED = [(2.0, 3), (4.0, 4), (6.0, 5), (8.0, 6), (3.0, 3), (3.0, 4), (5.0, 5), (7.0, 5), (8.0, 3), (2.0, 6), (6.0, 4), (4.0, 5)]
# scales whose squares are NOT exactly representable short decimals (17 significant digits in the header files), and two
# neighbouring floats (1 ulp apart, their squares differ in the last bits): part identity goes through float hashing (file names)
# and through the yaml round trip of the headers
NONDY = [1.65, 10.0 / 3.0, 6.1, 6.1000000000000005, 7.3]
assert NONDY[2] < NONDY[3] and NONDY[2] ** 2 < NONDY[3] ** 2
NONDY_POINTS = [(1.65, 3), (1.65, 4), (10.0 / 3.0, 4), (10.0 / 3.0, 5), (6.1, 5), (6.1000000000000005, 5), (6.1, 4), (7.3, 6), (7.3, 3)]


def _stub_tensor(fields, err=False):
    """Dense deterministic (14,2,14,2) tensor depending on the recipe fields (non-commuting family)."""
    c = 0.0
    for i, f in enumerate(fields):
        v = float(f) if not (isinstance(f, float) and math.isinf(f)) else 1234.5
        c += (i + 1.37) * v
        # the low 12 bits of the mantissa enter at O(1): parts whose scales differ by one ulp carry visibly different
        # numbers (zero for the integer / dyadic lattice scales)
        c += 0.618 * (int(math.frexp(v)[0] * 2.0**53) % 4096)
    idx = np.arange(14 * 2 * 14 * 2, dtype=float).reshape(14, 2, 14, 2)
    a = np.cos(0.37 * c + 0.11 * idx) + 0.5 * np.sin(0.05 * c * (idx % 29) + 0.3)
    if err:
        return np.abs(np.sin(0.23 * c + 0.07 * idx)) * 1e-3
    return a


def _dot(a, b):
    return np.tensordot(a, b, axes=([2, 3], [0, 1]))


def _cfg(case):
    masses = [INF if w == "inf" else w for w in case["walls"]]
    walls = [m**2 for m in masses]
    mu0, nf0 = case["origin"]
    return dict(
        order=case.get("order", [1, 0]),
        masses=["inf" if math.isinf(m) else m for m in masses],
        ratios=[1.0, 1.0, 1.0],
        init=[mu0, nf0],
        mugrid=[[m, n] for m, n in case["targets"]],
        xgrid=[0.5, 1.0],
        method=case.get("method", "truncated"),
    ), walls


def evaluate(case):
    from eko.io.items import Evolution, Matching, Operator
    from eko.io.struct import EKO
    import eko.runner.parts as parts
    import eko

    cfg, walls = _cfg(case)
    mode = case.get("mode", "stub")
    res = Result()
    where = f"mode={mode} walls={walls} origin={case['origin']} targets={case['targets']}"
    calls = []
    path = cards.scratch_path("c02")
    saved = (parts.evolve, parts.match)
    try:
        th, op = cards.build(cfg)
        if mode == "stub":
            def evolve(eko_, recipe):
                calls.append(("evo", recipe.origin, recipe.target, (recipe.nf, bool(recipe.cliff))))
                # intermediate (cliff) and final variants of one segment are different parts: different numbers
                f = (recipe.origin, recipe.target, recipe.nf, 11.0 if recipe.cliff else 0.0)
                return Operator(_stub_tensor(f), _stub_tensor(f, err=True))

            def match(eko_, recipe):
                calls.append(("match", recipe.scale, recipe.hq, recipe.inverse))
                f = (recipe.scale, recipe.hq, 7.0 if recipe.inverse else 3.0)
                return Operator(_stub_tensor(f), _stub_tensor(f, err=True))

            parts.evolve, parts.match = evolve, match
            try:
                eko.solve(th, op, path)
            except Exception as e:  # noqa
                res.fail(f"solve/{mode}/crash/{type(e).__name__}", f"{where}: {type(e).__name__}: {str(e)[:300]}")
                return res
        else:
            def evolve(eko_, recipe):
                calls.append(("evo", recipe.origin, recipe.target, (recipe.nf, bool(recipe.cliff))))
                return saved[0](eko_, recipe)

            def match(eko_, recipe):
                calls.append(("match", recipe.scale, recipe.hq, recipe.inverse))
                return saved[1](eko_, recipe)

            parts.evolve, parts.match = evolve, match
            moments = [2.0, 3.3]
            xg = probe.probe_xgrid(3)
            th, op = cards.build(dict(cfg, xgrid=xg, degree=1))
            with probe.moment_probe(moments, xg):
                eko.solve(th, op, path)
        # ---------------- expected parts from the independent path builder
        origin = (case["origin"][0] ** 2, case["origin"][1])
        expected = {}
        per_target = {}
        for t in case["targets"]:
            ref = refp.ref_matched_path(walls, origin, (t[0] ** 2, t[1]))
            keys = []
            for ib, b in enumerate(ref):
                # a segment is a part of its own kind when it is intermediate (it ends on a matching scale and
                # carries no scale-variation factor) or final (it reaches the target): the header tells them apart
                k = ("evo", b[1], b[2], (b[3], ib < len(ref) - 1)) if b[0] == "seg" else ("match", b[1], b[2], b[3])
                expected[k] = True
                keys.append(k)
            per_target[(t[0] ** 2, t[1])] = keys
        # (2) each part requested exactly once
        cnt = {}
        for c in calls:
            c = (c[0], float(c[1]), float(c[2]) if c[0] == "evo" else c[2], c[3])
            cnt[c] = cnt.get(c, 0) + 1
        exp_norm = {(k[0], float(k[1]), float(k[2]) if k[0] == "evo" else k[2], k[3]) for k in expected}
        dup = [c for c, n in cnt.items() if n > 1]
        if dup:
            res.fail(f"solve/{mode}/part-computed-twice", f"{where}: parts computed more than once: {dup[:3]}")
        if set(cnt) != exp_norm:
            res.fail(f"solve/{mode}/parts-computed-set", f"{where}: computed {sorted(set(cnt) - exp_norm)} unexpectedly, missing {sorted(exp_norm - set(cnt))}")
        # (1) archive content
        stored = {}
        try:
            with EKO.read(path) as e:
                e.parts.sync()
                e.parts_matching.sync()
                nstored = 0
                for h in list(e.parts):
                    stored[("evo", float(h.origin), float(h.target), (h.nf, bool(h.cliff)))] = e.parts[h]
                    nstored += 1
                for h in list(e.parts_matching):
                    stored[("match", float(h.scale), h.hq, h.inverse)] = e.parts_matching[h]
                    nstored += 1
                if nstored != len(stored):
                    res.fail(f"solve/{mode}/part-stored-twice", f"{where}: {nstored} part files for {len(stored)} distinct parts")
                # "stored exactly once", on the files themselves: one header file and one array file per distinct part,
                # one pair per distinct target in operators/, nothing else
                n_evo = sum(1 for k in stored if k[0] == "evo")
                n_match = len(stored) - n_evo
                n_tgt = len({(float(t[0] ** 2), t[1]) for t in case["targets"]})
                for inv, n, what in ((e.parts, n_evo, "parts"), (e.parts_matching, n_match, "parts/matching"), (e.operators, n_tgt, "operators")):
                    names = sorted(q.name for q in inv.path.iterdir() if q.is_file())
                    heads = [q for q in names if q.endswith(".yaml")]
                    arrs = [q for q in names if q.endswith(".npy.lz4") or q.endswith(".npz.lz4")]
                    if len(heads) != n or len(arrs) != n or len(names) != 2 * n or {q.split(".")[0] for q in heads} != {q.split(".")[0] for q in arrs}:
                        res.fail(f"solve/{mode}/part-stored-twice", f"{where}: directory {what} holds {len(heads)} header files and {len(arrs)} array files ({names}) for {n} distinct items")
                if set(stored) != exp_norm:
                    res.fail(f"solve/{mode}/parts-stored-set", f"{where}: stored {sorted(set(stored) - exp_norm)} unexpectedly, missing {sorted(exp_norm - set(stored))}")
                got = {ep: (o.operator.copy(), None if o.error is None else o.error.copy()) for ep, o in e.items()}
        except Exception as e_:  # noqa - the archive written by the real runner must be readable with its own reader
            res.fail(f"solve/{mode}/archive-unreadable/{type(e_).__name__}", f"{where}: reading parts / operators back from the archive raised {type(e_).__name__}: {str(e_)[:300]}")
            return res
        if res.fails:
            return res
        # (3) ordered product, later steps to the left
        tset = {(float(t[0] ** 2), t[1]) for t in case["targets"]}
        if {(float(k[0]), k[1]) for k in got} != tset:
            res.fail(f"solve/{mode}/targets-stored", f"{where}: stored points {sorted(got)} vs requested {sorted(tset)}")
            return res
        worst = 0.0
        worst_err = 0.0
        for ep, (val, err) in got.items():
            keys = per_target[(float(ep[0]), ep[1])]
            acc_v, acc_e = None, None
            for k in keys:
                kk = (k[0], float(k[1]), float(k[2]) if k[0] == "evo" else k[2], k[3])
                p = stored[kk]
                if acc_v is None:
                    acc_v, acc_e = p.operator, p.error
                else:
                    new_v = _dot(p.operator, acc_v)
                    if acc_e is not None and p.error is not None:
                        acc_e = _dot(np.abs(p.operator), np.abs(acc_e)) + _dot(np.abs(p.error), np.abs(acc_v))
                    else:
                        acc_e = None
                    acc_v = new_v
            scale = max(1.0, float(np.abs(acc_v).max()))
            dv = float(np.abs(val - acc_v).max()) / scale
            worst = max(worst, dv)
            nsteps = len(keys)
            direction = "down" if any(k[0] == "match" and k[3] for k in keys) else ("up" if nsteps > 1 else "flat")
            if dv > 1e-12:
                res.fail(f"join/{mode}/product-order/{direction}", f"{where}: operator at {ep} differs from the ordered product of its {nsteps} archived parts by {dv:.3e} (relative)")
            # the error tensor is not part of C02's statement (its first-order rule is not associative,
            # so it depends on the fold order): measured for the record only
            if err is not None and acc_e is not None:
                worst_err = max(worst_err, float(np.abs(err - acc_e).max()) / max(1e-300, float(np.abs(acc_e).max())))
        res.info = {"max_rel_dev": worst, "max_err_tensor_dev_info_only": worst_err, "parts": len(stored)}
        lens = sorted(len(v) for v in per_target.values())
        res.outcome = f"{mode}:pathlens={lens}"[:60]
        res.nontrivial = max(lens) > 1 or len(per_target) > 1
        return res
    finally:
        parts.evolve, parts.match = saved
        if path.exists():
            path.unlink()


def run(ctx):
    cases = []
    origins = [(m, n) for m in SCALES for n in NFS]
    targets = [(m, n) for m in SCALES for n in NFS]
    layouts = ["distinct"] if not ctx.thorough() else list(LAYOUTS)
    for lay in layouts:
        walls = ["inf" if math.isinf(w) else w for w in LAYOUTS[lay]]
        for o in origins:
            for t in targets:
                cases.append(dict(walls=walls, origin=list(o), targets=[list(t)]))
            pair_alpha = REDUCED if (not ctx.thorough() or lay != "distinct") else targets
            if lay in ("distinct",) or ctx.thorough():
                for a, b in itertools.combinations(pair_alpha, 2):
                    if lay != "distinct" and (o[1] + int(o[0])) % 3:
                        continue  # degenerate layouts: pairs from one third of the origins
                    cases.append(dict(walls=walls, origin=list(o), targets=[list(a), list(b)]))
        if ctx.thorough() and lay == "distinct":
            for o in origins[::3]:
                for trip in itertools.combinations(REDUCED, 3):
                    cases.append(dict(walls=walls, origin=list(o), targets=[list(x) for x in trip]))
    if not ctx.thorough():
        # coincident matching scales (zero-length intermediate segments, two / three matchings at one scale): singles over the
        # reduced alphabet (thorough: all 28 x 28 singles and pairs above)
        for lay in ("cc", "ccc"):
            for o in REDUCED:
                for t in REDUCED:
                    cases.append(dict(walls=LAYOUTS[lay], origin=list(o), targets=[list(t)]))
    dist = LAYOUTS["distinct"]
    # scales with 17-digit squares and two scales 1 ulp apart: every single with a non-dyadic end, all pairs of non-dyadic targets
    nd_origins = NONDY_POINTS + [(2.0, 3), (6.0, 5), (8.0, 6)]
    nd_targets = NONDY_POINTS + REDUCED[:6]
    n_nd = 0
    for o in nd_origins:
        for t in nd_targets:
            if o in NONDY_POINTS or t in NONDY_POINTS:
                cases.append(dict(walls=dist, origin=list(o), targets=[list(t)]))
                n_nd += 1
    for o in nd_origins[:: (1 if ctx.thorough() else 2)]:
        for a, b in itertools.combinations(NONDY_POINTS, 2):
            cases.append(dict(walls=dist, origin=list(o), targets=[list(a), list(b)]))
            n_nd += 1
    # the same target listed twice (one operator, parts once), and lists of 4 and 5 targets
    for io, o in enumerate(origins):
        for n in (4, 5):
            cases.append(dict(walls=dist, origin=list(o), targets=[list(REDUCED[(io + 5 * j) % 12]) for j in range(n)]))
    for o in REDUCED:
        for t in REDUCED[:4]:
            cases.append(dict(walls=dist, origin=list(o), targets=[list(t), list(t)]))
            cases.append(dict(walls=dist, origin=list(o), targets=[list(t), list(REDUCED[7]), list(t)]))
    # probe mode: real parts at NLO / NNLO on a physical layout (masses^2 = 4, 20.25, 29953)
    phys = [2.0, 4.5, 100.0]
    pscales = [1.5, 2.0, 3.0, 4.5, 7.0]
    for order, method in (([2, 0], "truncated"), ([3, 0], "iterate-exact")):
        for o in [(1.5, 3), (3.0, 4), (7.0, 5), (2.0, 4)]:
            tl = [(m, n) for m in pscales for n in (3, 4, 5)]
            if not ctx.thorough():
                tl = tl[::2]
            for t in tl:
                cases.append(dict(walls=phys, origin=list(o), targets=[list(t)], mode="probe", order=order, method=method))
            for a, b in itertools.combinations(tl[:: (1 if ctx.thorough() else 3)], 2):
                cases.append(dict(walls=phys, origin=list(o), targets=[list(a), list(b)], mode="probe", order=order, method=method))
    ctx.run_cases(cases, evaluate)
    ctx.rule = (
        f"layouts {layouts} x 28 origins (7 scales below/on/between/above walls x nf0 3-6) x (all 28 single targets + all pairs "
        f"{'of the 28 targets' if ctx.thorough() else 'of a 12-target reduced alphabet'}) in stub mode; NLO/NNLO probe-mode cards from 4 origins; "
        f"{'' if ctx.thorough() else 'singles of the coincident-wall layouts cc, ccc over the 12 x 12 reduced alphabet; '}"
        f"{n_nd} singles / pairs with non-dyadic scales (17-digit squares, two targets 1 ulp apart); 4- and 5-target lists from every origin; "
        "a target listed twice; non-trivial = path of more than one part or more than one target"
    )
    ctx.assumptions += [
        "a part is identified by its segment and by being intermediate or final (the two differ by the scale-variation factor)",
        "'stored exactly once' is decided on the files of the archive: one header and one array file per distinct part / target and nothing else",
        "a target listed twice in the card is one target (one stored operator)",
    ]
