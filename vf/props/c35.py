"""C35 Mellin inversion of the interpolation basis reproduces the x-space basis.

No stubs: for every (grid, degree, contour) of the lattice the *real* integrand
    u -> Re( 1 * QuadKerBase(u, is_log=True, logx, mode0).integrand(areas) )
(exactly what quad_ker_ad returns for an evolution kernel equal to 1) is integrated by scipy.integrate.quad
with the arguments Operator.run_op_integration uses (0.5 .. 1-0.05, epsabs=1e-12, epsrel=1e-5, limit=100)
for every basis function at every grid node (all degrees) and at 3 (thorough 5) interior points of every cell
plus two points of the last cell close to x = 1 (fractions 0.97, 0.995 in ln x; degree >= 2), for the singlet (mode0=100) and the non-singlet (mode0=10201) contour.

Oracles
  (a) sharp: the result equals the same integral of an independently derived transform (integration by parts
      formula, vf.ref.c34_mellin) of the x-space pieces along the documented Talbot contour, evaluated in 80-bit
      arithmetic; tolerance 2e-5 absolute (quad's epsrel=1e-5 on O(1) values plus the double-precision
      cancellation against |x^-N| <= 1e9; measured maximum on the unchanged tree 1.6e-6);
  (b) literal statement: the result equals delta_jk at node k, resp. the x-space basis value at interior
      points, up to the part of the inversion integral that the solver's contour cut (u <= 0.95) leaves out;
      that remainder is computed by the same independent reference (and reported: it reaches 5e-2), so the
      tolerance is |remainder| + 2e-5;
  (c) the singlet-like modes use the contour with offset 1, all others offset 0 (eko.mellin docstring).
The pair (last node, last basis function) is skipped exactly as the solver skips it (x = 1: the integrand is
identically 0 and the operator entry is set by initialisation).

Solver cases: the arguments above are typed copies of the solver's; that the solver really integrates this way is
decided by running the real eko.evolution_operator.Operator (real managers of an EKO built from runcards, real
integrate() -> run_op_integration -> quad_ker_ad -> scipy quad) at LO with trivial evolution, i.e. with the coupling
at the target set equal to the one at the origin (non-singlet: exactly, kernel == 1; singlet: a1 = a0 (1 + 1e-13),
because the LO singlet exponential is 0/0 for exactly equal couplings), and comparing every entry of the resulting
operator members with the same two oracles (plus: off-diagonal singlet sectors vanish, the initialised last entry
is the Kronecker value).
"""

import sys

import numpy as np

from vf.core.ctx import HarnessError, Result
from vf.ref import c34_grids as G
from vf.ref import c34_mellin as M

ID = "C35"
LEVEL = "exploration"
TECHNIQUE = "exhaustive (grid x degree x contour x point x basis function) lattice through the real integrand and quad call; independent 80-bit reference of the truncated contour integral"
LEVEL_TEXT = (
    "every basis function of every lattice grid is Mellin-inverted with the solver's own integrand, contour and "
    "quad arguments at every node and at interior points of every cell and compared (2e-5) with an independently "
    "derived contour integral, and with the x-space value up to the independently computed remainder of the "
    "contour cut; the same two comparisons are made for every entry of the members that the real Operator.integrate() "
    "produces with trivial evolution (LO, equal couplings) on 8- and 12-point grids with narrow cells"
)
LEVEL_NOTE = (
    "decides the property on the lattice only; contour parameters r, o are read from eko.mellin.Path (the property "
    "is about the inversion being correct along the solver's path, not about the tuning of r); the x-space pieces "
    "are those of the x-space dispatcher (their correctness is C34); the inherent accuracy of the cut contour "
    "(up to 5e-2 off-node on narrow cells) is reported, not judged"
)
FLOOR_NONTRIVIAL = 20

TOL = 2e-5
CUT = 0.05
SINGLET_LIKE = [100, 21, 90, 22, 101]
OTHERS = [10101, 10201, 10200, 10102, 10103, 10202, 10203, 10204, 91, 200]
CONTOURS = {"singlet": 100, "non-singlet": 10201}


def _points(g, lg, degree, fracs):
    pts = [(float(lg[k]), "node", k) for k in range(len(g))]
    if degree >= 2:
        for c, (a, b) in enumerate(zip(lg, lg[1:])):
            for f in fracs:
                pts.append((float(a + f * (b - a)), "interior", c))
        # close to x = 1 inside the (possibly wide) last cell: exp(N (ln x_min,cell - ln x)) is largest there
        for f in LAST_CELL_FRACS:
            pts.append((float(lg[-2] + f * (lg[-1] - lg[-2])), "interior", len(g) - 2))
    return pts


LAST_CELL_FRACS = [0.97, 0.995]
SOLVER_SHIFT = {"non-singlet": 0.0, "singlet": 1e-13}


def _evaluate_solver(case):
    """The real Operator with trivial evolution: its members are the Mellin inversions of the basis."""
    import os
    import shutil

    import eko.evolution_operator as evop
    from eko import interpolation as I
    from eko import mellin
    from eko.io.struct import EKO
    from eko.matchings import Segment
    from eko.runner import parts
    from vf.core import cards

    res = Result()
    shape, n, xmin, d, cname = case["shape"], case["n"], case["xmin"], case["degree"], case["contour"]
    g = G.make(shape, n, xmin)
    singlet = cname == "singlet"
    shift = SOLVER_SHIFT[cname]
    where0 = f"real Operator, LO, a1=a0*(1+{shift}), shape={shape} n={n} xmin={xmin} degree={d} contour={cname}"
    sig = f"degree={d}"
    cfg = dict(xgrid=list(g), degree=d, is_log=True, mugrid=[[10.0, 4]], order=[1, 0], skip_singlet=not singlet, skip_non_singlet=singlet)
    info = {
        "max_solver_dev_from_reference_integral": 0.0,
        "max_solver_literal_dev": 0.0,
        "max_solver_offdiagonal": 0.0,
        "max_contour_cut_remainder": 0.0,
        "max_reference_selfcheck": 0.0,
        "integrals": 0,
    }
    path = cards.scratch_path("c35")
    e = None
    try:
        th, opc = cards.build(cfg)
        e = EKO.create(path).load_cards(th, opc).build()

        class Trivial(evop.Operator):
            def compute_a(self):
                a0 = super().compute_a()[0]
                return (a0, (a0[0] * (1.0 + shift), a0[1]))

        o = Trivial(parts._evolve_configs(e), parts._managers(e), Segment(1.65**2, 100.0, 4))
        o.initialize_op_members()
        o.integrate()
        labels = [tuple(int(x) for x in l) for l in o.labels]
        members = {tuple(int(x) for x in l): np.array(o.op_members[l].value, dtype=float) for l in o.labels}
        lg = np.log(o.int_disp.xgrid.raw)
    except Exception as exc:  # noqa
        res.fail(f"solver/raises/{sig}", f"{where0}: {type(exc).__name__}: {exc}")
        res.outcome = "solver-raises"
        return res
    finally:
        if e is not None:
            shutil.rmtree(e.metadata.path, ignore_errors=True)
        try:
            os.unlink(path)
        except OSError:
            pass
    want_labels = [(100, 100), (100, 21), (21, 100), (21, 21)] if singlet else [(10101, 0)]
    if sorted(labels) != sorted(want_labels):
        res.fail(f"solver/sectors/{sig}", f"{where0}: sectors integrated {labels}, expected {want_labels}")
        res.outcome = "solver-sectors"
        return res
    diag = [l for l in labels if l[1] == 0 or l[0] == l[1]]
    off = [l for l in labels if l not in diag]
    dx = I.InterpolatorDispatcher(I.XGrid(list(g), log=True), d, mode_N=False)
    for k in range(n):
        lx = float(lg[k])
        pth = mellin.Path(0.7, lx, singlet)
        contour = M.Contour(float(pth.r), float(pth.o), CUT)
        contour_ref = M.Contour(0.4 * 16.0 / (0.1 - lx), 1.0 if singlet else 0.0, CUT)
        for j in range(n):
            where = f"{where0} node k={k} logx={lx!r} basis function j={j}"
            if k == n - 1 and j == n - 1:
                # never integrated: the initialisation has to provide the Kronecker value
                for l in labels:
                    want = 1.0 if l in diag else 0.0
                    if members[l][k][j] != want:
                        res.fail(f"solver/last-entry/{sig}", f"{where} sector {l}: {members[l][k][j]!r}, expected {want}")
                continue
            pieces = [(float(a[0]), float(a[1]), [float(c) for c in a[2:]]) for a in dx[j].areas_representation]
            tr = contour.truncated(lx, pieces)
            rem = contour.remainder(lx, pieces)
            rem_ref = contour_ref.remainder(lx, pieces)
            pv = M.piece_value(lx, pieces)
            sc = abs(tr + rem - pv)
            info["max_reference_selfcheck"] = max(info["max_reference_selfcheck"], sc)
            if sc > 1e-7:
                raise HarnessError(f"reference not self-consistent: {where}: truncated {tr} + remainder {rem} != {pv}")
            info["max_contour_cut_remainder"] = max(info["max_contour_cut_remainder"], abs(rem))
            want = 1.0 if j == k else 0.0
            for l in diag:
                val = float(members[l][k][j])
                info["integrals"] += 1
                if not np.isfinite(val):
                    res.fail(f"solver/non-finite/{sig}", f"{where} sector {l}")
                    continue
                dev = abs(val - tr)
                if dev > TOL:
                    res.fail(
                        f"solver/vs-reference-integral/{sig}",
                        f"{where} sector {l}: operator entry = {val!r}, independent contour integral = {tr!r} "
                        f"(x-space value {pv!r}, contour-cut remainder {rem:.3e}, tol {TOL})",
                    )
                    continue
                info["max_solver_dev_from_reference_integral"] = max(info["max_solver_dev_from_reference_integral"], dev)
                ldev = abs(val - want)
                if ldev > abs(rem_ref) + TOL:
                    res.fail(
                        f"solver/vs-x-space/{sig}",
                        f"{where} sector {l}: operator entry = {val!r}, x-space basis = {want!r}; the contour cut of the reference path explains only {abs(rem_ref):.3e} (+ tol {TOL})",
                    )
                else:
                    info["max_solver_literal_dev"] = max(info["max_solver_literal_dev"], ldev)
            for l in off:
                val = float(members[l][k][j])
                info["integrals"] += 1
                if not (abs(val) <= TOL):
                    res.fail(f"solver/off-diagonal-sector/{sig}", f"{where} sector {l}: operator entry = {val!r}, expected 0 (tol {TOL})")
                else:
                    info["max_solver_offdiagonal"] = max(info["max_solver_offdiagonal"], abs(val))
    res.info = info
    res.nontrivial = info["integrals"] > 0
    res.outcome = f"solver,n={n},degree={d},{cname}"
    return res


def evaluate(case):
    # exp(N (ln x_min,cell - ln x)) overflows harmlessly for points inside wide cells (the term is dropped by the library)
    with np.errstate(over="ignore"):
        return _evaluate(case)


def _evaluate(case):
    if case["kind"] == "solver":
        return _evaluate_solver(case)
    from scipy import integrate

    import eko.evolution_operator  # noqa: F401  (binds the submodule)
    from eko import interpolation as I
    from eko import mellin

    QK = sys.modules["eko.evolution_operator.quad_ker"]
    res = Result()
    if case["kind"] == "offsets":
        bad = []
        for m in SINGLET_LIKE + OTHERS:
            o = QK.QuadKerBase(0.7, True, -1.0, m).path.o
            want = 1.0 if m in SINGLET_LIKE else 0.0
            if float(o) != want:
                bad.append((m, float(o)))
                res.fail(f"QuadKerBase.path/offset/mode0={m}", f"mode0={m}: contour offset {o}, documented {want}")
        res.outcome = "offsets-ok" if not bad else "offsets-bad"
        res.info = {"modes": len(SINGLET_LIKE + OTHERS)}
        return res

    shape, n, xmin, d, cname = case["shape"], case["n"], case["xmin"], case["degree"], case["contour"]
    mode0 = CONTOURS[cname]
    g = G.make(shape, n, xmin)
    where0 = f"shape={shape} n={n} xmin={xmin} degree={d} contour={cname}"
    sig = f"degree={d}"  # both contours share all code but the offset; the contour is named in the message
    dn = I.InterpolatorDispatcher(I.XGrid(list(g), log=True), d, mode_N=True)  # as the solver builds it
    dx = I.InterpolatorDispatcher(I.XGrid(list(g), log=True), d, mode_N=False)
    lg = np.log(dn.xgrid.raw)  # exactly the solver's list of inversion points
    info = {
        "max_dev_from_reference_integral": 0.0,
        "max_literal_dev_node": 0.0,
        "max_literal_dev_interior": 0.0,
        "max_contour_cut_remainder": 0.0,
        "max_reference_selfcheck": 0.0,
        "max_quad_error_estimate": 0.0,
        "integrals": 0,
    }
    nonzero = 0
    allpts = _points(g, lg, d, case["fracs"])
    for lx, kind, idx in allpts[case["block"] :: case["nblocks"]]:
        pth = mellin.Path(0.7, lx, cname == "singlet")
        r, o = float(pth.r), float(pth.o)
        if not (np.isfinite(r) and r > 0.0):
            res.fail(f"mellin.Path/r/{sig}", f"{where0} logx={lx}: r={r}")
            continue
        contour = M.Contour(r, o, CUT)
        # the accuracy demanded of the literal statement is the one of the contour of the pinned implementation
        # (r = 0.4*16/(0.1 - ln x), o = 1 singlet / 0 non-singlet), typed here and NOT read from eko: a path that is
        # still a valid contour but converges worse along the solver's cut fails the literal oracle
        contour_ref = M.Contour(0.4 * 16.0 / (0.1 - lx), 1.0 if cname == "singlet" else 0.0, CUT)
        for j, bf in enumerate(dn):
            if kind == "node" and idx == n - 1 and j == n - 1:
                continue  # skipped by Operator.run_op_integration
            areas = bf.areas_representation

            def f(u, areas=areas, lx=lx):
                return np.real(1.0 * QK.QuadKerBase(u, True, lx, mode0).integrand(areas))

            try:
                out = integrate.quad(f, 0.5, 1.0 - CUT, epsabs=1e-12, epsrel=1e-5, limit=100, full_output=1)
            except Exception as e:  # noqa
                res.fail(f"QuadKerBase.integrand/raises/{sig}", f"{type(e).__name__}: {e} {where0} logx={lx} j={j}")
                continue
            val, err = float(out[0]), float(out[1])
            info["integrals"] += 1
            info["max_quad_error_estimate"] = max(info["max_quad_error_estimate"], err)
            where = f"{where0} {kind}={idx} logx={lx!r} basis function j={j}"
            if not np.isfinite(val):
                res.fail(f"inversion/non-finite/{sig}", where)
                continue
            # ---- independent reference
            pieces = [(float(a[0]), float(a[1]), [float(c) for c in a[2:]]) for a in dx[j].areas_representation]
            tr = contour.truncated(lx, pieces)
            rem = contour.remainder(lx, pieces)
            rem_ref = contour_ref.remainder(lx, pieces)
            pv = M.piece_value(lx, pieces)
            sc = abs(tr + rem - pv)
            info["max_reference_selfcheck"] = max(info["max_reference_selfcheck"], sc)
            if sc > 1e-7:
                raise HarnessError(f"reference not self-consistent: {where}: truncated {tr} + remainder {rem} != {pv}")
            info["max_contour_cut_remainder"] = max(info["max_contour_cut_remainder"], abs(rem))
            # (a) sharp
            dev = abs(val - tr)
            sharp_ok = dev <= TOL
            if not sharp_ok:
                res.fail(
                    f"inversion/vs-reference-integral/{sig}",
                    f"{where}: quad of the solver's integrand = {val!r}, independent contour integral = {tr!r} "
                    f"(x-space value {pv!r}, contour-cut remainder {rem:.3e}, tol {TOL})",
                )
            else:
                info["max_dev_from_reference_integral"] = max(info["max_dev_from_reference_integral"], dev)
            # (b) literal
            if kind == "node":
                want = 1.0 if j == idx else 0.0
            else:
                want = float(dx[j].evaluate_x(float(np.exp(lx))))
            if want != 0.0 or val != 0.0:
                nonzero += 1
            ldev = abs(val - want)
            if ldev > abs(rem_ref) + TOL:
                if sharp_ok:  # otherwise a consequence of the failure already reported
                    res.fail(
                        f"inversion/vs-x-space/{sig}",
                        f"{where}: inversion = {val!r}, x-space basis = {want!r}; the contour cut of the reference path explains only {abs(rem_ref):.3e} (+ tol {TOL}; actual path: {abs(rem):.3e})",
                    )
            else:
                key = "max_literal_dev_node" if kind == "node" else "max_literal_dev_interior"
                info[key] = max(info[key], ldev)
    res.info = info
    res.nontrivial = info["integrals"] > 0 and nonzero > 0
    res.outcome = f"n={n},degree={d},{cname}"
    if case["nblocks"] > 1:
        res.outcome += f",blocks={case['nblocks']}"
    return res


def run(ctx):
    thorough = ctx.thorough()
    if thorough:
        shapes, sizes, xmins = ["geometric", "loglin", "irregular", "lambert"], [4, 6, 8, 12], [1e-6, 1e-4, 1e-3, 0.1]
        fracs = [0.1, 0.25, 0.5, 0.75, 0.9]
    else:
        shapes, sizes, xmins = ["geometric"], [4, 8, 12], [1e-6, 1e-3, 0.1]
        fracs = [0.25, 0.5, 0.75]
    cases = []
    combos = [(s, n, x) for s in shapes for n in sizes for x in xmins]
    if not thorough:
        combos += [("irregular", 8, 1e-3), ("loglin", 12, 1e-6)]
    for shape, n, xmin in combos:
        if G.make(shape, n, xmin) is None:
            continue
        for d in (1, 2, 3, 4):
            if n <= d:
                continue
            # the inversion points of one (grid, degree, contour) are dealt round-robin into blocks of
            # about 100 integrals so that no single case dominates the wall time
            npts = n + ((len(fracs) * (n - 1) + len(LAST_CELL_FRACS)) if d >= 2 else 0)
            nblocks = max(1, round(npts * n * (d + 1) / 300))
            for cname in CONTOURS:
                for b in range(nblocks):
                    cases.append(
                        {"kind": "invert", "shape": shape, "n": n, "xmin": xmin, "degree": d, "contour": cname,
                         "fracs": fracs, "block": b, "nblocks": nblocks}
                    )
    cases.append({"kind": "offsets"})
    # grids with narrow cells: there the part of the inversion that the contour cut leaves out is 10-300 x the tolerance,
    # so the solver's cut, limits and accuracy settings matter for the comparison
    solver = [("irregular", 8, 1e-3, 1), ("irregular", 8, 1e-3, 3), ("irregular", 12, 0.1, 2)]
    if thorough:
        solver += [("irregular", 8, 1e-3, 2), ("irregular", 8, 1e-3, 4), ("irregular", 12, 0.1, 1), ("irregular", 12, 0.1, 4),
                   ("geometric", 12, 0.1, 1), ("geometric", 6, 1e-4, 3), ("geometric", 8, 1e-6, 2)]
    for shape, n, xmin, d in solver:
        for cname in CONTOURS:
            cases.append({"kind": "solver", "shape": shape, "n": n, "xmin": xmin, "degree": d, "contour": cname})
    results = ctx.run_cases(cases, evaluate, chunksize=1)
    nint = sum((r[1][3] or {}).get("integrals", 0) for r in results)
    ctx.rule = (
        f"complete product of grid families {shapes} x sizes {sizes} x x_min {xmins} "
        + ("" if thorough else "(+ one irregular 8-point and one log-lin 12-point grid) ")
        + "x degree 1..4 (< size) x {singlet, non-singlet} contour; per case every inversion point in "
        f"{{all nodes}} + (degree>=2) {{fractions {fracs} of every cell in ln x}} x every basis function "
        f"(solver-skipped pair excluded): {nint} quad integrations of the real integrand; plus the contour offset "
        f"of {len(SINGLET_LIKE + OTHERS)} sector ids; plus {2 * len(solver)} solver cases (grid, degree) in {solver} x {{non-singlet, singlet}}: "
        "every entry of every member of the real LO Operator integrated with trivial evolution; "
        "non-trivial = at least one non-zero value inverted"
    )
    ctx.assumptions += [
        "trivial evolution: the kernel factor multiplying QuadKerBase.integrand is exactly 1 (as in quad_ker_ad: Re(ker*integrand))",
        "quad arguments copied from Operator.run_op_integration: limits 0.5..0.95, epsabs=1e-12, epsrel=1e-5, limit=100; "
        "the solver cases run Operator.integrate() itself and are held to the same references",
        "solver cases: trivial evolution = Operator.compute_a overridden so that a_s(target) = a_s(origin) (non-singlet, LO kernel exactly 1) "
        "resp. a_s(origin)*(1+1e-13) (singlet: the LO singlet exponential is undefined at exactly equal couplings); the operator entries "
        "then differ from those of the unit kernel by < 1e-7 (measured: off-diagonal sectors <= 4e-8, recorded); Operator.compute() itself "
        "returns the identity without integrating when origin == target",
        "tolerance 2e-5 absolute against the independent integral (measured max 1.6e-6, dominated by double-precision "
        "cancellation against |x^-N| ~ 1e9 at x=1e-6); against the x-space value the independently computed remainder "
        "of the contour cut is added (measured up to 5e-2 off-node, 1.2e-2 at nodes on 12-point irregular grids)",
        "Talbot parameters r, o taken from eko.mellin.Path; contour formula and Jacobian typed from the definition",
        "the (x=1, last basis function) entry is skipped as the solver does",
    ]
