"""C11 every solution, scale-variation and matching prescription conserves sum rules.

Towers with the conservation constraint imposed exactly (dyadic entries, columns summing to zero against
the conserved covector) are pushed through every kernel / prescription; covector . K must equal the
covector.  The oracle is the statement itself (left action of the conserved covector); no eko formula is
reused.
"""

import math

import numpy as np

from vf.core.ctx import Result
from vf.ref import c11_towers as tw

ID = "C11"
LEVEL = "exploration"
TECHNIQUE = "exhaustive product of constrained towers x orders x methods x iterations x couplings; left action of the conserved covector"
LEVEL_TEXT = (
    "for every order, evolution method, iteration count, coupling pair, scale-variation prescription (expanded and "
    "exponentiated, QCD and QED) and matching direction (forward, exact and expanded inverse) the conserved covector is "
    "applied from the left to the kernel built from exactly-constrained anomalous dimensions / matching elements"
)
LEVEL_NOTE = (
    "decides the property on the lattice only; whether the physical anomalous dimensions satisfy the premise is C25/C29; "
    "tolerance 1e-12 relative to max(1, |K|). Conservation is a STRUCTURAL property: every prescription is a polynomial in (or the "
    "exponential / inverse of) left-annihilated matrices plus the identity, so a wrong numerical coefficient, beta value, nf, sign or "
    "matrix order conserves the covector just as well. This check notices exactly: a scalar added to / broadcast onto a matrix, an "
    "element-wise instead of a matrix product, a missing identity, a wrong basis index, a non-finite entry. A pass is no evidence that "
    "a prescription is correct (that is C08/C12/C14 and the scale-variation properties)"
)
FLOOR_NONTRIVIAL = 30

TOL = 1e-12  # measured 7.5e-15 (quick) / 1.1e-14 (thorough); a structural break is >= a^3 |gamma_3| ~ 1e-5 at the smallest coupling
PAIRS = [[0.03, 0.0125], [0.0125, 0.03], [0.05, 0.002], [0.005, 0.005]]
PAIRS_THOROUGH = PAIRS + [[0.002, 0.05], [0.0125, 0.005], [0.03, 0.05]]
ITERS = [1, 2, 5, 50]
LS = [None, -1.3862943611198906, 0.5, 1.3862943611198906]  # None = no exponentiated variation; ln(1/4), 0.5, ln 4
V2 = np.array([1.0, 1.0])
V3 = np.array([1.0, 1.0, 1.0])
V4 = np.array([1.0, 1.0, 1.0, 0.0])
QED_ORDERS = [[1, 1], [1, 2], [2, 1], [2, 2], [3, 1], [3, 2], [4, 1], [4, 2]]


class Acc:
    def __init__(self, res):
        self.res = res
        self.info = {}
        self.n = 0

    def conserve(self, sig, where, v, K, what="kernel"):
        """v . K == v ?"""
        K = np.asarray(K)
        self.n += 1
        if not np.all(np.isfinite(K)):
            self.res.fail(sig + "/nonfinite", f"{where}: {what} = {K.tolist()}")
            return
        dev = float(np.abs(v @ K - v).max() / max(1.0, float(np.abs(K).max())))
        self.info["max_dev_over_tol"] = max(self.info.get("max_dev_over_tol", 0.0), dev / TOL)
        if not dev <= TOL:
            self.res.fail(sig, f"{where}: covector {v.tolist()} . {what} = {(v @ K).tolist()} (relative deviation {dev:.3e}); {what}={K.tolist()}")

    def annihilate(self, sig, where, v, G, what="gamma"):
        """v . G == 0 ?"""
        G = np.asarray(G)
        self.n += 1
        if not np.all(np.isfinite(G)):
            self.res.fail(sig + "/nonfinite", f"{where}: {what} = {G.tolist()}")
            return
        dev = float(np.abs(v @ G).max() / max(1.0, float(np.abs(G).max())))
        self.info["max_dev_over_tol"] = max(self.info.get("max_dev_over_tol", 0.0), dev / TOL)
        if not dev <= TOL:
            self.res.fail(sig, f"{where}: covector {v.tolist()} . {what} = {(v @ G).tolist()} != 0; {what}={G.tolist()}")

    def unit(self, sig, where, K, what="kernel"):
        K = np.asarray(K)
        self.n += 1
        one = np.eye(K.shape[0]) if K.ndim == 2 else 1.0
        ok = np.all(np.isfinite(K))
        dev = float(np.abs(K - one).max()) if ok else math.inf
        self.info["max_dev_over_tol"] = max(self.info.get("max_dev_over_tol", 0.0), dev / TOL if ok else 0.0)
        if not dev <= TOL:
            self.res.fail(sig, f"{where}: {what} = {K.tolist()} instead of the identity")


def _methods():
    from eko.kernels import EvoMethods as EM

    return list(EM)


# ---------------------------------------------------------------------------------------------- QCD singlet
def part_singlet(case, acc):
    from eko.kernels import EvoMethods as EM
    from eko.kernels import singlet as s
    from eko.scale_variations import expanded as sv_exp
    from eko.scale_variations import exponentiated as sv_expo

    name, order, nf = case["tower"], case["order"], case["nf"]
    iter_methods = (EM.ITERATE_EXACT, EM.ITERATE_EXPANDED, EM.PERTURBATIVE_EXACT, EM.PERTURBATIVE_EXPANDED)
    for L in LS:
        g0 = tw.arr(tw.MOMENTUM2[name])[:order]
        Ltag = "none" if L is None else "L"
        if L is not None:
            sig = f"exponentiated.gamma_variation/order={order}"
            try:
                g = sv_expo.gamma_variation(g0.copy(), (order, 0), nf, L)
            except Exception as e:  # noqa
                acc.res.fail(sig + "/raises", f"tower={name} nf={nf} L={L}: {type(e).__name__}: {e}")
                continue
            for k in range(order):
                acc.annihilate(sig, f"tower={name} nf={nf} L={L} k={k}", V2, g[k], "varied gamma_k")
        else:
            g = g0
        for a0, a1 in case["pairs"]:
            for m in _methods():
                for its in ITERS if m in iter_methods else [ITERS[0]]:
                    for K in (3, 10) if m in iter_methods[2:] else (10,):
                        sig = f"singlet.dispatcher/order={order}/method={m.name}/sv={Ltag}"
                        where = f"tower={name} nf={nf} a0={a0} a1={a1} iterations={its} max_order={K} L={L}"
                        try:
                            ker = s.dispatcher((order, 0), m, g.copy(), a1, a0, nf, its, (K, 0))
                        except Exception as e:  # noqa
                            acc.res.fail(sig + "/raises", f"{where}: {type(e).__name__}: {e}")
                            continue
                        acc.conserve(sig, where, V2, ker)
                        if L is None and m == EM.ITERATE_EXACT and its == ITERS[0]:
                            # expanded scale variation: factor alone and factor @ kernel (as in quad_ker_qcd)
                            for Lx in LS[1:]:
                                sg = f"expanded.singlet_variation/order={order}"
                                try:
                                    f = sv_exp.singlet_variation(g.copy(), a1, (order, 0), nf, Lx, 2)
                                except Exception as e:  # noqa
                                    acc.res.fail(sg + "/raises", f"{where} L={Lx}: {type(e).__name__}: {e}")
                                    continue
                                acc.conserve(sg, f"{where} L={Lx}", V2, f, "sv factor")
                                acc.conserve(sg + "/times-kernel", f"{where} L={Lx}", V2, np.asarray(f) @ np.asarray(ker), "sv factor @ kernel")
    return f"singlet/order={order}"


# ---------------------------------------------------------------------------------------------- QED singlet
def _qed_steps(variant, a0, a1, e0, n):
    if a0 == a1:
        return np.full(n + 1, a0), np.stack([np.full(n, a0), np.full(n, e0)], axis=1)
    s = np.arange(n + 1) / n
    sm = (s[1:] + s[:-1]) / 2
    if variant == "geom":
        al = np.geomspace(a0, a1, n + 1)
        ah = (al[1:] + al[:-1]) / 2
        e = np.full(n, e0)
    else:
        f = lambda t: 1.0 / (1.0 / a0 + t * (1.0 / a1 - 1.0 / a0))
        al, ah = f(s), f(sm)
        e = e0 * (1.0 + 0.3 * (ah - a0) / (a1 - a0))
    return al, np.stack([ah, e], axis=1)


def part_qed_singlet(case, acc):
    from eko.kernels import EvoMethods as EM
    from eko.kernels import singlet_qed as sq
    from eko.scale_variations import expanded as sv_exp
    from eko.scale_variations import exponentiated as sv_expo

    name, (o0, o1), nf = case["tower"], case["order"], case["nf"]
    for L in LS:
        for running in (False, True) if L is not None else (False,):
            g0 = tw.qed_singlet_momentum(name, o0, o1)
            Ltag = "none" if L is None else "L"
            if L is not None:
                sig = f"exponentiated.gamma_variation_qed/order=({o0},{o1})/em_running={running}"
                where = f"tower={name} nf={nf} L={L}"
                work = g0.copy()
                try:
                    g = sv_expo.gamma_variation_qed(work, (o0, o1), nf, 3, L, running)
                except Exception as e:  # noqa
                    acc.res.fail(sig + "/raises", f"{where}: {type(e).__name__}: {e}")
                    continue
                if g is None:
                    # quad_ker_qed uses the return value as the new anomalous dimension
                    acc.res.fail(
                        f"exponentiated.gamma_variation_qed/returns-None/em_running={running}",
                        f"{where} order=({o0},{o1}): the varied anomalous dimension is None (no factor is produced at all); "
                        "continuing with the array that was modified in place",
                    )
                    g = work
                for i in range(o0 + 1):
                    for j in range(o1 + 1):
                        acc.annihilate(sig, f"{where} entry=({i},{j})", V4, g[i, j], "varied gamma")
            else:
                g = g0
            for a0, a1 in case["pairs"]:
                for variant in ("geom", "param"):
                    for e0 in (0.0006, 0.004):
                        for its in ITERS:
                            al, ah = _qed_steps(variant, a0, a1, e0, its)
                            sig = f"singlet_qed.dispatcher/order=({o0},{o1})/sv={Ltag}"
                            where = f"tower={name} nf={nf} a0={a0} a1={a1} steps={variant} aem={e0} iterations={its} L={L} em_running={running}"
                            try:
                                ker = sq.dispatcher((o0, o1), EM.ITERATE_EXACT, g.copy(), al, ah, nf, its, (10, 0))
                            except Exception as e:  # noqa
                                acc.res.fail(sig + "/raises", f"{where}: {type(e).__name__}: {e}")
                                continue
                            acc.conserve(sig, where, V4, ker)
                            if L is None and its == ITERS[0]:
                                for Lx in LS[1:]:
                                    for run2 in (False, True):
                                        sg = f"expanded.singlet_variation_qed/order=({o0},{o1})/em_running={run2}"
                                        try:
                                            f = sv_exp.singlet_variation_qed(g.copy(), al[-1], ah[-1][1], run2, (o0, o1), nf, Lx)
                                        except Exception as e:  # noqa
                                            acc.res.fail(sg + "/raises", f"{where} L={Lx}: {type(e).__name__}: {e}")
                                            continue
                                        acc.conserve(sg, f"{where} L={Lx}", V4, f, "sv factor")
                                        acc.conserve(sg + "/times-kernel", f"{where} L={Lx}", V4, np.asarray(f) @ np.asarray(ker), "sv factor @ kernel")
    return f"qed-singlet/order=({o0},{o1})"


# ---------------------------------------------------------------------------------------------- quark number
def part_number(case, acc):
    """At N = 1 the non-singlet(-like) anomalous dimensions vanish: every kernel must be exactly trivial."""
    from eko.kernels import EvoMethods as EM
    from eko.kernels import non_singlet as ns
    from eko.kernels import non_singlet_qed as nsq
    from eko.kernels import valence_qed as vq
    from eko.scale_variations import expanded as sv_exp
    from eko.scale_variations import exponentiated as sv_expo

    nf = case["nf"]
    for order in (1, 2, 3, 4):
        for L in LS:
            g = np.zeros(order, dtype=complex)
            if L is not None:
                g = sv_expo.gamma_variation(g, (order, 0), nf, L)
                acc.unit(f"exponentiated.gamma_variation/ns/order={order}", f"nf={nf} L={L}", 1.0 + np.abs(np.asarray(g)).max(), "1 + |varied gamma|")
            for a0, a1 in case["pairs"]:
                for m in _methods():
                    sig = f"non_singlet.dispatcher/order={order}/method={m.name}"
                    where = f"gamma=0 nf={nf} a0={a0} a1={a1} L={L}"
                    try:
                        acc.unit(sig, where, np.asarray(ns.dispatcher((order, 0), m, g.copy(), a1, a0, nf)))
                    except Exception as e:  # noqa
                        acc.res.fail(sig + "/raises", f"{where}: {type(e).__name__}: {e}")
                if L is not None:
                    acc.unit(
                        f"expanded.non_singlet_variation/order={order}",
                        f"gamma=0 nf={nf} a={a1} L={L}",
                        np.asarray(sv_exp.non_singlet_variation(np.zeros(order, dtype=complex), a1, (order, 0), nf, L)),
                        "sv factor",
                    )
    for o0, o1 in QED_ORDERS:
        for a0, a1 in case["pairs"]:
            for its in ITERS:
                al, ah = _qed_steps("param", a0, a1, 0.004, its)
                where = f"gamma=0 order=({o0},{o1}) nf={nf} a0={a0} a1={a1} iterations={its}"
                sig = f"non_singlet_qed.dispatcher/order=({o0},{o1})"
                try:
                    k = nsq.dispatcher((o0, o1), EM.ITERATE_EXACT, np.zeros((o0 + 1, o1 + 1), dtype=complex), al, ah[:, 1], True, nf, its, 10.0, 1000.0)
                    acc.unit(sig, where, np.asarray(k))
                except Exception as e:  # noqa
                    acc.res.fail(sig + "/raises", f"{where}: {type(e).__name__}: {e}")
                sig = f"valence_qed.dispatcher/order=({o0},{o1})"
                try:
                    k = vq.dispatcher((o0, o1), EM.ITERATE_EXACT, np.zeros((o0 + 1, o1 + 1, 2, 2), dtype=complex), al, ah, nf, its, (10, 0))
                    acc.unit(sig, where, np.asarray(k))
                except Exception as e:  # noqa
                    acc.res.fail(sig + "/raises", f"{where}: {type(e).__name__}: {e}")
            for L in LS[1:]:
                for running in (False, True):
                    where = f"gamma=0 order=({o0},{o1}) nf={nf} a={a1} L={L} em_running={running}"
                    try:
                        acc.unit(
                            f"expanded.valence_variation_qed/order=({o0},{o1})",
                            where,
                            np.asarray(sv_exp.valence_variation_qed(np.zeros((o0 + 1, o1 + 1, 2, 2), dtype=complex), a1, 0.004, running, (o0, o1), nf, L)),
                            "sv factor",
                        )
                        acc.unit(
                            f"expanded.non_singlet_variation_qed/order=({o0},{o1})",
                            where,
                            np.asarray(sv_exp.non_singlet_variation_qed(np.zeros((o0 + 1, o1 + 1), dtype=complex), a1, 0.004, running, (o0, o1), nf, L)),
                            "sv factor",
                        )
                    except Exception as e:  # noqa
                        acc.res.fail(f"expanded.*_variation_qed/order=({o0},{o1})/raises", f"{where}: {type(e).__name__}: {e}")
    return "quark-number"


# ---------------------------------------------------------------------------------------------- matching
def part_ome(case, acc):
    from eko.evolution_operator.quad_ker import MatchingMethods as MM
    from eko.evolution_operator.quad_ker import build_ome
    from eko.scale_variations import exponentiated as sv_expo

    name, dim, nf = case["tower"], case["dim"], case["nf"]
    A0 = (tw.MATCHING3 if dim == 3 else tw.MATCHING2)[name]
    v = V3 if dim == 3 else V2
    for mo in (0, 1, 2, 3):
        for L in LS:
            A = A0.copy()
            if L is not None:
                # as in quad_ker_ome: the exponentiated variation acts on the matching elements
                A = sv_expo.gamma_variation(A, (mo, 0), nf, L)
                for k in range(3):
                    acc.annihilate(f"exponentiated.gamma_variation/ome/order={mo}", f"tower={name} dim={dim} nf={nf} L={L} k={k}", v, A[k], "varied A_k")
            for a_s in (0.002, 0.0125, 0.03, 0.05):
                for method in (MM.FORWARD, MM.BACKWARD_EXACT, MM.BACKWARD_EXPANDED, None):
                    mname = "None" if method is None else method.name
                    sig = f"build_ome/dim={dim}/matching_order={mo}/method={mname}/sv={'none' if L is None else 'L'}"
                    where = f"tower={name} nf={nf} a_s={a_s} L={L}"
                    try:
                        ome = build_ome(A.copy(), (mo, 0), a_s, method)
                    except Exception as e:  # noqa
                        acc.res.fail(sig + "/raises", f"{where}: {type(e).__name__}: {e}")
                        continue
                    acc.conserve(sig, where, v, ome, "matching operator")
    return f"ome/dim={dim}"


PARTS = {"singlet": part_singlet, "qed-singlet": part_qed_singlet, "number": part_number, "ome": part_ome}


def evaluate(case):
    res = Result()
    acc = Acc(res)
    with np.errstate(all="ignore"):
        cls = PARTS[case["part"]](case, acc)
    acc.info["checks"] = acc.n
    res.info = acc.info
    res.nontrivial = acc.n > 0
    res.outcome = cls + ("/ok" if not res.fails else "/fail")
    return res


def cases(tier):
    th = tier == "thorough"
    pairs = PAIRS_THOROUGH if th else PAIRS
    nfs = (3, 4, 5, 6)
    out = []
    for name in tw.MOMENTUM2:
        for order in (1, 2, 3, 4):
            for nf in nfs:
                out.append({"part": "singlet", "tower": name, "order": order, "nf": nf, "pairs": pairs})
    for name in ("real", "cplx"):
        for order in QED_ORDERS:
            for nf in nfs if th else (3, 6):
                out.append({"part": "qed-singlet", "tower": name, "order": order, "nf": nf, "pairs": pairs if th else PAIRS[:2] + PAIRS[3:]})
    for nf in nfs:
        out.append({"part": "number", "nf": nf, "pairs": pairs})
    for name in ("real", "cplx"):
        for dim in (2, 3):
            for nf in nfs:
                out.append({"part": "ome", "tower": name, "dim": dim, "nf": nf})
    return out


def run(ctx):
    cs = cases(ctx.tier)
    results = ctx.run_cases(cs, evaluate, chunksize=1)
    nchecks = sum((r[1][3] or {}).get("checks", 0) for r in results)
    ctx.extra.update(conservation_checks=nchecks)
    ctx.rule = (
        "complete products. QCD singlet: 3 momentum-conserving towers x order 1-4 x nf 3-6 x all 8 methods x iterations {1,2,5,50} "
        "x ev_op_max_order {3,10} x coupling pairs (both directions, long, equal) x exponentiated variation L in {none, ln 1/4, 0.5, ln 4} "
        "+ expanded variation factor alone and times kernel. QED singlet: 2 towers conserving (1,1,1,0) x 8 orders x nf x 2 step shapes x 2 a_em "
        "x iterations x exponentiated (em running on/off) / expanded (on/off) variation. Quark number: vanishing towers through every NS, QED-NS, "
        "QED-valence kernel and variation. Matching: build_ome on 2x2 and 3x3 constrained elements x matching order 0-3 x 4 couplings x "
        "{forward, exact inverse, expanded inverse, None} x exponentiated variation; a case = one (part, tower, order, nf) block; "
        f"{nchecks} covector applications; non-trivial = all"
    )
    ctx.assumptions += [
        "conserved covectors: (1,1) in (S,g); (1,1,1,0) in (g,ph,S,Sdelta); (1,1,1) in (g,S,H+); (1,1) in (V,H-); quark number = vanishing NS-like towers",
        "the constraint holds exactly in double precision (dyadic entries)",
        f"tolerance {TOL} relative to max(1,|K|)",
    ]
