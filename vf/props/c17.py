"""C17 coupling evaluations are independent of the evaluation history (X-hist).

Breadth-first exploration of query histories on real Couplings objects.  An operation is either a
query a(scale, nf_to) or the caller action "overwrite the array returned by the previous query
with NaN".  After every step the answer must be bit-identical to the answer of a freshly built
object asked the same single question.  A state is (set of memo keys, digest of the memo values and
of a_ref, last operation); histories reaching an already seen state are not extended.
"""

import hashlib
import math

from vf.core.ctx import Result

ID = "C17"
LEVEL = "model_checking"
TECHNIQUE = "explicit-state BFS over query/mutation histories of real Couplings objects against fresh-object answers"
LEVEL_TEXT = (
    "all histories up to the stated depth over the stated alphabet are replayed on the real object; every "
    "answer is compared bit by bit with a freshly constructed object's; states deduplicated on the memo content"
)
LEVEL_NOTE = (
    "bounded by depth (2 quick / 3 thorough) and by the alphabet (scales on / around every matching scale, the "
    "reference, both sides of m_tau; nf_to in {None,3,4,5,6}); merged states have equal futures because the "
    "object's only mutable state is the memo dict and a_ref, both part of the state key"
)
FLOOR_NONTRIVIAL = 20

# matching scales are perfect squares so that a reference point can sit on one of them bit-exactly
WALLS = [4.0, 12.25, 30625.0]  # (2 GeV)^2, (3.5 GeV)^2, (175 GeV)^2
RATIOS = [2.0, 0.5, 1.0]
M2 = [w / r for w, r in zip(WALLS, RATIOS)]

CONFIGS = [
    # order, method, running, scheme, ref (mu, nf)
    dict(order=[1, 0], method="expanded", running=False, scheme="POLE", ref=[91.2, 5]),
    dict(order=[3, 0], method="expanded", running=False, scheme="POLE", ref=[math.sqrt(WALLS[1]), 5]),
    # continuous matching (LO / NLO with mu=m) with the reference on the wall: segments of two different nf
    # start from the same coupling at the same scale
    dict(order=[1, 0], method="expanded", running=False, scheme="POLE", ref=[math.sqrt(WALLS[1]), 5]),
    dict(order=[2, 0], method="expanded", running=False, scheme="MSBAR", ref=[math.sqrt(WALLS[2]), 6]),
    dict(order=[4, 0], method="expanded", running=False, scheme="MSBAR", ref=[91.2, 5]),
    dict(order=[2, 1], method="expanded", running=True, scheme="POLE", ref=[1.8, 3]),
    dict(order=[3, 2], method="expanded", running=True, scheme="MSBAR", ref=[math.sqrt(WALLS[0]), 4]),
    dict(order=[3, 2], method="expanded", running=False, scheme="POLE", ref=[91.2, 5]),
    dict(order=[2, 0], method="expanded", running=False, scheme="POLE", ref=[3.0, None]),
    dict(order=[4, 0], method="expanded", running=True, scheme="POLE", ref=[300.0, 6]),
    dict(order=[3, 0], method="exact", running=False, scheme="POLE", ref=[math.sqrt(WALLS[1]), 5]),
    dict(order=[2, 1], method="exact", running=True, scheme="MSBAR", ref=[1.8, 3]),
    dict(order=[1, 0], method="exact", running=False, scheme="POLE", ref=[91.2, 5]),
    dict(order=[4, 2], method="exact", running=False, scheme="POLE", ref=[91.2, 4]),
]


def scales_for(cfg, small):
    ref2 = cfg["ref"][0] ** 2
    if small:
        return [ref2, WALLS[0], 1.1 * WALLS[1], 3.0, 3.3]
    out = [ref2, 3.0, 3.3]
    for w in WALLS:
        out += [0.9 * w, w, 1.1 * w]
    return out


def alphabet_for(cfg, small):
    nfs = [None, 4, 5] if small else [None, 3, 4, 5, 6]
    ops = [["q", s, nf] for s in scales_for(cfg, small) for nf in nfs]
    ops.append(["mut"])
    return ops


def _build(cfg):
    from vf.ref.c15_mk import make_couplings

    return make_couplings(
        cfg["order"], cfg["running"], cfg["method"], tuple(cfg["ref"]), 0.118 if cfg["ref"][0] > 50 else 0.3, 0.0075, M2, RATIOS, cfg["scheme"]
    )


_FRESH = {}


def _fresh_answer(cfg, op):
    key = (repr(cfg), repr(op))
    if key not in _FRESH:
        import numpy as np

        c = _build(cfg)
        _FRESH[key] = np.array(c.a(op[1], op[2]), dtype=float).tobytes()
    return _FRESH[key]


def _state_key(c, last_op):
    h = hashlib.sha1()
    keys = sorted(c.cache.keys(), key=repr)
    for k in keys:
        h.update(repr(k).encode())
        h.update(c.cache[k].tobytes())
    h.update(c.a_ref.tobytes())
    return f"{len(keys)}:{h.hexdigest()[:20]}:{last_op!r}"


def evaluate(case):
    import warnings

    import numpy as np

    cfg = case["cfg"]
    hist = list(case["history"]) + [case["op"]]
    res = Result()
    sigbase = f"Couplings.a/history/{cfg['method']}"
    with warnings.catch_warnings():
        warnings.simplefilter("ignore")
        c = _build(cfg)
        a_ref0 = c.a_ref.tobytes()
        last = None
        served_from_cache = 0
        last_was_hit = False
        for i, op in enumerate(hist):
            if op[0] == "mut":
                if last is not None:
                    last[...] = np.nan
                last_was_hit = False
                continue
            before = len(c.cache)
            try:
                got = c.a(op[1], op[2])
            except Exception as e:  # noqa
                res.fail(sigbase + "/raises", f"cfg={cfg} history={hist[: i + 1]}: {type(e).__name__}: {e}")
                return res
            want = _fresh_answer(cfg, op)
            gb = np.array(got, dtype=float).tobytes()
            last_was_hit = len(c.cache) == before and len(c.cache) > 0 and not math.isclose(op[1], cfg["ref"][0] ** 2)
            served_from_cache += last_was_hit
            if gb != want:
                kind = "after-caller-mutation" if ["mut"] in hist[:i] else "after-queries"
                res.fail(
                    f"{sigbase}/{kind}",
                    f"cfg={cfg}: after history {hist[:i]} the query {op} returns "
                    f"{np.array(got).tolist()} but a fresh object returns {np.frombuffer(want).tolist()}",
                )
                return res
            last = got
        if c.a_ref.tobytes() != a_ref0:
            res.fail(sigbase + "/a_ref-changed", f"cfg={cfg} history={hist}: a_ref changed to {c.a_ref.tolist()}")
            return res
        state = _state_key(c, case["op"])
        ncache = len(c.cache)
        # closing probe (part of the oracle, not of the history): every query of the history is asked once
        # more; whatever the history left behind in the object must not show in any of these answers
        seen = []
        for op in hist:
            if op[0] == "q" and op not in seen:
                seen.append(op)
        for op in seen:
            try:
                got = np.array(c.a(op[1], op[2]), dtype=float)
            except Exception as e:  # noqa
                res.fail(sigbase + "/raises", f"cfg={cfg} history={hist} then {op}: {type(e).__name__}: {e}")
                return res
            if got.tobytes() != _fresh_answer(cfg, op):
                kind = "after-caller-mutation" if ["mut"] in hist else "after-queries"
                res.fail(
                    f"{sigbase}/{kind}",
                    f"cfg={cfg}: after history {hist} the (repeated) query {op} returns {got.tolist()} but a fresh "
                    f"object returns {np.frombuffer(_fresh_answer(cfg, op)).tolist()}",
                )
                return res
        # second closing probe: the caller scribbles on the last array it received, then every query is repeated
        if last is not None and not res.fails:
            try:
                last[...] = np.nan
            except Exception:  # noqa - a read-only or scalar return cannot be scribbled on
                pass
            else:
                for op in seen:
                    try:
                        got = np.array(c.a(op[1], op[2]), dtype=float)
                    except Exception as e:  # noqa
                        res.fail(sigbase + "/raises", f"cfg={cfg} history={hist} then mutation then {op}: {type(e).__name__}: {e}")
                        return res
                    if got.tobytes() != _fresh_answer(cfg, op):
                        res.fail(
                            f"{sigbase}/after-caller-mutation",
                            f"cfg={cfg}: after history {hist}, the caller overwriting the last returned array, the query {op} "
                            f"returns {got.tolist()} but a fresh object returns {np.frombuffer(_fresh_answer(cfg, op)).tolist()}",
                        )
                        return res
    res.info = {"state": state, "max_cache_entries": ncache, "hits": served_from_cache}
    res.nontrivial = served_from_cache > 0 or (case["op"][0] == "mut" and len(hist) > 1)
    res.outcome = f"{'mut' if case['op'][0] == 'mut' else 'query'}/cachehit={last_was_hit}/entries={min(ncache, 6)}"
    return res


def run(ctx):
    from vf.core import hist

    thorough = ctx.thorough()
    nconf = 0
    sizes = []
    for cfg in CONFIGS:
        exact = cfg["method"] == "exact"
        # exact-method objects cost ~50 ms per query: small alphabet; depth 2 (quick) / 3 (thorough)
        # expanded-method objects: full alphabet; depth 2 (quick) / 3 (thorough)
        alpha = alphabet_for(cfg, exact)
        hist.bfs(ctx, alpha, evaluate, 3 if thorough else 2, extra_case={"cfg": cfg})
        # deep exploration on a tiny alphabet (repeat a query, mutate, repeat again needs >= 4 steps): 3 queries + mutation
        tiny = [["q", cfg["ref"][0] ** 2, cfg["ref"][1]], ["q", 3.0, None], ["q", 1.1 * WALLS[1], None], ["mut"]]
        deep = (4 if exact else 5) + (1 if thorough else 0)
        hist.bfs(ctx, tiny, evaluate, deep, init_key="<deep>", extra_case={"cfg": cfg})
        sizes.append(len(alpha))
        nconf += 1
    ctx.rule = (
        f"{nconf} object configurations (orders (1,0),(2,0),(3,0),(4,0),(2,1),(3,2),(4,2) x exact/expanded x em_running x "
        "POLE/MSBAR, reference inside a patch / on a matching scale / with non-default or default nf, matching ratios "
        "2, 0.5, 1); alphabet = query (scale, nf_to) with scale in {reference, 0.9/1/1.1 x each matching scale, 3.0 and 3.3 "
        "GeV^2 around m_tau^2} x nf_to in {None,3,4,5,6} (61 letters; exact-method objects: 5 scales x "
        "{None,4,5} = 16 letters) + 'overwrite the previously returned array with NaN'; BFS to depth 2 (quick) / [plus a second BFS on a 4-letter alphabet (reference point, 3.0, 1.1 x bottom wall, mutation) to depth 5 (exact objects 4), thorough +1] "
        "depth 3 (thorough), every explored history closed by a probe repeating its queries; states deduplicated on (memo keys, "
        "memo values, a_ref, last op); non-trivial = a query answered entirely from the memo, or a caller mutation "
        "after a query"
    )
    ctx.assumptions += [
        "bit-identity with a fresh object's answer is the oracle (the fresh object itself is C15/C16's subject)",
        "histories longer than the depth bound and scales off the alphabet are not explored",
        "a history whose step fails is reported and not extended",
    ]
