"""C17 coupling evaluations are independent of the evaluation history (X-hist).

Breadth-first exploration of query histories on real Couplings objects.  An operation is either a
query a(scale, nf_to) or the caller action "overwrite the array returned by the previous query
with NaN".  After every step the answer must be bit-identical to the answer of a freshly built
object asked the same single question.  A state is (set of memo keys, digest of the memo values and
of a_ref, last operation); histories reaching an already seen state are not extended.
"""

import hashlib
import math

from vf.core.ctx import Result

ID = "C17"
LEVEL = "model_checking"
TECHNIQUE = "explicit-state BFS over query/mutation histories of real Couplings objects against fresh-object answers"
LEVEL_TEXT = (
    "all histories up to the stated depth over the stated alphabet are replayed on the real object; every "
    "answer is compared bit by bit with a freshly constructed object's; states deduplicated on the memo content"
)
LEVEL_NOTE = (
    "bounded by depth (2 quick / 3 thorough) and by the alphabet (scales on / around every matching scale, the "
    "reference, short non-zero segments next to the reference and to a matching scale, both sides of m_tau; nf_to in "
    "{None,3,4,5,6}); merged states have equal futures because the state key is a digest of every attribute of the "
    "object (recursively), not only of the memo dict and a_ref"
)
FLOOR_NONTRIVIAL = 20

# matching scales are perfect squares so that a reference point can sit on one of them bit-exactly
WALLS = [4.0, 12.25, 30625.0]  # (2 GeV)^2, (3.5 GeV)^2, (175 GeV)^2
RATIOS = [2.0, 0.5, 1.0]
M2 = [w / r for w, r in zip(WALLS, RATIOS)]

CONFIGS = [
    # order, method, running, scheme, ref (mu, nf)
    dict(order=[1, 0], method="expanded", running=False, scheme="POLE", ref=[91.2, 5]),
    dict(order=[3, 0], method="expanded", running=False, scheme="POLE", ref=[math.sqrt(WALLS[1]), 5]),
    # continuous matching (LO / NLO with mu=m) with the reference on the wall: segments of two different nf
    # start from the same coupling at the same scale
    dict(order=[1, 0], method="expanded", running=False, scheme="POLE", ref=[math.sqrt(WALLS[1]), 5]),
    dict(order=[2, 0], method="expanded", running=False, scheme="MSBAR", ref=[math.sqrt(WALLS[2]), 6]),
    dict(order=[4, 0], method="expanded", running=False, scheme="MSBAR", ref=[91.2, 5]),
    dict(order=[2, 1], method="expanded", running=True, scheme="POLE", ref=[1.8, 3]),
    dict(order=[3, 2], method="expanded", running=True, scheme="MSBAR", ref=[math.sqrt(WALLS[0]), 4]),
    dict(order=[3, 2], method="expanded", running=False, scheme="POLE", ref=[91.2, 5]),
    dict(order=[2, 0], method="expanded", running=False, scheme="POLE", ref=[3.0, None]),
    dict(order=[4, 0], method="expanded", running=True, scheme="POLE", ref=[300.0, 6]),
    dict(order=[3, 0], method="exact", running=False, scheme="POLE", ref=[math.sqrt(WALLS[1]), 5]),
    dict(order=[2, 1], method="exact", running=True, scheme="MSBAR", ref=[1.8, 3]),
    dict(order=[1, 0], method="exact", running=False, scheme="POLE", ref=[91.2, 5]),
    dict(order=[4, 2], method="exact", running=False, scheme="POLE", ref=[91.2, 4]),
]


# short segments.  Couplings.a skips a segment only if its end points agree up to rounding (np.isclose, rtol 1e-14):
#  * the neighbouring float of a scale: skipped although origin != target, nothing is memoised for it
#  * a scale 1e-7 away (relative): an ordinary, memoised, very short evolution
SHORT = 1e-7


def _next(x, up=True):
    return math.nextafter(x, math.inf if up else 0.0)


def _exact_full():
    return next(c for c in CONFIGS if c["method"] == "exact" and c["order"] == [3, 0])


def scales_for(cfg, small):
    ref2 = cfg["ref"][0] ** 2
    if small:
        return [ref2, WALLS[0], 1.1 * WALLS[1], 3.0, 3.3, _next(ref2)]
    out = [ref2, 3.0, 3.3, ref2 * (1 + SHORT), _next(WALLS[1], up=False)]
    for w in WALLS:
        out += [0.9 * w, w, 1.1 * w]
    return out


def alphabet_for(cfg, small):
    nfs = [None, 4, 5] if small else [None, 3, 4, 5, 6]
    ops = [["q", s, nf] for s in scales_for(cfg, small) for nf in nfs]
    ops.append(["mut"])
    return ops


def _build(cfg):
    from vf.ref.c15_mk import make_couplings

    return make_couplings(
        cfg["order"], cfg["running"], cfg["method"], tuple(cfg["ref"]), 0.118 if cfg["ref"][0] > 50 else 0.3, 0.0075, M2, RATIOS, cfg["scheme"]
    )


_FRESH = {}


def _fresh_answer(cfg, op):
    key = (repr(cfg), repr(op))
    if key not in _FRESH:
        import numpy as np

        c = _build(cfg)
        _FRESH[key] = np.array(c.a(op[1], op[2]), dtype=float).tobytes()
    return _FRESH[key]


def _canon(o, depth=0):
    """Canonical text of everything reachable from an attribute value (arrays by their bytes)."""
    import logging

    import numpy as np

    if depth > 6:
        return "<deep>"
    if isinstance(o, np.ndarray):
        return f"nd{o.dtype}{o.shape}:{o.tobytes().hex()}"
    if isinstance(o, (np.floating, float)):
        return "f:" + float(o).hex()
    if isinstance(o, (np.integer, int, bool, str, bytes)) or o is None:
        return f"{type(o).__name__}:{o!r}"
    if isinstance(o, dict):
        items = sorted((_canon(k, depth + 1), _canon(v, depth + 1)) for k, v in o.items())
        return "{" + ",".join(f"{k}=>{v}" for k, v in items) + "}"
    if isinstance(o, (list, tuple)):
        return f"{type(o).__name__}[" + ",".join(_canon(v, depth + 1) for v in o) + "]"
    if isinstance(o, (set, frozenset)):
        return "set[" + ",".join(sorted(_canon(v, depth + 1) for v in o)) + "]"
    if isinstance(o, (logging.Logger, type)) or callable(o):
        return f"<{type(o).__name__}>"
    if hasattr(o, "__dict__"):
        return f"{type(o).__name__}(" + _canon(vars(o), depth + 1) + ")"
    if hasattr(o, "__slots__"):
        return f"{type(o).__name__}(" + _canon({k: getattr(o, k, None) for k in o.__slots__}, depth + 1) + ")"
    return f"{type(o).__name__}:{o!r}"


def _state_key(c, last_op):
    """Everything the object carries (every attribute, recursively: memo, a_ref, atlas walls and origin, ratios, order,
    method, scheme, flags, and whatever a later version adds), so that two histories are merged only if NOTHING
    observable in the object distinguishes them."""
    h = hashlib.sha1()
    h.update(_canon(vars(c)).encode())
    return f"{len(c.cache)}:{h.hexdigest()[:20]}:{last_op!r}"


def evaluate(case):
    import warnings

    import numpy as np

    cfg = case["cfg"]
    hist = list(case["history"]) + [case["op"]]
    res = Result()
    sigbase = f"Couplings.a/history/{cfg['method']}"
    with warnings.catch_warnings():
        warnings.simplefilter("ignore")
        c = _build(cfg)
        a_ref0 = c.a_ref.tobytes()
        last = None
        served_from_cache = 0
        last_was_hit = False
        for i, op in enumerate(hist):
            if op[0] == "mut":
                if last is not None:
                    last[...] = np.nan
                last_was_hit = False
                continue
            before = len(c.cache)
            try:
                got = c.a(op[1], op[2])
            except Exception as e:  # noqa
                res.fail(sigbase + "/raises", f"cfg={cfg} history={hist[: i + 1]}: {type(e).__name__}: {e}")
                return res
            want = _fresh_answer(cfg, op)
            gb = np.array(got, dtype=float).tobytes()
            last_was_hit = len(c.cache) == before and len(c.cache) > 0 and not math.isclose(op[1], cfg["ref"][0] ** 2)
            served_from_cache += last_was_hit
            if gb != want:
                kind = "after-caller-mutation" if ["mut"] in hist[:i] else "after-queries"
                res.fail(
                    f"{sigbase}/{kind}",
                    f"cfg={cfg}: after history {hist[:i]} the query {op} returns "
                    f"{np.array(got).tolist()} but a fresh object returns {np.frombuffer(want).tolist()}",
                )
                return res
            last = got
        if c.a_ref.tobytes() != a_ref0:
            res.fail(sigbase + "/a_ref-changed", f"cfg={cfg} history={hist}: a_ref changed to {c.a_ref.tolist()}")
            return res
        state = _state_key(c, case["op"])
        ncache = len(c.cache)
        # closing probe (part of the oracle, not of the history): every query of the history is asked once
        # more; whatever the history left behind in the object must not show in any of these answers
        seen = []
        for op in hist:
            if op[0] == "q" and op not in seen:
                seen.append(op)
        for op in seen:
            try:
                got = np.array(c.a(op[1], op[2]), dtype=float)
            except Exception as e:  # noqa
                res.fail(sigbase + "/raises", f"cfg={cfg} history={hist} then {op}: {type(e).__name__}: {e}")
                return res
            if got.tobytes() != _fresh_answer(cfg, op):
                kind = "after-caller-mutation" if ["mut"] in hist else "after-queries"
                res.fail(
                    f"{sigbase}/{kind}",
                    f"cfg={cfg}: after history {hist} the (repeated) query {op} returns {got.tolist()} but a fresh "
                    f"object returns {np.frombuffer(_fresh_answer(cfg, op)).tolist()}",
                )
                return res
        # second closing probe: the caller scribbles on the last array it received, then every query is repeated
        if last is not None and not res.fails:
            try:
                last[...] = np.nan
            except Exception:  # noqa - a read-only or scalar return cannot be scribbled on
                pass
            else:
                for op in seen:
                    try:
                        got = np.array(c.a(op[1], op[2]), dtype=float)
                    except Exception as e:  # noqa
                        res.fail(sigbase + "/raises", f"cfg={cfg} history={hist} then mutation then {op}: {type(e).__name__}: {e}")
                        return res
                    if got.tobytes() != _fresh_answer(cfg, op):
                        res.fail(
                            f"{sigbase}/after-caller-mutation",
                            f"cfg={cfg}: after history {hist}, the caller overwriting the last returned array, the query {op} "
                            f"returns {got.tolist()} but a fresh object returns {np.frombuffer(_fresh_answer(cfg, op)).tolist()}",
                        )
                        return res
    res.info = {"state": state, "max_cache_entries": ncache, "hits": served_from_cache}
    res.nontrivial = served_from_cache > 0 or (case["op"][0] == "mut" and len(hist) > 1)
    res.outcome = f"{'mut' if case['op'][0] == 'mut' else 'query'}/cachehit={last_was_hit}/entries={min(ncache, 6)}"
    return res


def run(ctx):
    from vf.core import hist

    thorough = ctx.thorough()
    nconf = 0
    sizes = []
    for cfg in CONFIGS:
        exact = cfg["method"] == "exact"
        # exact-method objects cost ~50 ms per query: small alphabet; depth 2 (quick) / 3 (thorough)
        # expanded-method objects: full alphabet; depth 2 (quick) / 3 (thorough)
        alpha = alphabet_for(cfg, exact)
        hist.bfs(ctx, alpha, evaluate, 3 if thorough else 2, extra_case={"cfg": cfg})
        # deep exploration on a tiny alphabet (repeat a query, mutate, repeat again needs >= 4 steps): 3 queries + mutation
        tiny = [["q", cfg["ref"][0] ** 2, cfg["ref"][1]], ["q", 3.0, None], ["q", 1.1 * WALLS[1], None], ["mut"]]
        deep = (4 if exact else 5) + (1 if thorough else 0)
        hist.bfs(ctx, tiny, evaluate, deep, init_key="<deep>", extra_case={"cfg": cfg})
        # the same with a short segment (skipped although not of zero length: the float next to the bottom wall) in the
        # alphabet, one level less deep
        tiny5 = tiny[:3] + [["q", _next(WALLS[1]), None], ["mut"]]
        hist.bfs(ctx, tiny5, evaluate, deep - 1, init_key="<deep5>", extra_case={"cfg": cfg})
        if thorough and exact and cfg is _exact_full():
            # one exact-method object with the full alphabet (nf_to = 3 / 6: two matchings behind a memoised segment)
            hist.bfs(ctx, alphabet_for(cfg, False), evaluate, 2, init_key="<full>", extra_case={"cfg": cfg})
        sizes.append(len(alpha))
        nconf += 1
    ctx.rule = (
        f"{nconf} object configurations (orders (1,0),(2,0),(3,0),(4,0),(2,1),(3,2),(4,2) x exact/expanded x em_running x "
        "POLE/MSBAR, reference inside a patch / on a matching scale / with non-default or default nf, matching ratios "
        "2, 0.5, 1); alphabet = query (scale, nf_to) with scale in {reference, reference x (1+1e-7) (a very short evolved segment), "
        "the float just below the bottom wall (a segment skipped although not of zero length), 0.9/1/1.1 x each matching scale, 3.0 and 3.3 "
        "GeV^2 around m_tau^2} x nf_to in {None,3,4,5,6} (71 letters; exact-method objects: 6 scales (short one: the float just above "
        "the reference) x {None,4,5} = 19 letters) + 'overwrite the previously returned array with NaN'; BFS to depth 2 (quick) / "
        "depth 3 (thorough); plus a second BFS on a 4-letter alphabet (reference point, 3.0, 1.1 x bottom wall, mutation) to depth 5 "
        "(exact objects 4), thorough +1; plus a third BFS on that alphabet extended by the short-segment query 'float just above the bottom wall' "
        "(5 letters) to depth 4 (exact objects 3), thorough +1; thorough: one exact-method object also with the full 71-letter "
        "alphabet to depth 2. Every explored history is closed by a probe repeating its queries; states deduplicated on "
        "(every attribute of the object recursively - memo keys and values, a_ref, atlas, ratios, order, method, flags - and the last op); "
        "non-trivial = a query answered entirely from the memo, or a caller mutation after a query"
    )
    ctx.assumptions += [
        "bit-identity with a fresh object's answer is the oracle (the fresh object itself is C15/C16's subject)",
        "histories longer than the depth bound and scales off the alphabet are not explored",
        "a history whose step fails is reported and not extended",
    ]
