"""C25 sum rules of the anomalous dimensions: complete product of
kind x nf x order x (N3LO variant x variation indices).

Oracle = the conservation laws themselves (a number that has to vanish, or the beta coefficient typed
here from the literature); no formula of eko is reused.  Tolerances are *relative* and per
"accuracy class" of the order that is looked at (see TOL): a deviation of a sum is measured against
the sum of the moduli of its terms (but not less than the largest entry the matrix of that order takes
on N in {2,3,5,8}: at single nf the N=2 entries themselves cancel between powers of nf), a deviation of a
single moment against the largest modulus the same function takes on N in {2,3,5,8}.
"""

import math
from fractions import Fraction as Fr

import numpy as np

from vf.core.ctx import Result

ID = "C25"
LEVEL = "exploration"
TECHNIQUE = "exhaustive enumeration of nf x order x sector x N3LO-variant x variation index; oracle = conservation law"
LEVEL_TEXT = (
    "every sum rule named in the statement is evaluated through the public ekore entry points "
    "(gamma_ns, gamma_singlet, their QED grids and the N3LO building blocks) for every nf, order and "
    "N3LO variation index of the quantifier; the value that has to vanish (or to equal -beta_k) is "
    "compared with zero (or with beta coefficients typed from the literature) within the documented "
    "accuracy of the parametrisation of that order"
)
LEVEL_NOTE = (
    "the accuracy classes (exact 1e-11, NLO 3e-5 because of the parametrised Mellin transform g3, "
    "NNLO 3e-4 and FHMRUVV 1e-3 from the documented 0.1% of the x-space parametrisations) are read "
    "from docstrings/tests of the repository; N=1 is approached from the complex plane where the "
    "implementation documents a non-physical pole"
)
FLOOR_NONTRIVIAL = 20

# ----------------------------------------------------------------------------- literature
# beta coefficients, a_s = alpha_s/(4 pi):  typed twice (rational, decimal at nf=5) and cross-checked
_BETA = [
    lambda nf: Fr(11) - Fr(2, 3) * nf,
    lambda nf: Fr(102) - Fr(38, 3) * nf,
    lambda nf: Fr(2857, 2) - Fr(5033, 18) * nf + Fr(325, 54) * nf * nf,
]
_BETA_NF5_DECIMAL = [7.666666666666667, 38.666666666666664, 180.90740740740742]
for _k in range(3):
    if abs(float(_BETA[_k](5)) - _BETA_NF5_DECIMAL[_k]) > 1e-12:
        raise RuntimeError("C25: typo in my own beta table")
EU2, ED2 = 4.0 / 9.0, 1.0 / 9.0

# ----------------------------------------------------------------------------- tolerances
# class -> relative tolerance.  Documented accuracy (upper bound) and measured maximum (unchanged tree):
TOL = {
    # closed forms in S1 only: rounding.                                          measured 4e-13
    "exact": 1e-11,
    # exact NLO-type expressions, but with the Pegasus parametrisation of g3 (docstring of
    # mellin_g3: 'approximate'; tests: atol 2e-6 / 4e-5 on O(30), decimal=4 on O(5)).  measured 9.4e-7
    "g3": 3e-5,
    # x-space parametrisations of the NNLO kernels (MVV: 0.1% or better; repository tests pin the
    # residual of the sum rules to <= 1e-2 absolute on O(500)).                   measured 2.1e-5
    "nnlo": 3e-4,
    # eko's own N3LO approximation: sum rules imposed analytically, parametrised sea part.  measured 2.9e-6
    "n3lo-eko": 3e-5,
    # FHMRUVV: docstrings 'high-accuracy (0.1% or better) parametrizations'.       measured 9.9e-5
    "n3lo-fhmruvv": 1e-3,
}
NREF = (2.0, 3.0, 5.0, 8.0)
V0 = (0, 0, 0, 0, 0, 0, 0)
EKO_NVAR = {"gg": 19, "gq": 15, "qg": 15, "qq": 6}  # documented number of variations of eko's own N3LO


def _cls(kind, i, j=0):
    """Accuracy class of the O(as^i aem^j) coefficient."""
    if j == 0:
        return {1: "exact", 2: "g3", 3: "nnlo"}[i]
    if (i, j) == (0, 1):
        return "exact"
    return "g3"


class _Acc:
    """Collects oracle evaluations of one case."""

    def __init__(self, res):
        self.res = res
        self.n = 0
        self.maxrel = {}

    def zero(self, sig, cls, dev, scale, what):
        """|dev| <= TOL[cls] * scale ."""
        self.n += 1
        scale = float(scale)
        dev = abs(complex(dev))
        if not math.isfinite(dev) or not math.isfinite(scale) or scale <= 0:
            self.res.fail(sig + "/not-finite", f"{what}: deviation={dev} scale={scale}")
            return
        rel = dev / scale
        key = "max_rel_" + cls
        self.maxrel[key] = max(self.maxrel.get(key, 0.0), rel)
        if rel > TOL[cls]:
            self.res.fail(
                sig,
                f"{what}: |deviation|={dev:.6e} scale={scale:.6e} relative={rel:.3e} > {TOL[cls]:g} ({cls})",
            )


def _call(res, sig, f, *a):
    try:
        return f(*a)
    except Exception as e:  # noqa
        res.fail(sig + "/raises", f"{type(e).__name__}: {e} args={a!r}"[:400])
        return None


def _limit_N(f, n0, delta=1e-6):
    """Mean over the three cube-root-of-unity directions: f(n0) + O(delta^3) for analytic f."""
    w = [complex(math.cos(2 * math.pi * k / 3), math.sin(2 * math.pi * k / 3)) for k in range(3)]
    return sum(f(n0 + delta * wk) for wk in w) / 3.0


# ----------------------------------------------------------------------------- evaluators
def _qcd_like(case, res, acc):
    """unpolarised space-like / time-like / polarised, orders 1..3."""
    kind, nf = case["kind"], case["nf"]
    if kind == "us":
        import ekore.anomalous_dimensions.unpolarized.space_like as ad

        sing = lambda N: ad.gamma_singlet((3, 0), N, nf, V0)
        ns = lambda mode, N: ad.gamma_ns((3, 0), mode, N, nf, V0)
    elif kind == "ut":
        import ekore.anomalous_dimensions.unpolarized.time_like as ad

        sing = lambda N: ad.gamma_singlet((3, 0), N, nf)
        ns = lambda mode, N: ad.gamma_ns((3, 0), mode, N, nf)
    else:
        import ekore.anomalous_dimensions.polarized.space_like as ad

        sing = lambda N: ad.gamma_singlet((3, 0), N, nf)
        ns = lambda mode, N: ad.gamma_ns((3, 0), mode, N, nf)
    base = f"{kind}"
    # reference scales per order
    sref = np.max([np.abs(sing(N)).reshape(3, -1).max(axis=1) for N in NREF], axis=0)

    def nsref(mode):
        return np.max([np.abs(ns(mode, N)) for N in NREF], axis=0)

    if kind in ("us", "ut"):
        g = _call(res, f"{base}.gamma_singlet/N=2", sing, 2.0)
        if g is not None:
            for k in range(3):
                m = g[k]
                if kind == "us":
                    # d/dt (Sigma + g) = 0 for any input: column sums of [[qq,qg],[gq,gg]]
                    for col, name in ((0, "quark"), (1, "gluon")):
                        acc.zero(
                            f"{base}.momentum/order={k+1}/column={name}",
                            _cls(kind, k + 1),
                            m[0, col] + m[1, col],
                            max(abs(m[0, col]) + abs(m[1, col]), sref[k]),
                            f"nf={nf} N=2 gamma^({k})[:, {name}] = {m[:, col]}",
                        )
                else:
                    # fragmentation functions: every parton carries unit momentum into hadrons,
                    # (D_Sigma, D_g) has second moments (2 nf, 1)  =>  M . (2nf, 1)^T = 0 row by row
                    for row, name in ((0, "quark"), (1, "gluon")):
                        acc.zero(
                            f"{base}.momentum/order={k+1}/row={name}",
                            _cls(kind, k + 1),
                            2 * nf * m[row, 0] + m[row, 1],
                            max(abs(2 * nf * m[row, 0]) + abs(m[row, 1]), sref[k]),
                            f"nf={nf} N=2 gamma^({k})[{name}, :] = {m[row, :]} weights (2nf, 1)",
                        )
        # quark number: minus and valence
        for mode, name in ((10201, "minus"), (10200, "valence")):
            sr = nsref(mode)
            try:
                v = ns(mode, 1.0)
            except ZeroDivisionError as e:
                res.fail(
                    f"{base}.gamma_ns/mode={name}/N=1/raises",
                    f"gamma_ns((3,0), {mode}, 1.0, nf={nf}) raises ZeroDivisionError({e}); the limit "
                    "N->1 exists (checked next) and the source carries a dedicated N=1 branch",
                )
                v = _limit_N(lambda N: ns(mode, N), 1.0)
            except Exception as e:  # noqa
                res.fail(f"{base}.gamma_ns/mode={name}/N=1/raises", f"{type(e).__name__}: {e}")
                continue
            for k in range(3):
                acc.zero(
                    f"{base}.number/order={k+1}/sector={name}",
                    _cls(kind, k + 1),
                    v[k],
                    sr[k],
                    f"nf={nf} gamma_ns^({k})(N=1) = {v[k]}",
                )
    else:
        # polarised: first moments
        g = _call(res, f"{base}.gamma_singlet/N=1", sing, 1.0)
        if g is not None:
            for k in range(3):
                m = g[k]
                acc.zero(
                    f"{base}.qg-first-moment/order={k+1}",
                    _cls(kind, k + 1),
                    m[0, 1],
                    sref[k],
                    f"nf={nf} gamma_qg^({k})(N=1) = {m[0,1]}",
                )
                bk = float(_BETA[k](nf))
                acc.zero(
                    f"{base}.gg-first-moment-vs-beta/order={k+1}",
                    _cls(kind, k + 1),
                    m[1, 1] + bk,
                    max(abs(bk), sref[k]),
                    f"nf={nf} gamma_gg^({k})(N=1) = {m[1,1]} , -beta_{k} = {-bk}",
                )
        sr = nsref(10101)
        v = _call(res, f"{base}.gamma_ns/N=1", ns, 10101, 1.0)
        if v is not None:
            for k in range(3):
                acc.zero(
                    f"{base}.axial-charge/order={k+1}",
                    _cls(kind, k + 1),
                    v[k],
                    sr[k],
                    f"nf={nf} polarised gamma_ns+^({k})(N=1) = {v[k]}",
                )


def _qed(case, res, acc):
    import ekore.anomalous_dimensions.unpolarized.space_like as ad

    nf = case["nf"]
    order = (3, 2)
    g = _call(res, "qed.gamma_singlet_qed/N=2", ad.gamma_singlet_qed, order, 2.0, nf, V0)
    names = ("g", "ph", "S", "Sdelta")
    if g is not None:
        gref = np.max([np.abs(ad.gamma_singlet_qed(order, N, nf, V0)).max(axis=(2, 3)) for N in NREF], axis=0)
        for i in range(4):
            for j in range(3):
                if (i, j) not in ((1, 0), (2, 0), (3, 0), (0, 1), (1, 1), (0, 2)):
                    if np.abs(g[i, j]).max() != 0:
                        res.fail(f"qed.singlet/order=({i},{j})/not-empty", f"nf={nf} {g[i,j]}")
                    continue
                m = g[i, j]
                for col in range(4):
                    acc.zero(
                        f"qed.momentum/order=({i},{j})/column={names[col]}",
                        _cls("qed", i, j),
                        m[0, col] + m[1, col] + m[2, col],
                        max(abs(m[0, col]) + abs(m[1, col]) + abs(m[2, col]), gref[i, j]),
                        f"nf={nf} N=2 gamma^({i},{j})[(g,ph,S), {names[col]}] = {m[:3, col]}",
                    )
    gv1 = _call(res, "qed.gamma_valence_qed/N=1", ad.gamma_valence_qed, order, 1.0, nf, V0)
    if gv1 is not None:
        ref = np.max([np.abs(ad.gamma_valence_qed(order, N, nf, V0)).max(axis=(2, 3)) for N in NREF], axis=0)
        for i in range(4):
            for j in range(3):
                if ref[i, j] == 0:
                    continue
                for a in range(2):
                    for b in range(2):
                        acc.zero(
                            f"qed.number/valence/order=({i},{j})/entry=({a},{b})",
                            _cls("qed", i, j),
                            gv1[i, j][a, b],
                            ref[i, j],
                            f"nf={nf} gamma_V^({i},{j})(N=1)[{a},{b}] = {gv1[i,j][a,b]}",
                        )
    for mode, name in ((10202, "minus-up"), (10203, "minus-down")):
        v = _call(res, "qed.gamma_ns_qed/N=1", ad.gamma_ns_qed, order, mode, 1.0, nf, V0)
        if v is None:
            continue
        ref = np.max([np.abs(ad.gamma_ns_qed(order, mode, N, nf, V0)) for N in NREF], axis=0)
        for i in range(4):
            for j in range(3):
                if ref[i, j] == 0:
                    continue
                acc.zero(
                    f"qed.number/{name}/order=({i},{j})",
                    _cls("qed", i, j),
                    v[i, j],
                    ref[i, j],
                    f"nf={nf} gamma_ns^({i},{j})(N=1) = {v[i,j]}",
                )


def _n3lo(case, res, acc):
    """(4,0): both variants, all variation indices; through QCD and QED entry points."""
    import ekore.anomalous_dimensions.unpolarized.space_like as ad

    nf, variant = case["nf"], case["variant"]
    fh = variant == "fhmruvv"
    cls = "n3lo-fhmruvv" if fh else "n3lo-eko"
    nvar = {"gg": 2, "gq": 2, "qg": 2, "qq": 2} if fh else EKO_NVAR
    base = f"n3lo-{variant}"

    def tup(**kw):
        t = list(V0)
        for k, v in kw.items():
            t[{"gg": 0, "gq": 1, "qg": 2, "qq": 3, "nsp": 4, "nsm": 5, "nsv": 6}[k]] = v
        return tuple(t)

    try:
        sref = max(np.abs(ad.gamma_singlet((4, 0), N, nf, V0, fh)[3]).max() for N in NREF)
    except Exception as e:  # noqa
        res.fail(f"{base}.gamma_singlet/raises", f"{type(e).__name__}: {e} nf={nf}")
        return
    # momentum: the quark column is built from (qq, gq), the gluon column from (qg, gg)
    part = case.get("part")  # None: everything; ["col", c, ia]: one slice of a column; "rest": no column
    for col, name, (va, vb) in ((0, "quark", ("qq", "gq")), (1, "gluon", ("qg", "gg"))):
        if part == "rest" or (isinstance(part, list) and part[1] != col):
            continue
        for ia in range(nvar[va] + 1):
            if isinstance(part, list) and part[2] != ia:
                continue
            for ib in range(nvar[vb] + 1):
                t = tup(**{va: ia, vb: ib})
                g = _call(res, f"{base}.gamma_singlet/N=2", ad.gamma_singlet, (4, 0), 2.0, nf, t, fh)
                if g is None:
                    return
                m = g[3]
                acc.zero(
                    f"{base}.momentum/column={name}",
                    cls,
                    m[0, col] + m[1, col],
                    max(abs(m[0, col]) + abs(m[1, col]), sref),
                    f"nf={nf} variation={t} N=2 gamma^(3)[:, {name}] = {m[:, col]}",
                )
    if isinstance(part, list):
        return
    # the same slot of the QED grid (uniform variations)
    for v in range(0, 3):
        t = (v,) * 7
        g = _call(res, f"{base}.gamma_singlet_qed/N=2", ad.gamma_singlet_qed, (4, 2), 2.0, nf, t, fh)
        if g is None:
            break
        m = g[4, 0]
        for col, name in ((0, "g"), (2, "S")):
            acc.zero(
                f"{base}.qed-momentum/column={name}",
                cls,
                m[0, col] + m[1, col] + m[2, col],
                max(abs(m[0, col]) + abs(m[1, col]) + abs(m[2, col]), sref),
                f"nf={nf} variation={t} N=2 gamma^(4,0)[(g,ph,S), {name}] = {m[:3, col]}",
            )
    _n3lo_ns(case, res, acc, ad, fh, cls, base, tup)


def _n3lo_ns(case, res, acc, ad, fh, cls, base, tup):
    nf = case["nf"]
    for mode, name, key in ((10201, "minus", "nsm"), (10200, "valence", "nsv")):
        for v in range(3 if fh else 1):
            t = tup(**{key: v})
            f = lambda N: ad.gamma_ns((4, 0), mode, N, nf, t, fh)[3]
            sr = max(abs(f(N)) for N in NREF)
            try:
                val = f(1.0)
            except ZeroDivisionError:
                # eko's own gamma_nsv: 'the exact expression (nf^2 part) has an nonphysical pole at
                # N=1 ... This should cancel when doing the limit' (tests/.../test_as4.py) -> limit
                if fh or name != "valence":
                    res.fail(f"{base}.gamma_ns/mode={name}/N=1/raises", f"ZeroDivisionError nf={nf} variation={t}")
                val = _limit_N(f, 1.0)
            except Exception as e:  # noqa
                res.fail(f"{base}.gamma_ns/mode={name}/N=1/raises", f"{type(e).__name__}: {e}")
                continue
            acc.zero(
                f"{base}.number/sector={name}",
                cls,
                val,
                sr,
                f"nf={nf} variation={t} gamma_ns^(3)(N->1) = {val}",
            )
    # QED non-singlet minus sectors, slot (4,0) of the (4,1) and (4,2) towers (both N3LO variants)
    for qo in ((4, 1), (4, 2)):
        for mode, name in ((10202, "minus-up"), (10203, "minus-down")):
            for v in range(3 if fh else 1):
                t = tup(nsm=v)
                fq = lambda N: ad.gamma_ns_qed(qo, mode, N, nf, t, fh)[4, 0]
                try:
                    sr = max(abs(fq(N)) for N in NREF)
                    try:
                        val = fq(1.0)
                    except ZeroDivisionError:
                        val = _limit_N(fq, 1.0)
                except Exception as e:  # noqa
                    res.fail(f"{base}.gamma_ns_qed/mode={name}/raises", f"{type(e).__name__}: {e} order={qo} nf={nf}")
                    continue
                acc.zero(
                    f"{base}.qed-number/sector={name}",
                    cls,
                    val,
                    sr,
                    f"nf={nf} order={qo} variation={t} gamma_ns_qed^(4,0)(N->1) = {val}",
                )
    # QED valence grid, slot (4,0)
    for v in range(3 if fh else 1):
        t = (v,) * 7
        f = lambda N: ad.gamma_valence_qed((4, 2), N, nf, t, fh)[4, 0]
        sr = max(np.abs(f(N)).max() for N in NREF)
        try:
            val = f(1.0)
        except ZeroDivisionError:
            if fh:
                res.fail(f"{base}.gamma_valence_qed/N=1/raises", f"ZeroDivisionError nf={nf} variation={t}")
            val = _limit_N(f, 1.0)
        except Exception as e:  # noqa
            res.fail(f"{base}.gamma_valence_qed/N=1/raises", f"{type(e).__name__}: {e}")
            continue
        for a in range(2):
            for b in range(2):
                acc.zero(
                    f"{base}.qed-number/valence/entry=({a},{b})",
                    cls,
                    val[a, b],
                    sr,
                    f"nf={nf} variation={t} gamma_V^(4,0)(N->1)[{a},{b}] = {val[a,b]}",
                )


MEAN_N = [1.0, 2.0, 3.0, 4.5, 10.0, 37.0, complex(2.0, 3.0), complex(1.5, -2.0), complex(0.7, 10.0), complex(20.0, 40.0), complex(1.0, 1e-3)]


def _fh_mean(case, res, acc):
    """FHMRUVV: central = mean of the two documented variations, function by function."""
    from ekore.anomalous_dimensions.unpolarized.space_like.as4 import fhmruvv as fh
    from ekore.harmonics import cache as c

    nf = case["nf"]
    fns = {
        "gg": fh.gamma_gg,
        "gq": fh.gamma_gq,
        "qg": fh.gamma_qg,
        "ps": fh.gamma_ps,
        "nsp": fh.gamma_nsp,
        "nsm": fh.gamma_nsm,
        "nsv": fh.gamma_nsv,
    }
    ref = {name: max(abs(f(N, nf, c.reset(), 0)) for N in NREF) for name, f in fns.items()}
    for name, f in fns.items():
        for N in MEAN_N:
            if N == 1.0 and name in ("gg", "gq", "ps", "qg"):
                continue  # physical pole of the singlet entries
            try:
                v = [f(N, nf, c.reset(), k) for k in (0, 1, 2, 3)]
            except Exception as e:  # noqa
                res.fail(f"fhmruvv.{name}/raises", f"{type(e).__name__}: {e} N={N} nf={nf}")
                continue
            sc = max(max(abs(x) for x in v), ref[name])
            acc.zero(
                f"fhmruvv.central-is-mean/{name}",
                "exact",
                v[0] - 0.5 * (v[1] + v[2]),
                sc,
                f"nf={nf} N={N} central={v[0]} up={v[1]} down={v[2]}",
            )
            # 'Any other value of IMOD invokes their average'
            acc.zero(
                f"fhmruvv.other-index-is-central/{name}",
                "exact",
                v[3] - v[0],
                sc,
                f"nf={nf} N={N} variation=3 -> {v[3]} central={v[0]}",
            )
            if abs(v[1] - v[2]) > 1e-9 * sc:
                acc.spread = getattr(acc, "spread", 0) + 1


def evaluate(case):
    res = Result()
    acc = _Acc(res)
    kind = case["kind"]
    if kind in ("us", "ut", "ps"):
        _qcd_like(case, res, acc)
    elif kind == "qed":
        _qed(case, res, acc)
    elif kind == "n3lo":
        _n3lo(case, res, acc)
    elif kind == "fhmruvv-mean":
        _fh_mean(case, res, acc)
    else:
        raise ValueError(kind)
    res.info = dict(acc.maxrel)
    res.info["rules"] = acc.n
    if kind == "fhmruvv-mean":
        res.info["points_with_distinct_up_down"] = getattr(acc, "spread", 0)
        res.nontrivial = getattr(acc, "spread", 0) > 0
    else:
        res.nontrivial = acc.n > 0
    res.outcome = f"{kind}{'-' + case['variant'] if kind == 'n3lo' else ''}:{'fail' if res.fails else 'ok'}:rules={acc.n}"
    return res


def run(ctx):
    cases = []
    for nf in (3, 4, 5, 6):
        for kind in ("us", "ut", "ps", "qed"):
            cases.append({"kind": kind, "nf": nf})
        # eko's own N3LO: ~20 ms per evaluation, so one case per (column, first variation index)
        cases.append({"kind": "n3lo", "variant": "eko", "nf": nf, "part": "rest"})
        for col, va in ((0, "qq"), (1, "qg")):
            for ia in range(EKO_NVAR[va] + 1):
                cases.append({"kind": "n3lo", "variant": "eko", "nf": nf, "part": ["col", col, ia]})
    for nf in (3, 4, 5):
        cases.append({"kind": "n3lo", "variant": "fhmruvv", "nf": nf})
        cases.append({"kind": "fhmruvv-mean", "nf": nf})
    results = ctx.run_cases(cases, evaluate)
    ctx.extra["rules_evaluated"] = sum((r[1][3] or {}).get("rules", 0) for r in results)
    ctx.rule = (
        "complete product: kinds {unpolarised space-like, time-like, polarised} x nf 3-6 x orders 1-3 x "
        "{both momentum rules at N=2, quark number of minus and valence at N=1 | polarised: qg, gg+beta_k, "
        "ns+ at N=1}; QED grids of order (3,2) x nf 3-6 x all six filled slots x 4 momentum columns + "
        "4 valence entries + 2 minus sectors; N3LO: eko variant nf 3-6 with the complete products of the "
        "variation indices that enter one momentum column (7x16 quark, 16x20 gluon), FHMRUVV nf 3-5 with "
        "3x3 per column and 3 per non-singlet sector, both also through the (4,0) slot of the QED grids; "
        "FHMRUVV central=mean for 7 functions x nf 3-5 x 11 N (real, complex, near N=1); the same set in "
        "both tiers (total cost ~2 s); non-trivial = at least one rule evaluated (fhmruvv-mean: up and "
        "down variations really differ)"
    )
    ctx.assumptions += [
        "sum rules are moment statements: decided at N=2 and N=1 exactly (N->1 as the mean over three complex directions at |N-1|=1e-6 where the implementation has a documented removable pole)",
        "relative tolerance classes: " + ", ".join(f"{k}={v:g}" for k, v in TOL.items()),
        "time-like momentum rule in the fragmentation convention: rows of the matrix acting on (D_Sigma, D_g) are orthogonal to (2 nf, 1)",
        "FHMRUVV singlet is refused for nf=6 by the implementation (documented); its non-singlet part is checked for nf 3-5 as in the quantifier",
    ]
