"""C25 sum rules of the anomalous dimensions: complete product of
kind x nf x order x (N3LO variant x variation indices).

Oracle = the conservation laws themselves (a number that has to vanish, or the beta coefficient typed
here from the literature); no formula of eko is reused.  Tolerances are *relative* and per
"accuracy class" of the order that is looked at (see TOL): a deviation of a sum is measured against
the sum of the moduli of its terms (but not less than the largest entry the matrix of that order takes
on N in {2,3,5,8}: at single nf the N=2 entries themselves cancel between powers of nf), a deviation of a
single moment against the largest modulus the same function takes on N in {2,3,5,8}.

Additions after the audit: (1) per-rule tolerances TOL_SIG (30 x the measured maximum of that rule where it is met far
better than the class of its order; per-rule maxima are written to the evidence as max_rel/<signature>); (2) every rule
at N=1 also as continuity "value used at N=1 = limit of the generic expression next to N=1" (dedicated N~1 branches);
(3) the same rules on every smaller tower the public dispatchers build ((1,0), (2,0), QED (i,j), (4,1), slots 1-3 of the
(4,0) towers); a failure that the full tower shows as well is left to the full tower's case (one defect = one signature).
"""

import math
from fractions import Fraction as Fr

import numpy as np

from vf.core.ctx import Result

ID = "C25"
LEVEL = "exploration"
TECHNIQUE = "exhaustive enumeration of nf x order x sector x N3LO-variant x variation index; oracle = conservation law"
LEVEL_TEXT = (
    "every sum rule named in the statement is evaluated through the public ekore entry points "
    "(gamma_ns, gamma_singlet, their QED grids and the N3LO building blocks) for every nf, order and "
    "N3LO variation index of the quantifier; the value that has to vanish (or to equal -beta_k) is "
    "compared with zero (or with beta coefficients typed from the literature) within the documented "
    "accuracy of the parametrisation of that order"
)
LEVEL_NOTE = (
    "the accuracy classes (exact 1e-11, NLO 3e-5 because of the parametrised Mellin transform g3, "
    "NNLO 3e-4 and FHMRUVV 1e-3 from the documented 0.1% of the x-space parametrisations) are read "
    "from docstrings/tests of the repository; N=1 is approached from the complex plane where the "
    "implementation documents a non-physical pole; rules that the code meets far better than the class of their order are "
    "held to 30 x their measured maximum (TOL_SIG); the value used at N=1 is also compared with the limit of the generic "
    "expression next to N=1; every smaller tower (order (k,0), (i,j)) is asked for the same rules"
)
FLOOR_NONTRIVIAL = 20

# ----------------------------------------------------------------------------- literature
# beta coefficients, a_s = alpha_s/(4 pi):  typed twice (rational, decimal at nf=5) and cross-checked
_BETA = [
    lambda nf: Fr(11) - Fr(2, 3) * nf,
    lambda nf: Fr(102) - Fr(38, 3) * nf,
    lambda nf: Fr(2857, 2) - Fr(5033, 18) * nf + Fr(325, 54) * nf * nf,
]
_BETA_NF5_DECIMAL = [7.666666666666667, 38.666666666666664, 180.90740740740742]
for _k in range(3):
    if abs(float(_BETA[_k](5)) - _BETA_NF5_DECIMAL[_k]) > 1e-12:
        raise RuntimeError("C25: typo in my own beta table")
EU2, ED2 = 4.0 / 9.0, 1.0 / 9.0

# ----------------------------------------------------------------------------- tolerances
# class -> relative tolerance.  Documented accuracy (upper bound) and measured maximum (unchanged tree):
TOL = {
    # closed forms in S1 only: rounding.                                          measured 4e-13
    "exact": 1e-11,
    # exact NLO-type expressions, but with the Pegasus parametrisation of g3 (docstring of
    # mellin_g3: 'approximate'; tests: atol 2e-6 / 4e-5 on O(30), decimal=4 on O(5)).  measured 9.4e-7
    "g3": 3e-5,
    # x-space parametrisations of the NNLO kernels (MVV: 0.1% or better; repository tests pin the
    # residual of the sum rules to <= 1e-2 absolute on O(500)).                   measured 2.1e-5
    "nnlo": 3e-4,
    # eko's own N3LO approximation: sum rules imposed analytically, parametrised sea part.  measured 2.9e-6
    "n3lo-eko": 3e-5,
    # FHMRUVV: docstrings 'high-accuracy (0.1% or better) parametrizations'.       measured 9.9e-5
    "n3lo-fhmruvv": 1e-3,
}
# Per-rule tightening: (pattern on the signature, relative tolerance).  Filled from the per-signature maxima measured on the
# unchanged tree (evidence: max_rel/<signature>), >= 30 x the maximum over nf, variations and both tiers; the class value
# above stays the upper bound.
import re as _re

_EXACT = 1e-11  # rules that the code meets to rounding (measured <= 6e-14): never tighter than the "exact" class
TOL_SIG = [
    (_re.compile(p), t)
    for p, t in [
        # value at N=1 vs limit of the generic branch: measured <= 9.1e-13 (eko-N3LO valence part, 1/(N-1) cancellation: 5.6e-10)
        (r"n3lo-eko\.(number/sector=valence|qed-number/valence)/continuity-at-N=1", 3e-8),
        (r".*/continuity-at-N=1", 1e-10),
        # analytically exact in the code, measured <= 6e-14
        (r"ps\.qg-first-moment/order=2", _EXACT),  # 7.6e-16
        (r"qed\.momentum/order=\((0,2|1,1)\)/column=(g|ph)", _EXACT),  # 8.1e-17
        (r"qed\.momentum/order=\((2,0|3,0)\)/column=(Sdelta|ph)", _EXACT),  # 0
        (r"qed\.number/valence/order=\((2,0|3,0)\)/entry=\((0,1|1,0)\)", _EXACT),  # 0
        (r"n3lo-(eko|fhmruvv)\.qed-number/valence/entry=\((0,1|1,0)\)", _EXACT),  # 0
        (r"n3lo-eko\.number/sector=minus", _EXACT),  # 6.0e-14
        (r"n3lo-eko\.qed-number/sector=minus-(up|down)", _EXACT),  # 6.0e-14
        (r"n3lo-eko\.qed-number/valence/entry=\(1,1\)", _EXACT),  # 7.4e-15
        # eko's own N3LO: momentum imposed analytically
        (r"n3lo-eko\.(momentum/column=quark|qed-momentum/column=S)", 3e-9),  # 5.4e-11
        (r"n3lo-eko\.(momentum/column=gluon|qed-momentum/column=g)", 1e-7),  # 2.3e-9
        # NLO-type rules where the g3 parametrisation enters weakly
        (r"us\.momentum/order=2/column=quark", 1e-6),  # 2.4e-8
        (r"(us|ut)\.number/order=2/sector=(minus|valence)", 1e-6),  # 3.2e-8
        (r"ps\.axial-charge/order=2", 1e-6),  # 2.5e-8
        (r"ut\.momentum/order=2/row=quark", 1e-6),  # 2.8e-8
        (r"ut\.momentum/order=2/row=gluon", 3e-6),  # 9.4e-8
        (r"qed\.momentum/order=\(0,2\)/column=(S|Sdelta)", 3e-6),  # 3.8e-8
        (r"qed\.momentum/order=\(1,1\)/column=Sdelta", 3e-6),  # 9.6e-8
        (r"qed\.momentum/order=\(1,1\)/column=S", 1e-5),  # 1.9e-7
        (r"qed\.momentum/order=\(2,0\)/column=S", 1e-6),  # 2.4e-8
        (r"qed\.number/minus-(up|down)/order=\(0,2\)", 3e-6),  # 8.5e-8
        (r"qed\.number/minus-(up|down)/order=\(2,0\)", 1e-6),  # 2.5e-8
        (r"qed\.number/valence/order=\(0,2\)/entry=\(\d,\d\)", 3e-6),  # 7.8e-8
        (r"qed\.number/valence/order=\(2,0\)/entry=\((0,0|1,1)\)", 1e-6),  # 2.5e-8
        # NNLO time-like momentum
        (r"ut\.momentum/order=3/row=(quark|gluon)", 3e-5),  # 1.0e-6
    ]
]
NREF = (2.0, 3.0, 5.0, 8.0)
V0 = (0, 0, 0, 0, 0, 0, 0)
EKO_NVAR = {"gg": 19, "gq": 15, "qg": 15, "qq": 6}  # documented number of variations of eko's own N3LO


def _cls(kind, i, j=0):
    """Accuracy class of the O(as^i aem^j) coefficient."""
    if j == 0:
        return {1: "exact", 2: "g3", 3: "nnlo"}[i]
    if (i, j) == (0, 1):
        return "exact"
    return "g3"


def _sigkey(sig):
    """Signature without the tower coordinate (the same function value is expected in every tower)."""
    import re

    return re.sub(r"\[tower=[^\]]*\]", "", sig)


def _tol(sig, cls):
    """Relative tolerance of one rule: the accuracy class of its order, tightened per signature where the rule is met
    much better on the unchanged tree (TOL_SIG: >= 30 x the measured maximum of that signature, both tiers)."""
    t = TOL[cls]
    k = _sigkey(sig)
    for pat, v in TOL_SIG:
        if pat.fullmatch(k):
            return min(t, v)
    return t


class _Acc:
    """Collects oracle evaluations of one case."""

    def __init__(self, res):
        self.res = res
        self.n = 0
        self.maxrel = {}

    def zero(self, sig, cls, dev, scale, what):
        """|dev| <= tolerance(sig, cls) * scale ."""
        self.n += 1
        scale = float(scale)
        dev = abs(complex(dev))
        if not math.isfinite(dev) or not math.isfinite(scale) or scale <= 0:
            self.res.fail(sig + "/not-finite", f"{what}: deviation={dev} scale={scale}")
            return
        rel = dev / scale
        tol = _tol(sig, cls)
        for key, val in (("max_rel_" + cls, rel), ("max_rel/" + _sigkey(sig), rel), ("max_rel_over_tolerance", rel / tol)):
            self.maxrel[key] = max(self.maxrel.get(key, 0.0), val)
        if rel > tol:
            self.res.fail(
                sig,
                f"{what}: |deviation|={dev:.6e} scale={scale:.6e} relative={rel:.3e} > {tol:g} ({cls}"
                + ("" if tol == TOL[cls] else ", tightened for this rule") + ")",
            )

    def continuous(self, sig, cls, f, val, scale, what):
        """The value used for a rule at N=1 (possibly from a dedicated N~1 branch) is the limit of the generic
        expression: |val - mean of f over the six directions at |N-1| = 1e-3| <= tolerance * scale."""
        try:
            lim = _limit_N(f, 1.0, delta=CONT_DELTA, m=6)
        except Exception as e:  # noqa
            self.res.fail(sig + "/raises", f"{what}: {type(e).__name__}: {e} at |N-1|={CONT_DELTA}")
            return
        self.zero(sig, cls, np.max(np.abs(np.asarray(val) - np.asarray(lim))), scale, f"{what}: value at N=1 {val} vs limit of the generic branch {lim}")


def _call(res, sig, f, *a):
    try:
        return f(*a)
    except Exception as e:  # noqa
        res.fail(sig + "/raises", f"{type(e).__name__}: {e} args={a!r}"[:400])
        return None


CONT_DELTA = 1e-3  # outside the 1e-5 windows of the dedicated N~1 branches


def _limit_N(f, n0, delta=1e-6, m=3):
    """Mean over the m directions of the m-th roots of unity: f(n0) + O(delta^m) for analytic f."""
    w = [complex(math.cos(2 * math.pi * k / m), math.sin(2 * math.pi * k / m)) for k in range(m)]
    return sum(f(n0 + delta * wk) for wk in w) / float(m)


# ----------------------------------------------------------------------------- evaluators
def _qcd_like(case, res, acc):
    """unpolarised space-like / time-like / polarised: the tower of order (K,0), K = 3 (default) or 1, 2."""
    kind, nf = case["kind"], case["nf"]
    KT = int(case.get("order", 3))  # order of the tower that is requested
    K = min(KT, 3)  # slots looked at here (slot 4 of a (4,0) tower: _n3lo)
    o = (KT, 0)
    if kind == "us":
        import ekore.anomalous_dimensions.unpolarized.space_like as ad

        fhm = case.get("variant", "fhmruvv") == "fhmruvv"
        sing_full = lambda N: ad.gamma_singlet(o, N, nf, V0, fhm)
        sing = lambda N: sing_full(N)[:K]
        ns = lambda mode, N: ad.gamma_ns(o, mode, N, nf, V0, fhm)[:K]
    elif kind == "ut":
        import ekore.anomalous_dimensions.unpolarized.time_like as ad

        sing = sing_full = lambda N: ad.gamma_singlet(o, N, nf)
        ns = lambda mode, N: ad.gamma_ns(o, mode, N, nf)
    else:
        import ekore.anomalous_dimensions.polarized.space_like as ad

        sing = sing_full = lambda N: ad.gamma_singlet(o, N, nf)
        ns = lambda mode, N: ad.gamma_ns(o, mode, N, nf)
    if kind != "us" and KT > 3:
        raise ValueError("time-like and polarised towers end at order 3")
    base = f"{kind}" if KT == 3 else f"{kind}[tower=({KT},0)" + (f",{case['variant']}" if KT == 4 else "") + "]"
    # reference scales per order
    sref = np.max([np.abs(sing(N)).reshape(K, -1).max(axis=1) for N in NREF], axis=0)

    def nsref(mode):
        return np.max([np.abs(ns(mode, N)) for N in NREF], axis=0)

    if kind in ("us", "ut"):
        g = _call(res, f"{base}.gamma_singlet/N=2", sing, 2.0)
        if g is not None:
            nfull = len(sing_full(3.0))
            if nfull != KT:
                res.fail(f"{base}.gamma_singlet/shape", f"tower of order {o} has {nfull} entries")
            for k in range(min(K, len(g))):
                m = g[k]
                if kind == "us":
                    # d/dt (Sigma + g) = 0 for any input: column sums of [[qq,qg],[gq,gg]]
                    for col, name in ((0, "quark"), (1, "gluon")):
                        acc.zero(
                            f"{base}.momentum/order={k+1}/column={name}",
                            _cls(kind, k + 1),
                            m[0, col] + m[1, col],
                            max(abs(m[0, col]) + abs(m[1, col]), sref[k]),
                            f"nf={nf} N=2 gamma^({k})[:, {name}] = {m[:, col]}",
                        )
                else:
                    # fragmentation functions: every parton carries unit momentum into hadrons,
                    # (D_Sigma, D_g) has second moments (2 nf, 1)  =>  M . (2nf, 1)^T = 0 row by row
                    for row, name in ((0, "quark"), (1, "gluon")):
                        acc.zero(
                            f"{base}.momentum/order={k+1}/row={name}",
                            _cls(kind, k + 1),
                            2 * nf * m[row, 0] + m[row, 1],
                            max(abs(2 * nf * m[row, 0]) + abs(m[row, 1]), sref[k]),
                            f"nf={nf} N=2 gamma^({k})[{name}, :] = {m[row, :]} weights (2nf, 1)",
                        )
        # quark number: minus and valence
        for mode, name in ((10201, "minus"), (10200, "valence")):
            sr = nsref(mode)
            try:
                v = ns(mode, 1.0)
            except ZeroDivisionError as e:
                # slot 4 of eko's own N3LO valence tower: documented non-physical pole at N=1 (see _n3lo_ns) -> limit
                if not (kind == "us" and KT == 4 and not fhm and name == "valence"):
                    res.fail(
                        f"{base}.gamma_ns/mode={name}/N=1/raises",
                        f"gamma_ns({o}, {mode}, 1.0, nf={nf}) raises ZeroDivisionError({e}); the limit "
                        "N->1 exists (checked next) and the source carries a dedicated N=1 branch",
                    )
                v = _limit_N(lambda N: ns(mode, N), 1.0)
            except Exception as e:  # noqa
                res.fail(f"{base}.gamma_ns/mode={name}/N=1/raises", f"{type(e).__name__}: {e}")
                continue
            for k in range(K):
                acc.zero(
                    f"{base}.number/order={k+1}/sector={name}",
                    _cls(kind, k + 1),
                    v[k],
                    sr[k],
                    f"nf={nf} gamma_ns^({k})(N=1) = {v[k]}",
                )
            if CONT_DELTA:
                try:
                    lim = _limit_N(lambda N: ns(mode, N), 1.0, delta=CONT_DELTA, m=6)
                except Exception as e:  # noqa
                    res.fail(f"{base}.gamma_ns/mode={name}/near-N=1/raises", f"{type(e).__name__}: {e}")
                    continue
                for k in range(K):
                    acc.zero(
                        f"{base}.number/order={k+1}/sector={name}/continuity-at-N=1",
                        _cls(kind, k + 1),
                        v[k] - lim[k],
                        sr[k],
                        f"nf={nf} gamma_ns^({k}): value at N=1 {v[k]} vs limit of the generic branch (|N-1|={CONT_DELTA}) {lim[k]}",
                    )
    else:
        # polarised: first moments
        g = _call(res, f"{base}.gamma_singlet/N=1", sing, 1.0)
        if g is not None:
            nfull = len(sing_full(3.0))
            if nfull != KT:
                res.fail(f"{base}.gamma_singlet/shape", f"tower of order {o} has {nfull} entries")
            lim = None
            if CONT_DELTA:
                lim = _call(res, f"{base}.gamma_singlet/near-N=1", _limit_N, sing, 1.0, CONT_DELTA, 6)
            for k in range(min(K, len(g))):
                m = g[k]
                acc.zero(
                    f"{base}.qg-first-moment/order={k+1}",
                    _cls(kind, k + 1),
                    m[0, 1],
                    sref[k],
                    f"nf={nf} gamma_qg^({k})(N=1) = {m[0,1]}",
                )
                bk = float(_BETA[k](nf))
                acc.zero(
                    f"{base}.gg-first-moment-vs-beta/order={k+1}",
                    _cls(kind, k + 1),
                    m[1, 1] + bk,
                    max(abs(bk), sref[k]),
                    f"nf={nf} gamma_gg^({k})(N=1) = {m[1,1]} , -beta_{k} = {-bk}",
                )
                if lim is not None:
                    for (a, b), nm in (((0, 1), "qg-first-moment"), ((1, 1), "gg-first-moment-vs-beta")):
                        acc.zero(
                            f"{base}.{nm}/order={k+1}/continuity-at-N=1",
                            _cls(kind, k + 1),
                            m[a, b] - lim[k][a, b],
                            max(abs(bk), sref[k]) if a == 1 else sref[k],
                            f"nf={nf} gamma^({k})[{a},{b}]: value at N=1 {m[a,b]} vs limit of the generic branch (|N-1|={CONT_DELTA}) {lim[k][a,b]}",
                        )
        sr = nsref(10101)
        v = _call(res, f"{base}.gamma_ns/N=1", ns, 10101, 1.0)
        if v is not None:
            for k in range(K):
                acc.zero(
                    f"{base}.axial-charge/order={k+1}",
                    _cls(kind, k + 1),
                    v[k],
                    sr[k],
                    f"nf={nf} polarised gamma_ns+^({k})(N=1) = {v[k]}",
                )
            if CONT_DELTA:
                lim = _call(res, f"{base}.gamma_ns/near-N=1", _limit_N, lambda N: ns(10101, N), 1.0, CONT_DELTA, 6)
                for k in range(K if lim is not None else 0):
                    acc.zero(
                        f"{base}.axial-charge/order={k+1}/continuity-at-N=1",
                        _cls(kind, k + 1),
                        v[k] - lim[k],
                        sr[k],
                        f"nf={nf} polarised gamma_ns+^({k}): value at N=1 {v[k]} vs limit of the generic branch {lim[k]}",
                    )


def _qed_filled(order):
    I, J = order
    return [(i, j) for (i, j) in ((1, 0), (2, 0), (3, 0), (0, 1), (1, 1), (0, 2)) if i <= I and j <= J]


def _qed(case, res, acc):
    """QED grids of order (I,J): (3,2) by default, or one of the smaller towers."""
    import ekore.anomalous_dimensions.unpolarized.space_like as ad

    nf = case["nf"]
    order = tuple(case.get("order", (3, 2)))
    I, J = order
    filled = _qed_filled(order)
    base = "qed" if order == (3, 2) else f"qed[tower=({I},{J})]"
    g = _call(res, f"{base}.gamma_singlet_qed/N=2", ad.gamma_singlet_qed, order, 2.0, nf, V0)
    names = ("g", "ph", "S", "Sdelta")
    if g is not None:
        if g.shape[:2] != (I + 1, J + 1):
            res.fail(f"{base}.gamma_singlet_qed/shape", f"grid of order {order} has shape {g.shape}")
            return
        gref = np.max([np.abs(ad.gamma_singlet_qed(order, N, nf, V0)).max(axis=(2, 3)) for N in NREF], axis=0)
        for i in range(I + 1):
            for j in range(J + 1):
                if (i, j) not in filled:
                    if np.abs(g[i, j]).max() != 0:
                        res.fail(f"{base}.singlet/order=({i},{j})/not-empty", f"nf={nf} {g[i,j]}")
                    continue
                m = g[i, j]
                for col in range(4):
                    acc.zero(
                        f"{base}.momentum/order=({i},{j})/column={names[col]}",
                        _cls("qed", i, j),
                        m[0, col] + m[1, col] + m[2, col],
                        max(abs(m[0, col]) + abs(m[1, col]) + abs(m[2, col]), gref[i, j]),
                        f"nf={nf} N=2 gamma^({i},{j})[(g,ph,S), {names[col]}] = {m[:3, col]}",
                    )
    fv = lambda N: ad.gamma_valence_qed(order, N, nf, V0)
    gv1 = _call(res, f"{base}.gamma_valence_qed/N=1", fv, 1.0)
    if gv1 is not None:
        ref = np.max([np.abs(fv(N)).max(axis=(2, 3)) for N in NREF], axis=0)
        lim = _call(res, f"{base}.gamma_valence_qed/near-N=1", _limit_N, fv, 1.0, CONT_DELTA, 6)
        for i in range(I + 1):
            for j in range(J + 1):
                if ref[i, j] == 0:
                    if (i, j) in filled:
                        res.fail(f"{base}.valence/order=({i},{j})/empty", f"nf={nf}: slot ({i},{j}) of the valence grid of order {order} vanishes on N={NREF}")
                    continue
                for a in range(2):
                    for b in range(2):
                        acc.zero(
                            f"{base}.number/valence/order=({i},{j})/entry=({a},{b})",
                            _cls("qed", i, j),
                            gv1[i, j][a, b],
                            ref[i, j],
                            f"nf={nf} gamma_V^({i},{j})(N=1)[{a},{b}] = {gv1[i,j][a,b]}",
                        )
                        if lim is not None:
                            acc.zero(
                                f"{base}.number/valence/order=({i},{j})/entry=({a},{b})/continuity-at-N=1",
                                _cls("qed", i, j),
                                gv1[i, j][a, b] - lim[i, j][a, b],
                                ref[i, j],
                                f"nf={nf} gamma_V^({i},{j})[{a},{b}]: value at N=1 {gv1[i,j][a,b]} vs limit of the generic branch {lim[i,j][a,b]}",
                            )
    for mode, name in ((10202, "minus-up"), (10203, "minus-down")):
        fm = lambda N: ad.gamma_ns_qed(order, mode, N, nf, V0)
        v = _call(res, f"{base}.gamma_ns_qed/N=1", fm, 1.0)
        if v is None:
            continue
        ref = np.max([np.abs(fm(N)) for N in NREF], axis=0)
        lim = _call(res, f"{base}.gamma_ns_qed/near-N=1", _limit_N, fm, 1.0, CONT_DELTA, 6)
        for i in range(I + 1):
            for j in range(J + 1):
                if ref[i, j] == 0:
                    if (i, j) in filled:
                        res.fail(f"{base}.{name}/order=({i},{j})/empty", f"nf={nf}: slot ({i},{j}) of the ns grid of order {order} vanishes on N={NREF}")
                    continue
                acc.zero(
                    f"{base}.number/{name}/order=({i},{j})",
                    _cls("qed", i, j),
                    v[i, j],
                    ref[i, j],
                    f"nf={nf} gamma_ns^({i},{j})(N=1) = {v[i,j]}",
                )
                if lim is not None:
                    acc.zero(
                        f"{base}.number/{name}/order=({i},{j})/continuity-at-N=1",
                        _cls("qed", i, j),
                        v[i, j] - lim[i, j],
                        ref[i, j],
                        f"nf={nf} gamma_ns^({i},{j}): value at N=1 {v[i,j]} vs limit of the generic branch {lim[i,j]}",
                    )


def _n3lo(case, res, acc):
    """(4,0): both variants, all variation indices; through QCD and QED entry points."""
    import ekore.anomalous_dimensions.unpolarized.space_like as ad

    nf, variant = case["nf"], case["variant"]
    fh = variant == "fhmruvv"
    cls = "n3lo-fhmruvv" if fh else "n3lo-eko"
    nvar = {"gg": 2, "gq": 2, "qg": 2, "qq": 2} if fh else EKO_NVAR
    base = f"n3lo-{variant}"

    def tup(**kw):
        t = list(V0)
        for k, v in kw.items():
            t[{"gg": 0, "gq": 1, "qg": 2, "qq": 3, "nsp": 4, "nsm": 5, "nsv": 6}[k]] = v
        return tuple(t)

    try:
        sref = max(np.abs(ad.gamma_singlet((4, 0), N, nf, V0, fh)[3]).max() for N in NREF)
    except Exception as e:  # noqa
        res.fail(f"{base}.gamma_singlet/raises", f"{type(e).__name__}: {e} nf={nf}")
        return
    # momentum: the quark column is built from (qq, gq), the gluon column from (qg, gg)
    part = case.get("part")  # None: everything; ["col", c, ia]: one slice of a column; "rest": no column
    for col, name, (va, vb) in ((0, "quark", ("qq", "gq")), (1, "gluon", ("qg", "gg"))):
        if part == "rest" or (isinstance(part, list) and part[1] != col):
            continue
        for ia in range(nvar[va] + 1):
            if isinstance(part, list) and part[2] != ia:
                continue
            for ib in range(nvar[vb] + 1):
                t = tup(**{va: ia, vb: ib})
                g = _call(res, f"{base}.gamma_singlet/N=2", ad.gamma_singlet, (4, 0), 2.0, nf, t, fh)
                if g is None:
                    return
                m = g[3]
                acc.zero(
                    f"{base}.momentum/column={name}",
                    cls,
                    m[0, col] + m[1, col],
                    max(abs(m[0, col]) + abs(m[1, col]), sref),
                    f"nf={nf} variation={t} N=2 gamma^(3)[:, {name}] = {m[:, col]}",
                )
    if isinstance(part, list):
        return
    # the same slot of the QED grid (uniform variations)
    for qo in ((4, 2), (4, 1)):
        tw = "" if qo == (4, 2) else "[tower=(4,1)]"
        for v in range(0, 3):
            t = (v,) * 7
            g = _call(res, f"{base}{tw}.gamma_singlet_qed/N=2", ad.gamma_singlet_qed, qo, 2.0, nf, t, fh)
            if g is None:
                break
            m = g[4, 0]
            for col, name in ((0, "g"), (2, "S")):
                acc.zero(
                    f"{base}{tw}.qed-momentum/column={name}",
                    cls,
                    m[0, col] + m[1, col] + m[2, col],
                    max(abs(m[0, col]) + abs(m[1, col]) + abs(m[2, col]), sref),
                    f"nf={nf} order={qo} variation={t} N=2 gamma^(4,0)[(g,ph,S), {name}] = {m[:3, col]}",
                )
    _n3lo_ns(case, res, acc, ad, fh, cls, base, tup)


def _n3lo_ns(case, res, acc, ad, fh, cls, base, tup):
    nf = case["nf"]
    for mode, name, key in ((10201, "minus", "nsm"), (10200, "valence", "nsv")):
        for v in range(3 if fh else 1):
            t = tup(**{key: v})
            f = lambda N: ad.gamma_ns((4, 0), mode, N, nf, t, fh)[3]
            sr = max(abs(f(N)) for N in NREF)
            try:
                val = f(1.0)
            except ZeroDivisionError:
                # eko's own gamma_nsv: 'the exact expression (nf^2 part) has an nonphysical pole at
                # N=1 ... This should cancel when doing the limit' (tests/.../test_as4.py) -> limit
                if fh or name != "valence":
                    res.fail(f"{base}.gamma_ns/mode={name}/N=1/raises", f"ZeroDivisionError nf={nf} variation={t}")
                val = _limit_N(f, 1.0)
            except Exception as e:  # noqa
                res.fail(f"{base}.gamma_ns/mode={name}/N=1/raises", f"{type(e).__name__}: {e}")
                continue
            acc.zero(
                f"{base}.number/sector={name}",
                cls,
                val,
                sr,
                f"nf={nf} variation={t} gamma_ns^(3)(N->1) = {val}",
            )
            acc.continuous(f"{base}.number/sector={name}/continuity-at-N=1", cls, f, val, sr, f"nf={nf} variation={t} gamma_ns^(3)")
    # QED non-singlet minus sectors, slot (4,0) of the (4,1) and (4,2) towers (both N3LO variants)
    for qo in ((4, 1), (4, 2)):
        for mode, name in ((10202, "minus-up"), (10203, "minus-down")):
            for v in range(3 if fh else 1):
                t = tup(nsm=v)
                fq = lambda N: ad.gamma_ns_qed(qo, mode, N, nf, t, fh)[4, 0]
                try:
                    sr = max(abs(fq(N)) for N in NREF)
                    try:
                        val = fq(1.0)
                    except ZeroDivisionError:
                        val = _limit_N(fq, 1.0)
                except Exception as e:  # noqa
                    res.fail(f"{base}.gamma_ns_qed/mode={name}/raises", f"{type(e).__name__}: {e} order={qo} nf={nf}")
                    continue
                acc.zero(
                    f"{base}.qed-number/sector={name}",
                    cls,
                    val,
                    sr,
                    f"nf={nf} order={qo} variation={t} gamma_ns_qed^(4,0)(N->1) = {val}",
                )
                acc.continuous(f"{base}.qed-number/sector={name}/continuity-at-N=1", cls, fq, val, sr, f"nf={nf} order={qo} variation={t} gamma_ns_qed^(4,0)")
    # QED valence grid, slot (4,0), of both towers that contain it
    for qo in ((4, 2), (4, 1)):
        tw = "" if qo == (4, 2) else "[tower=(4,1)]"
        for v in range(3 if fh else 1):
            t = (v,) * 7
            f = lambda N: ad.gamma_valence_qed(qo, N, nf, t, fh)[4, 0]
            sr = max(np.abs(f(N)).max() for N in NREF)
            try:
                val = f(1.0)
            except ZeroDivisionError:
                if fh:
                    res.fail(f"{base}{tw}.gamma_valence_qed/N=1/raises", f"ZeroDivisionError nf={nf} variation={t}")
                val = _limit_N(f, 1.0)
            except Exception as e:  # noqa
                res.fail(f"{base}{tw}.gamma_valence_qed/N=1/raises", f"{type(e).__name__}: {e}")
                continue
            for a in range(2):
                for b in range(2):
                    acc.zero(
                        f"{base}{tw}.qed-number/valence/entry=({a},{b})",
                        cls,
                        val[a, b],
                        sr,
                        f"nf={nf} order={qo} variation={t} gamma_V^(4,0)(N->1)[{a},{b}] = {val[a,b]}",
                    )
            acc.continuous(f"{base}{tw}.qed-number/valence/continuity-at-N=1", cls, f, val, sr, f"nf={nf} order={qo} variation={t} gamma_V^(4,0)")


MEAN_N = [1.0, 2.0, 3.0, 4.5, 10.0, 37.0, complex(2.0, 3.0), complex(1.5, -2.0), complex(0.7, 10.0), complex(20.0, 40.0), complex(1.0, 1e-3)]


def _fh_mean(case, res, acc):
    """FHMRUVV: central = mean of the two documented variations, function by function."""
    from ekore.anomalous_dimensions.unpolarized.space_like.as4 import fhmruvv as fh
    from ekore.harmonics import cache as c

    nf = case["nf"]
    fns = {
        "gg": fh.gamma_gg,
        "gq": fh.gamma_gq,
        "qg": fh.gamma_qg,
        "ps": fh.gamma_ps,
        "nsp": fh.gamma_nsp,
        "nsm": fh.gamma_nsm,
        "nsv": fh.gamma_nsv,
    }
    ref = {name: max(abs(f(N, nf, c.reset(), 0)) for N in NREF) for name, f in fns.items()}
    for name, f in fns.items():
        for N in MEAN_N:
            if N == 1.0 and name in ("gg", "gq", "ps", "qg"):
                continue  # physical pole of the singlet entries
            try:
                v = [f(N, nf, c.reset(), k) for k in (0, 1, 2, 3)]
            except Exception as e:  # noqa
                res.fail(f"fhmruvv.{name}/raises", f"{type(e).__name__}: {e} N={N} nf={nf}")
                continue
            sc = max(max(abs(x) for x in v), ref[name])
            acc.zero(
                f"fhmruvv.central-is-mean/{name}",
                "exact",
                v[0] - 0.5 * (v[1] + v[2]),
                sc,
                f"nf={nf} N={N} central={v[0]} up={v[1]} down={v[2]}",
            )
            # 'Any other value of IMOD invokes their average'
            acc.zero(
                f"fhmruvv.other-index-is-central/{name}",
                "exact",
                v[3] - v[0],
                sc,
                f"nf={nf} N={N} variation=3 -> {v[3]} central={v[0]}",
            )
            if abs(v[1] - v[2]) > 1e-9 * sc:
                acc.spread = getattr(acc, "spread", 0) + 1


def evaluate(case):
    res = Result()
    acc = _Acc(res)
    kind = case["kind"]
    if kind in ("us", "ut", "ps"):
        _qcd_like(case, res, acc)
    elif kind == "qed":
        _qed(case, res, acc)
    elif kind == "n3lo":
        _n3lo(case, res, acc)
    elif kind == "fhmruvv-mean":
        _fh_mean(case, res, acc)
    else:
        raise ValueError(kind)
    shared = 0
    if "order" in case and kind in ("us", "ut", "ps", "qed"):
        # one defect = one signature: a rule that the full tower ((3,0) | (3,2)) breaks in the same way is a defect of the
        # function itself and is reported by the full tower's own case; a smaller tower reports only what is wrong in it
        # although the full tower meets the rule (slot filled from the wrong function, slot left empty, ...)
        full = {k: v for k, v in case.items() if k not in ("order", "variant")}
        res0 = Result()
        (_qed if kind == "qed" else _qcd_like)(full, res0, _Acc(res0))
        broken = {_sigkey(f.signature) for f in res0.fails}
        shared = sum(_sigkey(f.signature) in broken for f in res.fails)
        res.fails = [f for f in res.fails if _sigkey(f.signature) not in broken]
    if kind == "n3lo":
        # the (4,1) towers are looked at in the same case as the (4,2) towers: same rule
        plain = {f.signature for f in res.fails if "[tower=" not in f.signature}
        shared = sum("[tower=" in f.signature and _sigkey(f.signature) in plain for f in res.fails)
        res.fails = [f for f in res.fails if "[tower=" not in f.signature or _sigkey(f.signature) not in plain]
    res.info = dict(acc.maxrel)
    res.info["rules"] = acc.n
    res.info["failures_left_to_the_full_tower_case"] = shared
    if kind == "fhmruvv-mean":
        res.info["points_with_distinct_up_down"] = getattr(acc, "spread", 0)
        res.nontrivial = getattr(acc, "spread", 0) > 0
    else:
        res.nontrivial = acc.n > 0
    tower = ""
    if "order" in case:
        tower = "@" + ",".join(map(str, case["order"] if isinstance(case["order"], list) else [case["order"], 0]))
    res.outcome = f"{kind}{tower}{'-' + case['variant'] if 'variant' in case else ''}:{'fail' if res.fails else 'ok'}:rules={acc.n}"
    return res


QED_TOWERS = [(1, 1), (1, 2), (2, 1), (2, 2), (3, 1)]  # besides (3,2); (4,1), (4,2) are looked at by the N3LO cases


def run(ctx):
    cases = []
    for nf in (3, 4, 5, 6):
        for kind in ("us", "ut", "ps", "qed"):
            cases.append({"kind": kind, "nf": nf})
        # eko's own N3LO: ~20 ms per evaluation, so one case per (column, first variation index)
        cases.append({"kind": "n3lo", "variant": "eko", "nf": nf, "part": "rest"})
        for col, va in ((0, "qq"), (1, "qg")):
            for ia in range(EKO_NVAR[va] + 1):
                cases.append({"kind": "n3lo", "variant": "eko", "nf": nf, "part": ["col", col, ia]})
    for nf in (3, 4, 5):
        cases.append({"kind": "n3lo", "variant": "fhmruvv", "nf": nf})
        cases.append({"kind": "fhmruvv-mean", "nf": nf})
    # "at every perturbative order": the same rules on the towers the public entry points build for every smaller order
    # (the dispatchers fill slot k only if order >= k), and on the lower slots of the N3LO towers
    for nf in (3, 4, 5, 6):
        for kind in ("us", "ut", "ps"):
            for k in (1, 2):
                cases.append({"kind": kind, "nf": nf, "order": k})
        for o in QED_TOWERS:
            cases.append({"kind": "qed", "nf": nf, "order": list(o)})
        cases.append({"kind": "us", "nf": nf, "order": 4, "variant": "eko"})
        if nf <= 5:
            cases.append({"kind": "us", "nf": nf, "order": 4, "variant": "fhmruvv"})
    results = ctx.run_cases(cases, evaluate)
    ctx.extra["rules_evaluated"] = sum((r[1][3] or {}).get("rules", 0) for r in results)
    ctx.extra["distinct_rule_signatures"] = len({k for r in results for k in (r[1][3] or {}) if k.startswith("max_rel/")})
    ctx.rule = (
        "complete product: kinds {unpolarised space-like, time-like, polarised} x nf 3-6 x orders 1-3 x "
        "{both momentum rules at N=2, quark number of minus and valence at N=1 | polarised: qg, gg+beta_k, "
        "ns+ at N=1}; QED grids of order (3,2) x nf 3-6 x all six filled slots x 4 momentum columns + "
        "4 valence entries + 2 minus sectors; N3LO: eko variant nf 3-6 with the complete products of the "
        "variation indices that enter one momentum column (7x16 quark, 16x20 gluon), FHMRUVV nf 3-5 with "
        "3x3 per column and 3 per non-singlet sector, both also through the (4,0) slot of the QED grids (4,1) and (4,2); "
        "FHMRUVV central=mean for 7 functions x nf 3-5 x 11 N (real, complex, near N=1); "
        "the same rules on every smaller tower the public entry points build: QCD towers (1,0), (2,0) of the three kinds, "
        f"QED towers {QED_TOWERS}, and slots 1-3 of the (4,0) towers of both N3LO variants (nf 3-6 | 3-5); "
        "every rule at N=1 additionally as continuity: value used at N=1 (dedicated N~1 branch where there is one) = mean of the "
        f"generic expression over six directions at |N-1|={CONT_DELTA:g}; the same set in "
        "both tiers; non-trivial = at least one rule evaluated (fhmruvv-mean: up and "
        "down variations really differ); a filled slot that vanishes on N in {2,3,5,8} is a failure (vacuity)"
    )
    ctx.assumptions += [
        "sum rules are moment statements: decided at N=2 and N=1 exactly (N->1 as the mean over three complex directions at |N-1|=1e-6 where the implementation has a documented removable pole)",
        "relative tolerance classes: " + ", ".join(f"{k}={v:g}" for k, v in TOL.items())
        + f"; tightened per rule (TOL_SIG, {len(TOL_SIG)} patterns, >= 30 x the maximum measured for that rule, never below 1e-11) "
        "where a rule is met much better than its class; per-rule measured maxima: max_rel/<signature>, worst ratio to the "
        "applied tolerance: max_rel_over_tolerance",
        "time-like momentum rule in the fragmentation convention: rows of the matrix acting on (D_Sigma, D_g) are orthogonal to (2 nf, 1)",
        "FHMRUVV singlet is refused for nf=6 by the implementation (documented); its non-singlet part is checked for nf 3-5 as in the quantifier",
        "continuity at N=1: the six-direction mean is exact up to O(|N-1|^6) for a function analytic in the unit disc around N=1",
    ]
