"""C29 matching elements: sum rules and renormalisation-group structure of the L-dependence.

Four families of cases, all enumerated completely:

sumrule        unpolarised space-like A^(1..3): momentum (g and q columns incl. the H row) at N=2 and
               quark number of the non-singlet element at N=1, for nf 3-5 x L in {-3..3} x both mass
               schemes; N=2 / N=1 exactly where finite and as the mean over three complex directions at
               |dN| in {1e-3, 1e-5} (kills the O(dN), O(dN^2) terms of an analytic function).
rg-derivative  order by order, dA_k/dL (five-point stencil, exact for the polynomial L-dependence) against
               the combination of anomalous dimensions, beta coefficients and decoupling constants that
               renormalisation-group invariance of f^(nf+1) = A f^(nf) requires (vf/ref/c25_rgseam.py);
               kinds us (k<=3), ps (k<=2), ut (k=1) x nf 3-5 x 7 N x 7 L.  Three oracles per entry: relative to
               max(own terms, fraction of the largest entry) [the original one], relative to the entry's own terms
               (per-entry tolerances at third order), and L-independence of the residual (the parametrised
               constants enter only its L^0 part, so the L^2, L^3 terms are decided far below their accuracy).
rg-exponent    the matched operator E^(nf+1) R A(ln k) E^(nf) from the real kernels, the real Couplings
               (threshold ratio k) and the real build_ome (forward, exact and expanded inverse): its
               dependence on k must vanish like a_s^n; scaling-exponent oracle of DESIGN 2.3.
build-ome      expanded / exact inverse of build_ome against the forward matrix.

Recorded defect (known_findings.jsonl: rg-derivative/ps/A2/entry=Hg and rg-exponent/ps/n=3/forward/class=light):
the single-log coefficient of the polarised A_Hg^(2) is twice the RG value.  It is pinned to its model: the listed
signatures are emitted only where the residual of the identity equals -gamma_qg^(1),pol(N, nf=1) (independent of L
and nf, 1e-11) resp. where the exponent is n-1 AND the same evaluation with that one term corrected reaches n
(.../class=light/known-removed).  Any other failure of these entries carries /beyond-known and is a violation.

What is *not* demanded (documented gaps of the implementation, reported as info only): the intrinsic
heavy-quark input column beyond A^(1) (doc/source/theory/Matching.rst: 'A_qH^(2), A_gH^(2), A_HH^(2)
are not encoded'), any intrinsic column for polarised and time-like ('not considered'), time-like
matching beyond A^(1) ('NNLO contributions are currently unknown'), MSbar terms beyond A^(2), the
valence/plus non-singlet at third order (eko matches V and T_i with the ns- element, 'always 0 for the
moment' in operator_matrix_element.py) and therefore the backward direction at the order where those
missing elements enter the light columns.
"""

import math

import numpy as np

from vf.core.ctx import Result
from vf.ref import c25_rgseam as rs

ID = "C29"
LEVEL = "exploration"
TECHNIQUE = (
    "exhaustive lattices (nf x L x N x order x scheme x direction); oracles: conservation laws, the "
    "order-by-order renormalisation-group identity for dA/dL, and the scaling exponent of the "
    "matching-scale dependence of the matched operator"
)
LEVEL_TEXT = (
    "the sum rules of the unpolarised matching elements are evaluated on the full lattice nf 3-5 x L "
    "-3..3 x orders 1-3 (N -> 2 and N -> 1 also from the complex plane); the L-dependence of every "
    "implemented light-flavour element (unpolarised to third, polarised to second, time-like to first "
    "order) is compared with the derivative that renormalisation-group invariance dictates, given eko's "
    "own anomalous dimensions and decoupling constants (every entry relative to its own terms; the powers "
    "of L beyond the single logarithm separately through the L-independence of the residual); and the matched operator built from the real "
    "kernels, couplings and build_ome is shown to depend on the matching scale only at the next order "
    "(local exponent of the residual under a_s -> lambda a_s, lambda down to 2^-9..2^-11)"
)
LEVEL_NOTE = (
    "trusted: the derivation of the RG identity in vf/ref/c25_rgseam.py (validated on the unchanged tree: "
    "the unpolarised elements satisfy it to 5e-14 at first and second order and to 9e-5 at third order), the flavour rotation of "
    "Matching.rst, expanded-coupling solutions; decided on the lattices only; at third order the single-log "
    "coefficients are decided to the accuracy of the parametrised gamma^(2) only (1e-4 .. 4e-3 of the entry's terms, "
    "Hq worst), the L^2, L^3 coefficients to 1e-12 (gq, qg, Hq) .. 2e-6 (gg, Hg); the recorded defect of the "
    "polarised A_Hg^(2) is pinned to its model and removed on the fly for a second evaluation of the scaling oracle"
)
FLOOR_NONTRIVIAL = 40

NFS = (3, 4, 5)
LS = (-3.0, -2.0, -1.0, 0.0, 1.0, 2.0, 3.0)
NREF = (2.0, 3.0, 5.0, 8.0)

# relative tolerances per order of the matching element (1,2,3)
# order 1: closed forms;  order 2: exact expressions with parametrised special functions (tests: rtol 4e-5);
# order 3: 'some parts ... have been parameterized' (tests: aHg_param rtol 7e-4; a_qqNS atol 6e-5).
TOL_SUM = {1: 1e-11, 2: 1e-6, 3: 3e-6}  # measured 4e-14 (exact N) / 5.6e-8 / 2.0e-7  (were 2e-6 / 1e-5)
TOL_RG = {1: 1e-10, 2: 1e-10, 3: 1e-3}  # measured 4.6e-14 / 8.1e-15 / 8.5e-5 (order 2 was 3e-6: every term is a closed form)
# an entry is compared relative to the sum of the moduli of the terms of the identity for that entry, but not
# less than this fraction of the largest such sum in the matrix (errors of large entries propagate through the
# matrix products; at third order the parametrised gamma^(2) are only accurate relative to their own size)
RG_FLOOR = {1: 1e-3, 2: 1e-3, 3: 0.1}
# second oracle on the same identity: every entry relative to the sum of the moduli of ITS OWN terms (no matrix floor).
# order 3: >= 10 x the measured maximum over the lattice (gg 1.1e-5, qg 7.1e-6, Hg 4.2e-5, gq 1.1e-4, qq 1.4e-5,
# Hq 3.6e-4, ns- 9.4e-6: accuracy of the parametrised gamma^(2) against the closed single-log terms of A^(3));
# orders 1, 2: closed forms, measured 4.6e-13 / 6.9e-13 (floor 1e-4 of the largest entry instead of 1e-3)
TOL_RG_OWN = {
    1: {None: 1e-10},
    2: {None: 1e-10},
    3: {"gg": 1.2e-4, "qg": 1e-4, "Hg": 5e-4, "gq": 1.2e-3, "qq": 1.5e-4, "Hq": 4e-3, "ns-": 1e-4},
}
# third oracle: the residual rho_k(L) = dA_k/dL - required(L) must not depend on L (it is the L^0 mismatch only);
# decides the L^2, L^3 coefficients separately from the single-log one.  relative to the entry's own sum of |terms|.
# measured: orders 1, 2 <= 1.7e-15; order 3: gq, qg, Hq <= 4.1e-16, gg 1.14e-7, Hg 1.35e-7, qq 1.7e-8, ns- 1.9e-8
# (there the parametrised constant of A^(2) multiplies beta0 / gamma^(0) in the required L^1 term)
TOL_LDEP = {
    1: {None: 1e-12},
    2: {None: 1e-12},
    3: {"gg": 2e-6, "Hg": 2e-6, "qq": 3e-7, "ns-": 3e-7, "gq": 1e-12, "qg": 1e-12, "Hq": 1e-12},
}
# model of the recorded defect `rg-derivative/ps/A2/entry=Hg`: the residual equals -gamma_qg^(1),pol(N, nf=1),
# independent of L and nf (the single-log coefficient of the polarised A_Hg^(2) is twice the RG value); measured 1.6e-15
TOL_KNOWN_MODEL = 1e-11
# floor of an entry's own scale, as a fraction of the largest entry's sum of |terms|: structural zeros carry the
# rounding (1e-16 x largest) of the flavour embedding; smallest genuine entry at order 3: 2e-4 of the largest
OWN_FLOOR = {1: 1e-4, 2: 1e-4, 3: 1e-6}


def _tol(table, order, name):
    t = table[order]
    return t[name] if name in t else t[None]


def _N(n):
    return complex(n["re"], n["im"]) if isinstance(n, dict) else n


def _cube(n0, delta):
    return [n0 + delta * complex(math.cos(2 * math.pi * k / 3), math.sin(2 * math.pi * k / 3)) for k in range(3)]


# =========================================================================== sum rules
def _sumrule(case):
    import ekore.operator_matrix_elements.unpolarized.space_like as om

    nf, L, msbar = case["nf"], case["L"], case["msbar"]
    res = Result()
    mx = {}
    nrules = 0

    def check(sig, order, dev, scale, what, delta=0.0):
        nonlocal nrules
        nrules += 1
        # three-direction mean: truncation O(delta^3), cancellation of 1/(N-N0) terms O(eps/delta)
        tol = max(TOL_SUM[order], 30.0 * delta**3, (3e-15 / delta) if delta else 0.0)
        dev = abs(complex(dev))
        if not math.isfinite(dev) or not scale > 0:
            res.fail(sig + "/not-finite", f"nf={nf} L={L} msbar={msbar} {what}: deviation={dev} scale={scale}")
            return
        rel = dev / scale
        key = f"max_rel_sumrule_order{order}"
        mx[key] = max(mx.get(key, 0.0), rel)
        if rel > tol:
            res.fail(
                sig,
                f"nf={nf} L={L} msbar={msbar} {what}: |deviation|={dev:.4e} scale={scale:.4e} "
                f"relative={rel:.3e} > {tol:g}",
            )

    sing = lambda N: om.A_singlet((3, 0), N, nf, L, msbar)
    ns = lambda N: om.A_non_singlet((3, 0), N, nf, L)
    ref = np.max([np.abs(sing(N)).reshape(3, -1).max(axis=1) for N in NREF[1:]], axis=0)
    refns = np.max([np.abs(ns(N))[:, 0, 0] for N in NREF], axis=0)
    # ---- momentum
    points = [("N=2", [2.0], 0.0)] + [(f"N->2/|dN|={d:g}", _cube(2.0, d), d) for d in (1e-3, 1e-5)]
    singular_exact = 0
    for label, pts, delta in points:
        with np.errstate(all="ignore"):
            try:
                A = sum(sing(p) for p in pts) / len(pts)
            except ZeroDivisionError:
                A = None
        for k in range(3):
            for col, name in ((0, "gluon"), (1, "quark")):
                if A is None or not np.all(np.isfinite(A[k][:, col])):
                    if label == "N=2" and k == 2:
                        singular_exact += 1  # documented removable singularity of A^(3) at N=2
                        continue
                    res.fail(
                        f"us.momentum/order={k+1}/column={name}/{label.split('/')[0]}/not-finite",
                        f"nf={nf} L={L}: {None if A is None else A[k][:, col]}",
                    )
                    continue
                col_v = A[k][:, col]
                check(
                    f"us.momentum/order={k+1}/column={name}",
                    k + 1,
                    col_v.sum(),
                    max(np.abs(col_v).sum(), ref[k]),
                    f"{label} A^({k+1})[(g,q,H),{name}]={col_v}",
                    delta,
                )
    # ---- quark number
    for label, pts, delta in [("N=1", [1.0], 0.0)] + [(f"N->1/|dN|={d:g}", _cube(1.0, d), d) for d in (1e-3, 1e-5)]:
        with np.errstate(all="ignore"):
            try:
                B = sum(ns(p) for p in pts) / len(pts)
            except ZeroDivisionError:
                B = None
        for k in range(3):
            if B is None or not np.isfinite(B[k][0, 0]):
                res.fail(f"us.number/order={k+1}/{label.split('/')[0]}/not-finite", f"nf={nf} L={L}")
                continue
            if refns[k] == 0:
                nrules += 1
                if B[k][0, 0] != 0:
                    res.fail(f"us.number/order={k+1}", f"nf={nf} L={L} {label}: {B[k][0,0]} (element is zero elsewhere)")
                continue
            check(f"us.number/order={k+1}", k + 1, B[k][0, 0], refns[k], f"{label} A_ns^({k+1})[q,q]={B[k][0,0]}", delta)
    res.info = dict(mx)
    res.info["rules"] = nrules
    res.info["singular_at_exact_N2"] = singular_exact
    res.outcome = "sumrule:" + ("fail" if res.fails else "ok")
    return res


# =========================================================================== RG derivative identity
RG_N = [2.0, 2.25, 3.5, 6.0, complex(2.5, 1.5), complex(1.3, -4.0), complex(10.0, 10.0)]
RG_UPTO = {"us": 3, "ps": 2, "ut": 1}
ENTRY = {0: "g", 1: "q", 2: "H"}


def _rg_derivative(case):
    kind, nf, N, msbar = case["kind"], case["nf"], _N(case["N"]), case.get("msbar", False)
    upto = RG_UPTO[kind] if not msbar else 2
    if kind == "us" and N == 2.0:
        upto = 2  # A^(3) has a documented removable singularity at N=2 exactly (tests/.../test_as3.py)
    res = Result()
    mx = {}
    nchecks = 0
    nknown = 0
    obs = {}
    order = (upto, 0)
    mo = (upto, 0)
    scheme = "MSBAR" if msbar else "POLE"
    try:
        gS, gM = rs.gammas(kind, order, N, nf, 10201)
        gSp, gPp = rs.gammas(kind, order, N, nf + 1, 10101)
        gMp = rs.gammas(kind, order, N, nf + 1, 10201)[1]
        gV = rs.gammas(kind, order, N, nf, 10200)[1]
        gVp = rs.gammas(kind, order, N, nf + 1, 10200)[1]
        # residual that the recorded defect of the polarised A_Hg^(2) produces (see TOL_KNOWN_MODEL)
        known_hg = -rs.gammas("ps", (2, 0), N, 1)[0][1][0, 1] if kind == "ps" and upto >= 2 else None
    except Exception as e:  # noqa
        res.fail(f"rg-derivative/{kind}/gamma-raises", f"nf={nf} N={N}: {type(e).__name__}: {e}")
        return res
    g = [rs.embed_low(gS[i]) for i in range(upto)]
    gp = [rs.embed_high(gSp[i], gPp[i], nf) for i in range(upto)]
    one = lambda x: np.array([[x]], dtype=complex)
    As = lambda L: rs.omes(kind, mo, N, nf, L, msbar)
    rho = {}  # (order, entry name) -> {L: (residual, own magnitude)}   (demanded entries only)
    known_pts = set()  # (order, entry name, L) where the failure is exactly the recorded defect

    def bump(key, v):
        mx[key] = max(mx.get(key, 0.0), v)

    for L in LS:
        try:
            AS, ANS = As(L)
            dS = rs.dL5(lambda l: As(l)[0], L)
            dNS = rs.dL5(lambda l: As(l)[1], L)
        except Exception as e:  # noqa
            res.fail(f"rg-derivative/{kind}/ome-raises", f"nf={nf} N={N} L={L}: {type(e).__name__}: {e}")
            continue
        d1, d2 = rs.decoupling_down(scheme, nf, L)
        req = rs.rg_required_derivatives([AS[i] for i in range(upto)], g, gp, nf + 1, d1, d2, upto)
        for k in range(upto):
            r, mag = req[k]
            floor = RG_FLOOR[k + 1] * mag.max()
            for i in range(3):
                for j in range(3):
                    intrinsic = j == 2
                    demanded = (not intrinsic) or (kind == "us" and k == 0)
                    diff = abs(dS[k][i, j] - r[i, j])
                    rel = diff / max(mag[i, j], floor)
                    if not demanded:
                        obs[f"obs_rel_intrinsic_order{k+1}"] = max(obs.get(f"obs_rel_intrinsic_order{k+1}", 0.0), rel)
                        continue
                    name = ENTRY[i] + ENTRY[j]
                    sig = f"rg-derivative/{kind}/A{k+1}/entry={name}"
                    nchecks += 1
                    key = f"max_rel_rg_order{k+1}"
                    own = max(mag[i, j], OWN_FLOOR[k + 1] * mag.max())  # structural zeros carry rounding of the embedding only
                    rho.setdefault((k + 1, name), {})[L] = (dS[k][i, j] - r[i, j], own)
                    rel_own = diff / own if own > 0 else (0.0 if diff == 0 else math.inf)
                    tol_own = _tol(TOL_RG_OWN, k + 1, name)
                    failed = not rel <= TOL_RG[k + 1]
                    failed_own = not rel_own <= tol_own
                    if (failed or failed_own) and known_hg is not None and (k, i, j) == (1, 2, 0):
                        # recorded defect: keep the listed signature only where the residual IS the model
                        dm = abs(dS[k][i, j] - r[i, j] - known_hg) / own
                        if dm <= TOL_KNOWN_MODEL:
                            nknown += 1
                            known_pts.add((k + 1, name, L))
                            bump("max_rel_known_defect_from_its_model", dm)
                            res.fail(
                                sig,
                                f"nf={nf} N={N} L={L} msbar={msbar}: dA^({k+1})_{name}/dL = {dS[k][i,j]:.10g} but "
                                f"renormalisation-group invariance requires {r[i,j]:.10g} (difference {dS[k][i,j]-r[i,j]:.6g} = "
                                f"-gamma_qg^(1),pol(N, nf=1) = {known_hg:.6g}: the recorded defect)",
                            )
                            continue
                        sig += "/beyond-known"
                    bump(key, rel)
                    bump(f"max_rel_own_terms_rg_order{k+1}", rel_own)
                    if rel <= TOL_RG[k + 1]:
                        bump(key + "_of_passing_entries", rel)
                    if failed:
                        res.fail(
                            sig,
                            f"nf={nf} N={N} L={L} msbar={msbar}: dA^({k+1})_{ENTRY[i]}{ENTRY[j]}/dL = {dS[k][i,j]:.10g} but "
                            f"renormalisation-group invariance requires {r[i,j]:.10g} (difference {dS[k][i,j]-r[i,j]:.6g}, "
                            f"sum of |terms| {mag[i,j]:.4g}, relative {rel:.3e} > {TOL_RG[k+1]:g})",
                        )
                    elif failed_own:
                        res.fail(
                            sig,
                            f"nf={nf} N={N} L={L} msbar={msbar}: dA^({k+1})_{name}/dL = {dS[k][i,j]:.10g} but "
                            f"renormalisation-group invariance requires {r[i,j]:.10g} (difference {dS[k][i,j]-r[i,j]:.6g}, "
                            f"sum of |terms| of this entry {own:.4g}, relative {rel_own:.3e} > {tol_own:g})",
                        )
        # non-singlet light element: scalar version of the same identity, against ns-
        reqm = rs.rg_required_derivatives(
            [one(ANS[i][0, 0]) for i in range(upto)], [one(gM[i]) for i in range(upto)], [one(gMp[i]) for i in range(upto)], nf + 1, d1, d2, upto
        )
        reqv = rs.rg_required_derivatives(
            [one(ANS[i][0, 0]) for i in range(upto)], [one(gV[i]) for i in range(upto)], [one(gVp[i]) for i in range(upto)], nf + 1, d1, d2, upto
        )
        for k in range(upto):
            r, mag = reqm[k]
            sc = max(mag[0, 0], 1e-3 * max(abs(gM[k]), 1e-300))
            rel = abs(dNS[k][0, 0] - r[0, 0]) / sc
            nchecks += 1
            key = f"max_rel_rg_order{k+1}"
            mx[key] = max(mx.get(key, 0.0), rel)
            rho.setdefault((k + 1, "ns-"), {})[L] = (dNS[k][0, 0] - r[0, 0], sc)
            tol_own = _tol(TOL_RG_OWN, k + 1, "ns-")
            bump(f"max_rel_own_terms_rg_order{k+1}", rel)
            if not rel <= min(TOL_RG[k + 1], tol_own):
                res.fail(
                    f"rg-derivative/{kind}/A{k+1}/entry=ns-",
                    f"nf={nf} N={N} L={L}: dA_ns^({k+1})/dL = {dNS[k][0,0]:.10g}, required {r[0,0]:.10g} "
                    f"(relative {rel:.3e} > {min(TOL_RG[k+1], tol_own):g})",
                )
            rv = reqv[k][0]
            obs[f"obs_rel_valence_with_ns-_element_order{k+1}"] = max(
                obs.get(f"obs_rel_valence_with_ns-_element_order{k+1}", 0.0), abs(dNS[k][0, 0] - rv[0, 0]) / sc
            )
        # intrinsic h- element (unpolarised A^(1) only)
        if kind == "us":
            r = -gM[0]  # below the threshold h- is static, above it evolves with gamma_ns
            rel = abs(dNS[0][1, 1] - r) / abs(gM[0])
            nchecks += 1
            mx["max_rel_rg_order1"] = max(mx.get("max_rel_rg_order1", 0.0), rel)
            if not rel <= TOL_RG[1]:
                res.fail(
                    "rg-derivative/us/A1/entry=ns-HH",
                    f"nf={nf} N={N} L={L}: dA_HH^(1)/dL = {dNS[0][1,1]} required {r}",
                )
    # ---- L-independence of the residual (decides the higher powers of L on their own, far below the accuracy of
    #      the parametrised constants, which enter the residual only through its L^0 part)
    for (k1, name), by_l in sorted(rho.items()):
        if 0.0 not in by_l:
            continue
        v0, m0 = by_l[0.0]
        tol = _tol(TOL_LDEP, k1, name)
        for L, (v, m) in sorted(by_l.items()):
            if L == 0.0:
                continue
            nchecks += 1
            sc = max(m, m0)
            rel = abs(v - v0) / sc if sc > 0 else (0.0 if v == v0 else math.inf)
            bump(f"max_rel_L_dependence_of_residual_order{k1}", rel)
            if not rel <= tol:
                res.fail(
                    f"rg-derivative/{kind}/A{k1}/entry={name}/L-dependence",
                    f"nf={nf} N={N} msbar={msbar}: residual dA^({k1})_{name}/dL - required = {v:.10g} at L={L} but {v0:.10g} at L=0 "
                    f"(difference relative to the sum of |terms| {rel:.3e} > {tol:g}): the L^2 / L^3 terms of the element "
                    f"are not the ones renormalisation-group invariance requires",
                )
    res.info = dict(mx)
    res.info.update(obs)
    res.info["identities"] = nchecks
    res.info["known_defect_points"] = nknown
    res.nontrivial = nchecks > 0
    res.outcome = f"rg-derivative:{kind}:" + ("fail" if res.fails else "ok")
    return res


# =========================================================================== RG scaling exponent
KS = (0.5, 0.7, 1.4, 2.0)
KS_THOROUGH = (math.exp(-3.0), 0.5, 0.7, 1.4, 2.0, math.exp(3.0))
EXP_N = {False: [2.0, 3.5, 6.0, complex(1.5, 2.0)], True: [2.25, 3.5, 6.0, complex(1.5, 2.0)]}  # True: n=4 (A^(3) singular at N=2)
I_MIN, I_STOP, I_MAX = 4, 9, 11
FLOOR = 1e-13


def _demanded(kind, n, direction):
    """Which channel classes the statement covers for this configuration (see module docstring)."""
    fwd = direction == "forward"
    if kind == "us":
        if n <= 3:
            return {"light": True, "ns": True, "intrinsic": n <= 2}
        return {"light": fwd, "ns": fwd, "intrinsic": False}
    if kind == "ps":
        ok = n <= 3 if fwd else n <= 2
        return {"light": ok, "ns": ok, "intrinsic": n <= 1}
    if kind == "ut":
        ok = n <= 2
        return {"light": ok, "ns": ok, "intrinsic": n <= 1}
    raise ValueError(kind)


KNOWN_REMOVED = "light/known-removed"


def _rg_exponent(case):
    kind, n, nf = case["kind"], case["n"], case["nf"]
    direction, scheme, method = case["direction"], case["scheme"], case["method"]
    ks = KS_THOROUGH if case.get("wide") else KS
    i_min, i_stop, i_max = case.get("ladder", (I_MIN, I_STOP, I_MAX))
    fh = nf + 1 <= 5
    res = Result()
    Ns = EXP_N[n >= 4]
    # recorded defect `rg-exponent/ps/n=3/forward/class=light` (polarised A_Hg^(2) single log): the light class is
    # evaluated a second time with that one term corrected (rs.seam(remove_known_ps_hg=True)) and must then reach
    # the full exponent; the uncorrected failure keeps the listed signature only if it is the recorded one
    # (exponent 2 = n-1, settled) and the corrected evaluation passes
    pin = kind == "ps" and n == 3 and direction == "forward"
    R = {"light": [], "intrinsic": [], "ns": [], "ns-other": []}
    if pin:
        R[KNOWN_REMOVED] = []
    lams = []
    rot = rs.rot(nf)
    conv = {}
    worst = {}
    for i in range(i_min, i_max + 1):
        lam = 2.0**-i
        lams.append(lam)
        cur = {c: 0.0 for c in R}
        arg = {}
        for N in Ns:
            try:
                S1, ns1 = rs.seam(kind, n, nf, 1.0, lam, N, direction, scheme, method, fhmruvv=fh)
                for k in ks:
                    S, ns = rs.seam(kind, n, nf, k, lam, N, direction, scheme, method, fhmruvv=fh)
                    D = S - S1
                    if direction != "forward":
                        D = D @ rot  # columns back to (g, q, H) at the high scale
                    d = np.abs(D)
                    if not np.all(np.isfinite(d)):
                        res.fail(
                            f"rg-exponent/{kind}/n={n}/{direction}/not-finite",
                            f"nf={nf} N={N} k={k} lambda=2^-{i} scheme={scheme} method={method}",
                        )
                        continue
                    vals = {
                        "light": d[:, :2].max(),
                        "intrinsic": d[:, 2].max(),
                        "ns": max(abs(ns[m] - ns1[m]) for m in ((10201,) if n >= 4 else (10101, 10201, 10200))),
                        "ns-other": max(abs(ns[m] - ns1[m]) for m in (10101, 10200)),
                    }
                    if pin:
                        # at k=1 (L=0) the correction vanishes: S1 is the reference of both evaluations
                        Sf, _ = rs.seam(kind, n, nf, k, lam, N, direction, scheme, method, fhmruvv=fh, remove_known_ps_hg=True)
                        df = np.abs(Sf - S1)
                        vals[KNOWN_REMOVED] = df[:, :2].max() if np.all(np.isfinite(df)) else math.inf
                    for c, v in vals.items():
                        if v > cur[c]:
                            cur[c] = v
                            arg[c] = (N, k)
            except Exception as e:  # noqa
                res.fail(
                    f"rg-exponent/{kind}/n={n}/{direction}/raises",
                    f"nf={nf} N={N} lambda=2^-{i} scheme={scheme} method={method}: {type(e).__name__}: {e}"[:500],
                )
                res.outcome = "rg-exponent:raises"
                res.info = {}
                return res
        for c in R:
            R[c].append(cur[c])
            worst[c] = arg.get(c)
        if i >= i_stop:
            done = True
            for c in R:
                e = rs.local_exponents(R[c], lams)
                if e[-1] is None or e[-2] is None or abs(e[-1] - e[-2]) <= 0.1:
                    conv[c] = True
                else:
                    done = False
            if done:
                break
    dem = _demanded(kind, n, direction)
    if pin:
        dem[KNOWN_REMOVED] = dem["light"]
    info = {"ladder_last": -math.log2(lams[-1])}
    decided = 0
    margins = []
    verdict = {}  # class -> (kind of failure | None, emin, exponents)
    for c in R:
        e = rs.local_exponents(R[c], lams)
        last = [x for x in e[-2:] if x is not None]
        emin = min(last) if last else None
        info[f"exponent_{c.replace('/', '_')}"] = None if emin is None else round(emin, 3)
        if c == "ns-other" or not dem.get(c, False):
            continue
        decided += 1
        if emin is None:
            # residual below the floor: the dependence vanishes identically (pair skipped)
            verdict[c] = (None, None, e)
        elif not conv.get(c):
            verdict[c] = ("not-asymptotic", emin, e)
        elif emin < n - 0.25:
            verdict[c] = ("low", emin, e)
        else:
            verdict[c] = (None, emin, e)
    nknown = 0
    for c, (bad, emin, e) in verdict.items():
        sig = f"rg-exponent/{kind}/n={n}/{direction}/class={c}"
        is_known = False
        if pin and c == "light" and bad == "low":
            removed_ok = KNOWN_REMOVED in verdict and verdict[KNOWN_REMOVED][0] is None
            if removed_ok and abs(emin - (n - 1)) <= 0.25:
                is_known = True
                nknown += 1
            else:
                sig += "/beyond-known"
        if emin is not None and not is_known:
            margins.append(n - emin)
        if bad == "not-asymptotic":
            res.fail(
                sig + "/not-asymptotic",
                f"nf={nf} scheme={scheme} method={method}: local exponents {e} do not settle (residuals {R[c]})",
            )
        elif bad == "low":
            res.fail(
                sig,
                f"nf={nf} scheme={scheme} method={method}: the dependence of the matched operator on the "
                f"matching-scale ratio vanishes only like a_s^{emin:.2f} (required >= {n}); local exponents "
                f"{[None if x is None else round(x, 2) for x in e]}, residuals {['%.2e' % x for x in R[c]]}, "
                f"largest at (N, k)={worst[c]}"
                + ("; with the single-log term of A_Hg^(2) corrected the exponent is "
                   f"{verdict[KNOWN_REMOVED][1] if KNOWN_REMOVED in verdict else None}" if pin and c == "light" else ""),
            )
    if margins:
        info["max_exponent_deficit"] = max(margins)
        ok = [m for m in margins if m <= 0.25]
        if ok:
            info["max_exponent_deficit_of_passing_classes"] = max(ok)
    info["known_defect_classes"] = nknown
    res.info = info
    res.nontrivial = decided > 0 and max(R["light"][0], R["ns"][0]) > FLOOR
    res.outcome = f"rg-exponent:{kind}:n={n}:" + ("fail" if res.fails else ("ok" if decided else "info-only"))
    return res


# =========================================================================== build_ome inverses
def _build_ome(case):
    from eko.evolution_operator.quad_ker import MatchingMethods, build_ome

    kind, nf, N, L, mo = case["kind"], case["nf"], _N(case["N"]), case["L"], case["mo"]
    res = Result()
    try:
        AS, ANS = rs.omes(kind, (mo, 0), N, nf, L)
    except NotImplementedError:
        res.outcome = "build-ome:refused"
        res.nontrivial = False
        return res
    info = {}
    for name, A in (("singlet", AS), ("ns", ANS)):
        dim = A.shape[1]
        # power-series inverse of 1 + sum_k a^k A_k from the definition: X_0 = 1, X_k = - sum_j A_j X_(k-j)
        X = [np.eye(dim, dtype=complex)]
        for k in range(1, mo + 1):
            X.append(-sum(A[j - 1] @ X[k - j] for j in range(1, k + 1)))
        for a in (0.3, 0.02, 1e-3):
            F = build_ome(A, (mo, 0), a, MatchingMethods.FORWARD)
            Xe = build_ome(A, (mo, 0), a, MatchingMethods.BACKWARD_EXACT)
            E = build_ome(A, (mo, 0), a, MatchingMethods.BACKWARD_EXPANDED)
            ref = np.eye(dim) + sum(a ** (k + 1) * A[k] for k in range(mo))
            sc = max(1.0, np.abs(ref).max())
            d = np.abs(F - ref).max() / sc
            info["max_forward_difference"] = max(info.get("max_forward_difference", 0.0), d)
            if not d <= 1e-14:
                res.fail(f"build_ome/forward/mo={mo}", f"{kind} {name} nf={nf} N={N} L={L} a={a}: differs from 1+sum a^k A_k by {d:.2e}")
            d = np.abs(Xe @ F - np.eye(dim)).max() / max(1.0, np.linalg.cond(F))
            info["max_exact_inverse_residual"] = max(info.get("max_exact_inverse_residual", 0.0), d)
            if not d <= 1e-12:
                res.fail(f"build_ome/backward-exact/mo={mo}", f"{kind} {name} nf={nf} N={N} L={L} a={a}: |inv.F-1|/cond={d:.2e}")
            refE = sum(a**k * X[k] for k in range(mo + 1))
            terms = sum(np.abs(a**k * X[k]) for k in range(mo + 1)).max()
            d = np.abs(E - refE).max() / terms
            info["max_expanded_inverse_difference"] = max(info.get("max_expanded_inverse_difference", 0.0), d)
            if not d <= 1e-13:
                res.fail(
                    f"build_ome/backward-expanded/mo={mo}",
                    f"{kind} {name} nf={nf} N={N} L={L} a={a}: expanded inverse differs from the power-series inverse "
                    f"truncated at a^{mo} by {d:.2e} (relative to the largest term)",
                )
    res.info = info
    res.outcome = "build-ome:" + ("fail" if res.fails else "ok")
    return res


def evaluate(case):
    part = case["part"]
    if part == "sumrule":
        return _sumrule(case)
    if part == "rg-derivative":
        return _rg_derivative(case)
    if part == "rg-exponent":
        return _rg_exponent(case)
    if part == "build-ome":
        return _build_ome(case)
    raise ValueError(part)


def _cn(N):
    N = complex(N)
    return {"re": N.real, "im": N.imag}


def run(ctx):
    thorough = ctx.thorough()
    cases = []
    for nf in NFS:
        for L in LS:
            for msbar in (False, True):
                cases.append({"part": "sumrule", "nf": nf, "L": L, "msbar": msbar})
    for kind in rs.KINDS:
        for nf in NFS:
            for N in RG_N:
                cases.append({"part": "rg-derivative", "kind": kind, "nf": nf, "N": _cn(N)})
                if kind == "us":
                    cases.append({"part": "rg-derivative", "kind": kind, "nf": nf, "N": _cn(N), "msbar": True})
    nmax = {"us": 4, "ps": 3, "ut": 3}
    for kind in rs.KINDS:
        for n in range(1, nmax[kind] + 1):
            for nf in NFS:
                for direction in ("forward", "backward-exact", "backward-expanded"):
                    base = {"part": "rg-exponent", "kind": kind, "n": n, "nf": nf, "direction": direction}
                    default = "truncated" if n >= 4 else "iterate-exact"
                    cases.append(dict(base, scheme="POLE", method=default))
                    if thorough:
                        cases.append(dict(base, scheme="POLE", method=default, wide=True))
                        if 2 <= n <= 3:
                            for m in ("truncated", "decompose-exact", "perturbative-exact", "iterate-expanded"):
                                cases.append(dict(base, scheme="POLE", method=m))
                            if kind == "us":
                                cases.append(dict(base, scheme="MSBAR", method=default))
    for kind in rs.KINDS:
        for mo in (1, 2, 3):
            for nf in (3, 5):
                for N in (2.5, complex(1.5, 2.0)):
                    for L in (-3.0, 0.0, 2.0):
                        cases.append({"part": "build-ome", "kind": kind, "nf": nf, "N": _cn(N), "L": L, "mo": mo})
    results = ctx.run_cases(cases, evaluate)
    ctx.extra["sum_rules_evaluated"] = sum((r[1][3] or {}).get("rules", 0) for r in results)
    ctx.extra["rg_identities_evaluated"] = sum((r[1][3] or {}).get("identities", 0) for r in results)
    ctx.rule = (
        "sumrule: nf 3-5 x L -3..3 x {pole, MSbar} x orders 1-3 x {g, q} columns + non-singlet, each at the "
        "exact moment and as three-direction means at |dN| 1e-3 and 1e-5; rg-derivative: {us k<=3, ps k<=2, "
        "ut k=1} x nf 3-5 x 7 N (4 real, 3 complex) x 7 L x all entries of the 3x3 singlet element (light "
        "columns; the intrinsic column where implemented) + ns- element (+ MSbar for us k<=2), per entry and L the "
        "identity relative to the matrix-floored and to the entry's own scale, per entry and L != 0 the L-independence of the residual; rg-exponent: "
        "{us n<=4, ps n<=3, ut n<=3} x nf 3-5 x {forward, exact inverse, expanded inverse}, residual = max over "
        "4 N x 4 ratios k (thorough: 6 ratios incl. e^-3, e^3, four more evolution methods and MSbar) x entries "
        "of the class, lambda = 2^-4..2^-9 (extended to 2^-11 until two consecutive exponents agree to 0.1), polarised n=3 forward: "
        "light class also with the recorded A_Hg^(2) single-log defect corrected; "
        "build-ome: 3 kinds x matching order 1-3 x nf {3,5} x 2 N x 3 L.  non-trivial = at least one demanded "
        "oracle was evaluated on a non-vanishing residual"
    )
    ctx.assumptions += [
        "the classes not demanded (documented gaps, see module docstring) are measured and written to info only",
        "exponent oracle: a_s(ref)=0.35*lambda at Q0^2=1.5 (forward) or Q1^2=1e4 (backward), m_h^2=100, expanded coupling solution, threshold n-0.25 on the last two local exponents, residuals < 1e-13 skipped",
        "decoupling constants are taken from eko.couplings.compute_matching_coeffs_up (the 'given' relation of the statement)",
        f"relative tolerances sum rules {TOL_SUM}, RG identity {TOL_RG} (order 3: documented accuracy of the parametrised parts)",
        f"RG identity relative to the entry's own terms {TOL_RG_OWN} (floor {OWN_FLOOR} of the largest entry), L-independence of the residual {TOL_LDEP}",
        "known findings rg-derivative/ps/A2/entry=Hg and rg-exponent/ps/n=3/forward/class=light are emitted only for failures that match "
        f"the model of the recorded defect (residual = -gamma_qg^(1),pol(N,nf=1) within {TOL_KNOWN_MODEL:g}; exponent n-1 +- 0.25 with the corrected "
        "evaluation reaching n); they are counted (known_defect_points / known_defect_classes) and kept out of the measured maxima",
    ]
