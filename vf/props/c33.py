"""C33 threshold flavour rotations: flavour-consistent and mutually inverse, decided exactly.

For every crossing nf-1 -> nf (nf = 4, 5, 6) in QCD and QED the dictionary returned by
rotate_matching(nf, qed) is read as a matrix from the matching basis (= intrinsic evolution basis
with nf-1 light flavours; it contains the plus/minus combinations of the new quark) to the
intrinsic evolution basis with nf light flavours.  Both bases are typed from the documentation
(vf/ref/c31_bases.py).  Exact rational arithmetic:
  content   every one of the 14 new-basis distributions t satisfies
            sum_s m[t.s] * content_old(s) == content_new(t)   (and has at least one entry)
  inverse   rotate_matching_inverse(nf, qed) composed with it is the identity, in both orders, on all
            14 labels of either basis
"""

from fractions import Fraction as F

from vf.core.ctx import Result
from vf.ref import c31_bases as B

ID = "C33"
LEVEL = "exploration"
TECHNIQUE = "complete enumeration nf 4-6 x QCD/QED, exact rational matrices vs documented flavour content"
LEVEL_TEXT = (
    "the property is finite: the 6 forward and 6 inverse rotations are converted to exact rational 14x14 "
    "matrices and compared with the documented flavour content of both bases and with each other; "
    "this decides the property completely"
)
LEVEL_NOTE = (
    "trusts vf/ref/c31_bases.py (documented intrinsic bases incl. the nd/nu weighted Sigma_Delta for nf=3,5; "
    "self-checked); float coefficients are identified with the unique rational of denominator <= 10^4 within 1e-12"
)
FLOOR_NONTRIVIAL = 6

NFS = [4, 5, 6]


def _matrix(d, rows, cols, res, sig, what):
    """dict 'row.col' -> exact matrix over the given label lists; unknown labels are failures."""
    M = [[F(0)] * len(cols) for _ in rows]
    ir = {l: k for k, l in enumerate(rows)}
    ic = {l: k for k, l in enumerate(cols)}
    worst = 0.0
    ok = True
    for key, v in d.items():
        parts = key.split(".")
        if len(parts) != 2 or parts[0] not in ir or parts[1] not in ic:
            res.fail(f"{sig}/label-outside-basis", f"{what}: entry {key!r} is not (row in {rows}) . (column in {cols})")
            ok = False
            continue
        try:
            fr, r = B.rat(v)
        except ValueError as e:
            res.fail(f"{sig}/not-rational", f"{what}: entry {key!r}: {e}")
            ok = False
            continue
        worst = max(worst, r)
        M[ir[parts[0]]][ic[parts[1]]] = fr
    return (M if ok else None), worst


def evaluate(case):
    from eko import basis_rotation as br
    from eko.evolution_operator import flavors

    nf, qed, kind = case["nf"], case["qed"], case["kind"]
    res = Result()
    order = [int(p) for p in br.flavor_basis_pids]
    if sorted(order) != B.ALL_PIDS:
        res.fail("flavor_basis_pids", f"{order}")
        return res
    old_l, old_b = B.basis_matrix(nf - 1, qed, order)
    new_l, new_b = B.basis_matrix(nf, qed, order)
    tag = f"qed={qed}"
    what = f"nf={nf} qed={qed}"
    worst = 0.0
    try:
        fwd = flavors.rotate_matching(nf, qed)
    except Exception as e:  # noqa
        res.fail(f"rotate_matching/{tag}/raises:{type(e).__name__}", f"{what}: {type(e).__name__}: {e}")
        res.outcome = "raises"
        return res
    Mf, w = _matrix(fwd, new_l, old_l, res, f"rotate_matching/{tag}", f"rotate_matching({nf}, {qed})")
    worst = max(worst, w)
    nbad = 0
    if kind == "content":
        if Mf is not None:
            got = B.matmul(Mf, old_b)
            for l, g, wnt, coeffs in zip(new_l, got, new_b, Mf):
                if all(c == 0 for c in coeffs):
                    nbad += 1
                    res.fail(f"rotate_matching/{tag}/distribution-missing", f"{what}: no entry builds the new-basis distribution {l}")
                elif g != wnt:
                    nbad += 1
                    terms = " + ".join(f"{c}*{s}" for c, s in zip(coeffs, old_l) if c)
                    res.fail(
                        f"rotate_matching/{tag}/flavour-content",
                        f"{what}: {l} = {terms} has content {B.show(g, order)} expected {B.show(wnt, order)}",
                    )
        res.outcome = f"content {tag} ok={14 - nbad}/14" if Mf is not None else "content unreadable"
    else:
        try:
            inv = flavors.rotate_matching_inverse(nf, qed)
        except Exception as e:  # noqa
            res.fail(f"rotate_matching_inverse/{tag}/raises:{type(e).__name__}", f"{what}: {type(e).__name__}: {e}")
            res.outcome = "raises"
            return res
        Mi, w = _matrix(inv, old_l, new_l, res, f"rotate_matching_inverse/{tag}", f"rotate_matching_inverse({nf}, {qed})")
        worst = max(worst, w)
        if Mf is not None and Mi is not None:
            one = B.identity(14)
            for name, prod, labs in (("inverse.forward", B.matmul(Mi, Mf), old_l), ("forward.inverse", B.matmul(Mf, Mi), new_l)):
                if prod != one:
                    nbad += 1
                    dd = [(labs[i], labs[j], str(prod[i][j])) for i in range(14) for j in range(14) if prod[i][j] != one[i][j]]
                    res.fail(f"rotate_matching_inverse/{tag}/not-identity", f"{what}: {name} differs from 1 at {dd[:6]}")
        res.outcome = f"inverse {tag} {'ok' if not res.fails else 'bad'}"
    res.info = {"max_rounding_residue": worst, "entries": len(fwd)}
    return res


def run(ctx):
    cases = [{"kind": k, "nf": nf, "qed": qed} for k in ("content", "inverse") for qed in (False, True) for nf in NFS]
    ctx.run_cases(cases, evaluate)
    ctx.exhaustive = True
    ctx.rule = (
        "the complete finite domain in both tiers: crossings nf = 4, 5, 6 x {QCD, QED} x {flavour content of all 14 "
        "new-basis distributions, inverse.forward and forward.inverse on all 14 labels}; non-trivial = all"
    )
    ctx.assumptions += [
        "matching basis at a crossing = documented intrinsic (unified) evolution basis with nf-1 light flavours, "
        "new basis = the one with nf (vf/ref/c31_bases.py); gluon, photon and heavier q+- are part of both",
        "floats are identified with the unique rational of denominator <= 10^4 within 1e-12 (max residue recorded)",
    ]
