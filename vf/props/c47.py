"""C47 solving is reproducible (X-sched over the hash seed, repetitions and listing orders).

Fresh interpreter processes with PYTHONHASHSEED in a fixed list x repetitions x tiny cards: the
archives must have the same member names, bit-identical arrays (and compressed bytes) and equal
parsed YAML. In-process: every permutation of the directory listing order seen by the inventory
(`Path.iterdir`) while re-reading a 3-operator archive, and every permutation of the recipe list.
"""

import itertools
import json
import os
import subprocess
import sys

import numpy as np

from vf.core import cards
from vf.core.ctx import Result, HarnessError

ID = "C47"
LEVEL = "model_checking"
TECHNIQUE = "enumeration of hash seeds x repetitions in fresh processes and of all directory-listing / recipe-order permutations; bitwise comparison of archives"
LEVEL_TEXT = (
    "the sources of run-to-run nondeterminism of a solve (string-hash seed, set iteration order of recipes, directory "
    "listing order, wall clock, working/temporary/output location, user and host) are enumerated over small domains; every resulting "
    "archive is compared member by member, YAML members also byte by byte"
)
LEVEL_NOTE = (
    "seeds limited to the listed values; one alternative environment (clock +463 d, other directories/user/host, reversed listings); tiny grids; "
    "interpreted mode; tar member order and mtimes are not part of the comparison; cores-independence not demanded"
)
FLOOR_NONTRIVIAL = 8

GRID = [0.2, 0.6, 1.0]
CARDS = {
    "lo-thr-2t": dict(order=[1, 0], mugrid=[[6.0, 5], [10.0, 5]], method="truncated", xgrid=GRID),
    "nlo-ffns": dict(order=[2, 0], mugrid=[[3.0, 4]], method="iterate-exact", iterations=2, xgrid=GRID),
    "lo-down": dict(order=[1, 0], init=[6.0, 5], mugrid=[[3.0, 4], [2.0, 3]], method="truncated", xgrid=GRID),
    "lo-qed": dict(order=[1, 1], mugrid=[[3.0, 4]], method="iterate-exact", iterations=1, xgrid=GRID),
    "nlo-2cores": dict(order=[2, 0], mugrid=[[6.0, 5], [3.0, 4]], method="truncated", xgrid=[0.05, 0.2, 0.5, 0.8, 1.0], cores=2),
}
# further header kinds: inverse matching at NLO; a target ON a threshold with expanded scale variation (recipes differing in a bool only)
NEW_CARDS = {
    "nlo-down": dict(order=[2, 0], init=[6.0, 5], mugrid=[[3.0, 4]], method="truncated", inversion="expanded", xgrid=GRID),
    "nlo-thr-sv": dict(order=[2, 0], mugrid=[[4.5, 5], [4.5, 4]], xif=2.0, sv="expanded", method="truncated", xgrid=GRID),
}
CARDS.update(NEW_CARDS)
# what differs between two runs besides the hash seed (applied in the fresh process before eko is imported, vf/ref/c47_digest.py)
ENVS = {
    "time": {"time_shift_s": 40000000.0},  # 463 days: year, month, day, hour, minute and second all differ
    "location": {"location": "elsewhere"},  # cwd, TMPDIR, output path and file name, user, host
    "listing": {"listing": "reversed"},  # every directory listing in descending instead of filesystem order
}
ENVS["all"] = {k: v for e in ("time", "location", "listing") for k, v in ENVS[e].items()}


def _run_digest(cfg, seed, environment=None):
    """Full digest {"members": as vf.tools.solve_digest, "yaml_raw": sha256 of the YAML bytes, "order": archive order}."""
    env = dict(os.environ)
    env["PYTHONHASHSEED"] = str(seed)
    scratch = os.environ["VERIF_SCRATCH_DIR"]
    out = subprocess.run(
        [sys.executable, "-m", "vf.ref.c47_digest", json.dumps(cfg), scratch, json.dumps(environment or {})],
        env=env,
        capture_output=True,
        text=True,
        timeout=7200,  # a solve takes seconds; generous because the machine may be shared
    )
    for line in out.stdout.splitlines():
        if line.startswith("DIGEST "):
            full = json.loads(line[7:])
            # vacuity guard: one stored operator per requested target, else the run exercised nothing
            nops = sum(1 for n in full["members"] if "operators/" in n and n.endswith(".lz4"))
            if nops != len(cfg["mugrid"]) or set(full["yaml_raw"]) != {n for n in full["members"] if n.endswith(".yaml")}:
                raise HarnessError(f"solve of {cfg} stored {nops} operators for {len(cfg['mugrid'])} targets: {sorted(full['members'])}")
            return full
    raise HarnessError(f"digest subprocess failed: {out.stdout[-500:]} {out.stderr[-1500:]}")


def _compare(dg, ref):
    """First difference between two full digests -> (kind, message) or None.  Kinds: member-names, array-content,
    yaml-content, file-content (as in round 1) and yaml-bytes (parsed equal, bytes differ)."""
    a, b = dg["members"], ref["members"]
    if sorted(a) != sorted(b):
        return "member-names", f"members {sorted(set(a) ^ set(b))} differ"
    for name in sorted(b):
        if a[name] != b[name]:
            kind = "array" if name.endswith(".lz4") else ("yaml" if name.endswith(".yaml") else "file")
            return f"{kind}-content", f"member {name} differs: {str(a[name])[:200]} vs {str(b[name])[:200]}"
    for name in sorted(ref["yaml_raw"]):
        if dg["yaml_raw"].get(name) != ref["yaml_raw"][name]:
            return "yaml-bytes", f"member {name} parses to the same data but its bytes differ (sha256 {dg['yaml_raw'].get(name)} vs {ref['yaml_raw'][name]})"
    return None


def evaluate(case):
    res = Result()
    kind = case["kind"]
    if kind == "seed":
        full = _run_digest(CARDS[case["card"]], case["seed"])
        dg = full["members"]
        res.info = {"digest": dg, "full": full}
        res.outcome = f"{case['card']}:{len(dg)} members"
        res.nontrivial = True  # _run_digest refuses archives without one operator per target
        return res
    if kind == "env":
        full = _run_digest(CARDS[case["card"]], case["seed"], ENVS[case["env"]])
        res.info = {"digest": full["members"], "full": full}
        res.outcome = f"{case['card']}:{len(full['members'])} members:env={case['env']}"
        res.nontrivial = True
        return res
    if kind == "iterdir":
        import pathlib

        from eko.io.items import Operator
        from eko.io.struct import EKO

        path = cards.scratch_path("c47")
        th, op = cards.build(dict(xgrid=[0.5, 1.0], mugrid=[[3.0, 4], [4.0, 4], [6.0, 5]]))
        eps = [(9.0, 4), (16.0, 4), (36.0, 5)]
        try:
            with EKO.create(path) as b:
                e = b.load_cards(th, op).build()
                for i, ep in enumerate(eps):
                    a = np.arange(16, dtype=float).reshape(2, 2, 2, 2) * (i + 1)
                    e[ep] = Operator(a, a / 7)
            perm = case["perm"]
            real = pathlib.Path.iterdir

            def permuted(self):
                items = sorted(real(self), key=lambda p: p.name)
                if len(items) == 2 * len(perm):
                    # operators dir: (yaml, array) pairs per header; permute the headers, and put arrays first or last
                    stems = sorted({p.name.split(".")[0] for p in items})
                    order = [stems[i] for i in perm]
                    items.sort(key=lambda p: (order.index(p.name.split(".")[0]), p.suffix != ".yaml" if case["yaml_first"] else p.suffix == ".yaml"))
                return iter(items)

            pathlib.Path.iterdir = permuted
            try:
                with EKO.read(path) as e:
                    got_keys = sorted(e)
                    got = {ep: (o.operator.copy(), o.error.copy()) for ep, o in e.items()}
            finally:
                pathlib.Path.iterdir = real
            if got_keys != sorted(eps):
                res.fail("EKO.read/iterdir-order/keys", f"perm={perm}: evolution points {got_keys} != {sorted(eps)}")
            for i, ep in enumerate(eps):
                a = np.arange(16, dtype=float).reshape(2, 2, 2, 2) * (i + 1)
                if ep not in got or got[ep][0].tobytes() != a.tobytes() or got[ep][1].tobytes() != (a / 7).tobytes():
                    res.fail("EKO.read/iterdir-order/values", f"perm={perm}: operator at {ep} differs")
        finally:
            if path.exists():
                path.unlink()
        res.outcome = "iterdir"
        res.nontrivial = list(case["perm"]) != sorted(case["perm"])
        return res
    raise HarnessError(kind)


def run(ctx):
    seeds = [0, 1, 2] if not ctx.thorough() else [0, 1, 2, 3, 4, 5, 6, 7]
    reps = 2
    card_list = list(CARDS)
    cases = []
    for card in card_list:
        for seed in seeds:
            for rep in range(reps if (ctx.thorough() or card not in NEW_CARDS) else 1):
                cases.append(dict(kind="seed", card=card, seed=seed, rep=rep))
    # other run-to-run differences (hash seed 0): everything at once for every card; thorough also one at a time
    env_cases = [dict(kind="env", card=card, seed=0, env="all") for card in card_list]
    if ctx.thorough():
        env_cases += [dict(kind="env", card=card, seed=0, env=e) for card in card_list for e in ("time", "location", "listing")]
    cases += env_cases
    for perm in itertools.permutations(range(3)):
        for yf in (True, False):
            cases.append(dict(kind="iterdir", perm=list(perm), yaml_first=yf))
    results = ctx.run_cases(cases, evaluate)
    # cross-case oracle: all digests of one card are identical
    by_card, env_runs = {}, []
    for case, (outcome, fails, nt, info, tb) in results:
        if case["kind"] == "seed":
            by_card.setdefault(case["card"], []).append((case, info["full"]))
        elif case["kind"] == "env":
            env_runs.append((case, info["full"]))
    ndiff = 0
    for card, lst in by_card.items():
        lst.sort(key=lambda x: (x[0]["seed"], x[0]["rep"]))
        ref_case, ref = lst[0]
        for case, dg in lst[1:]:
            diff = _compare(dg, ref)
            if diff:
                ctx.add_fail(case, f"solve/{card}/{diff[0]}", f"seed={case['seed']} rep={case['rep']}: {diff[1]}; reference seed={ref_case['seed']} rep={ref_case['rep']}")
                ndiff += 1
    for case, dg in env_runs:
        ref_case, ref = by_card[case["card"]][0]
        diff = _compare(dg, ref)
        if diff:
            ctx.add_fail(
                case,
                f"solve/{case['card']}/environment-dependent/env={case['env']}/{diff[0]}",
                f"same cards, same hash seed {case['seed']}, environment {ENVS[case['env']]}: {diff[1]}; reference: plain run seed={ref_case['seed']} rep={ref_case['rep']}",
            )
            ndiff += 1
    # strip bulky digests from samples
    for s in ctx.samples:
        if isinstance(s.get("info"), dict) and "digest" in s["info"]:
            s["info"] = {"members": len(s["info"]["digest"]), "example": sorted(s["info"]["digest"])[:4]}
    ctx.extra.update(
        states=len(cases),
        transitions=sum(len(d["members"]) for lst in by_card.values() for _, d in lst) + sum(len(d["members"]) for _, d in env_runs),
        traces_validated_against_impl=len(cases),
        seeds=seeds,
        repetitions=reps,
    )
    ctx.rule = (
        f"fresh processes: {len(card_list)} tiny cards (thresholds up/down, two targets, QED, 2 cores, NLO inverse matching, target on a threshold "
        f"with expanded scale variation) x PYTHONHASHSEED in {seeds} x {reps} repetitions (quick: 1 for the last two cards), plus per card one run "
        "(seed 0) with every clock shifted by 463 days + other cwd/TMPDIR/output path/user/host + all directory listings reversed (thorough: also "
        "each of the three alone); all digests of a card compared member by member with its first plain run (names, decompressed array bytes, "
        "compressed bytes, parsed YAML, raw YAML bytes); a run counts only if it stored one operator per target; in-process: all 6 "
        "permutations x 2 of the operators directory listing while re-reading a 3-operator archive; non-trivial = all seed cases and non-identity permutations"
    )
    ctx.assumptions += [
        "recipe-order permutations are enumerated in C03",
        "tar member order and timestamps are not compared (the statement speaks of names and contents)",
        "independence of the number of cores is not demanded by the statement: the 2-core card is compared with itself only",
        "clocks are shifted through the Python-level time/datetime interfaces; C-level clocks (file mtimes) stay real",
    ]


def replay(case):
    """Re-execute one case without the explorer (seed cases are compared with a seed-0 run)."""
    if case["kind"] not in ("seed", "env"):
        return evaluate(case)
    res = Result()
    ref = _run_digest(CARDS[case["card"]], 0)
    dg = _run_digest(CARDS[case["card"]], case["seed"], ENVS[case["env"]] if case["kind"] == "env" else None)
    diff = _compare(dg, ref)
    if diff:
        mid = f"environment-dependent/env={case['env']}/" if case["kind"] == "env" else ""
        res.fail(f"solve/{case['card']}/{mid}{diff[0]}", diff[1])
    res.outcome = "replayed"
    return res
