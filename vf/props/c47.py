"""C47 solving is reproducible (X-sched over the hash seed, repetitions and listing orders).

Fresh interpreter processes with PYTHONHASHSEED in a fixed list x repetitions x tiny cards: the
archives must have the same member names, bit-identical arrays (and compressed bytes) and equal
parsed YAML. In-process: every permutation of the directory listing order seen by the inventory
(`Path.iterdir`) while re-reading a 3-operator archive, and every permutation of the recipe list.
"""

import itertools
import json
import os
import subprocess
import sys

import numpy as np

from vf.core import cards
from vf.core.ctx import Result, HarnessError

ID = "C47"
LEVEL = "model_checking"
TECHNIQUE = "enumeration of hash seeds x repetitions in fresh processes and of all directory-listing / recipe-order permutations; bitwise comparison of archives"
LEVEL_TEXT = (
    "the sources of run-to-run nondeterminism of a solve (string-hash seed, set iteration order of recipes, directory "
    "listing order) are enumerated exhaustively over small domains; every resulting archive is compared member by member"
)
LEVEL_NOTE = "seeds limited to the listed values; tiny grids; interpreted mode; tar member order and mtimes are not part of the comparison"
FLOOR_NONTRIVIAL = 8

GRID = [0.2, 0.6, 1.0]
CARDS = {
    "lo-thr-2t": dict(order=[1, 0], mugrid=[[6.0, 5], [10.0, 5]], method="truncated", xgrid=GRID),
    "nlo-ffns": dict(order=[2, 0], mugrid=[[3.0, 4]], method="iterate-exact", iterations=2, xgrid=GRID),
    "lo-down": dict(order=[1, 0], init=[6.0, 5], mugrid=[[3.0, 4], [2.0, 3]], method="truncated", xgrid=GRID),
    "lo-qed": dict(order=[1, 1], mugrid=[[3.0, 4]], method="iterate-exact", iterations=1, xgrid=GRID),
    "nlo-2cores": dict(order=[2, 0], mugrid=[[6.0, 5], [3.0, 4]], method="truncated", xgrid=[0.05, 0.2, 0.5, 0.8, 1.0], cores=2),
}


def _run_digest(cfg, seed):
    env = dict(os.environ)
    env["PYTHONHASHSEED"] = str(seed)
    scratch = os.environ["VERIF_SCRATCH_DIR"]
    out = subprocess.run(
        [sys.executable, "-m", "vf.tools.solve_digest", json.dumps(cfg), scratch],
        env=env,
        capture_output=True,
        text=True,
        timeout=1200,
    )
    for line in out.stdout.splitlines():
        if line.startswith("DIGEST "):
            return json.loads(line[7:])
    raise HarnessError(f"digest subprocess failed: {out.stdout[-500:]} {out.stderr[-1500:]}")


def evaluate(case):
    res = Result()
    kind = case["kind"]
    if kind == "seed":
        dg = _run_digest(CARDS[case["card"]], case["seed"])
        res.info = {"digest": dg}
        res.outcome = f"{case['card']}:{len(dg)} members"
        return res
    if kind == "iterdir":
        import pathlib

        from eko.io.items import Operator
        from eko.io.struct import EKO

        path = cards.scratch_path("c47")
        th, op = cards.build(dict(xgrid=[0.5, 1.0], mugrid=[[3.0, 4], [4.0, 4], [6.0, 5]]))
        eps = [(9.0, 4), (16.0, 4), (36.0, 5)]
        try:
            with EKO.create(path) as b:
                e = b.load_cards(th, op).build()
                for i, ep in enumerate(eps):
                    a = np.arange(16, dtype=float).reshape(2, 2, 2, 2) * (i + 1)
                    e[ep] = Operator(a, a / 7)
            perm = case["perm"]
            real = pathlib.Path.iterdir

            def permuted(self):
                items = sorted(real(self), key=lambda p: p.name)
                if len(items) == 2 * len(perm):
                    # operators dir: (yaml, array) pairs per header; permute the headers, and put arrays first or last
                    stems = sorted({p.name.split(".")[0] for p in items})
                    order = [stems[i] for i in perm]
                    items.sort(key=lambda p: (order.index(p.name.split(".")[0]), p.suffix != ".yaml" if case["yaml_first"] else p.suffix == ".yaml"))
                return iter(items)

            pathlib.Path.iterdir = permuted
            try:
                with EKO.read(path) as e:
                    got_keys = sorted(e)
                    got = {ep: (o.operator.copy(), o.error.copy()) for ep, o in e.items()}
            finally:
                pathlib.Path.iterdir = real
            if got_keys != sorted(eps):
                res.fail("EKO.read/iterdir-order/keys", f"perm={perm}: evolution points {got_keys} != {sorted(eps)}")
            for i, ep in enumerate(eps):
                a = np.arange(16, dtype=float).reshape(2, 2, 2, 2) * (i + 1)
                if ep not in got or got[ep][0].tobytes() != a.tobytes() or got[ep][1].tobytes() != (a / 7).tobytes():
                    res.fail("EKO.read/iterdir-order/values", f"perm={perm}: operator at {ep} differs")
        finally:
            if path.exists():
                path.unlink()
        res.outcome = "iterdir"
        res.nontrivial = list(case["perm"]) != sorted(case["perm"])
        return res
    raise HarnessError(kind)


def run(ctx):
    seeds = [0, 1, 2] if not ctx.thorough() else [0, 1, 2, 3, 4, 5, 6, 7]
    reps = 2
    card_list = list(CARDS)
    cases = []
    for card in card_list:
        for seed in seeds:
            for rep in range(reps):
                cases.append(dict(kind="seed", card=card, seed=seed, rep=rep))
    for perm in itertools.permutations(range(3)):
        for yf in (True, False):
            cases.append(dict(kind="iterdir", perm=list(perm), yaml_first=yf))
    results = ctx.run_cases(cases, evaluate)
    # cross-case oracle: all digests of one card are identical
    by_card = {}
    for case, (outcome, fails, nt, info, tb) in results:
        if case["kind"] == "seed":
            by_card.setdefault(case["card"], []).append((case, info["digest"]))
    ndiff = 0
    for card, lst in by_card.items():
        lst.sort(key=lambda x: (x[0]["seed"], x[0]["rep"]))
        ref_case, ref = lst[0]
        for case, dg in lst[1:]:
            if sorted(dg) != sorted(ref):
                ctx.add_fail(case, f"solve/{card}/member-names", f"seed={case['seed']} rep={case['rep']}: members {sorted(set(dg) ^ set(ref))} differ from seed={ref_case['seed']} rep={ref_case['rep']}")
                ndiff += 1
                continue
            for name in ref:
                if dg[name] != ref[name]:
                    kind = "array" if name.endswith(".lz4") else ("yaml" if name.endswith(".yaml") else "file")
                    ctx.add_fail(case, f"solve/{card}/{kind}-content", f"seed={case['seed']} rep={case['rep']}: member {name} differs from seed={ref_case['seed']} rep={ref_case['rep']}: {str(dg[name])[:200]} vs {str(ref[name])[:200]}")
                    ndiff += 1
                    break
    # strip bulky digests from samples
    for s in ctx.samples:
        if isinstance(s.get("info"), dict) and "digest" in s["info"]:
            s["info"] = {"members": len(s["info"]["digest"]), "example": sorted(s["info"]["digest"])[:4]}
    ctx.extra.update(
        states=len(cases),
        transitions=sum(len(d) for lst in by_card.values() for _, d in lst),
        traces_validated_against_impl=len(cases),
        seeds=seeds,
        repetitions=reps,
    )
    ctx.rule = (
        f"fresh processes: {len(card_list)} tiny cards (thresholds up/down, two targets, QED) x PYTHONHASHSEED in {seeds} x {reps} repetitions, "
        "all digests of a card compared member by member (names, decompressed array bytes, compressed bytes, parsed YAML); in-process: all 6 "
        "permutations x 2 of the operators directory listing while re-reading a 3-operator archive; non-trivial = all seed cases and non-identity permutations"
    )
    ctx.assumptions += ["recipe-order permutations are enumerated in C03", "tar member order and timestamps are not compared"]


def replay(case):
    """Re-execute one case without the explorer (seed cases are compared with a seed-0 run)."""
    if case["kind"] != "seed":
        return evaluate(case)
    res = Result()
    ref = _run_digest(CARDS[case["card"]], 0)
    dg = _run_digest(CARDS[case["card"]], case["seed"])
    if sorted(dg) != sorted(ref):
        res.fail(f"solve/{case['card']}/member-names", f"members differ: {sorted(set(dg) ^ set(ref))}")
    else:
        for name in ref:
            if dg[name] != ref[name]:
                res.fail(f"solve/{case['card']}/content", f"member {name} differs")
    res.outcome = "replayed"
    return res
