"""C34 the interpolation basis is a partition of unity that reproduces polynomials.

Complete product (mode log/linear) x (grid shape) x (x_min) x (grid size) x (degree 1..6, degree < size);
per (grid, degree): the whole basis is evaluated at every node, node +- 1 ulp (inside [x_min, 1]), the
arithmetic and geometric midpoint of every cell (thorough: also quarter points) and the two ends, and the
identities of the statement are checked directly:

  * Kronecker: p_j(x_i) = delta_ij,
  * polynomial reproduction: sum_j q(x_j) p_j(x) = q(x) for the monomials q = t^k, k = 0..degree
    (k = 0 is the partition of unity; a basis of the polynomial space decides all polynomials),
  * re-interpolation: get_interpolation(target) @ q(nodes) = q(target) for a fixed family of target grids
    (nodes, nodes moved by 1 ulp, nodes moved by a relative 1e-9, 3e-6, 1e-4 (all but the last / one interior node),
    cell midpoints, same-length shifted grid, a foreign 7 point grid, single points, and -- where nodes below
    1e-7 exist -- grids that differ from the nodes only there),
  * rejection of repeated points / too few points / degree < 1 (separate cases).

The identities do not depend on which block of nodes the implementation interpolates with, so nothing
beyond the statement is demanded.  Reference values q(x) come from 50 digit mpmath arithmetic on the exact
float inputs.  Tolerance = 2e-13 + 64 * eps * cond(x) with cond the monomial-basis condition number of the
local Lagrange polynomials (maximum over all admissible blocks; vf.ref.c34_grids.MonomialCond).
"""

import warnings

import numpy as np

from vf.core.ctx import Result
from vf.ref import c34_grids as G

ID = "C34"
LEVEL = "exploration"
TECHNIQUE = "exhaustive (mode x grid family x x_min x size x degree) lattice; identities checked against 50-digit mpmath polynomials"
LEVEL_TEXT = (
    "on every grid of the lattice and every admissible degree the Kronecker property, the partition of unity, "
    "the reproduction of all monomials up to the degree (hence of all such polynomials) and the same for the "
    "re-interpolation matrix to 12 families of target grids are checked at all nodes, nodes +-1 ulp, cell "
    "midpoints and ends; all rejection clauses are enumerated"
)
LEVEL_NOTE = (
    "decides the property on the lattice only (between lattice points a piecewise polynomial of degree <= d "
    "that agrees with q at d+1 points of a cell would agree on the cell, but only 2-6 points per cell are "
    "probed); 'exactly' is read as 'to the rounding of a monomial-coefficient evaluation' "
    "(2e-13 + 64 eps cond); grids end at x = 1"
)
FLOOR_NONTRIVIAL = 40

EPS = float(np.finfo(float).eps)
TOL_FLOOR = 2e-13
TOL_C = 64.0

SHAPES = ["geometric", "linear", "loglin", "lambert", "irregular"]
SIZES_Q = [2, 3, 5, 8, 12, 20, 40]
SIZES_T = [2, 3, 4, 5, 6, 7, 8, 10, 12, 16, 20, 30, 40]
XMIN_Q = [1e-9, 1e-5, 1e-2]
XMIN_T = [1e-9, 1e-8, 1e-7, 1e-5, 1e-3, 1e-2, 0.1]
DEGREES = [1, 2, 3, 4, 5, 6]
SMALL_X = 1e-7


def _tol(cond):
    return TOL_FLOOR + TOL_C * EPS * cond


def eval_points(g, dense):
    pts = set(g)
    for a, b in zip(g, g[1:]):
        pts.add(0.5 * (a + b))
        pts.add((a * b) ** 0.5)
        pts.add(G.ulp_up(a))
        pts.add(G.ulp_down(b))
        if dense:
            pts.add(a + 0.25 * (b - a))
            pts.add(a + 0.75 * (b - a))
            pts.add(a ** 0.75 * b ** 0.25)
            pts.add(a ** 0.25 * b ** 0.75)
    return sorted(p for p in pts if g[0] <= p <= g[-1])


def target_grids(g):
    """name -> target grid (lists of floats inside [x_min, 1])."""
    n = len(g)
    out = {}
    out["nodes"] = list(g)
    out["nodes-1ulp"] = [G.ulp_up(x) for x in g[:-1]] + [G.ulp_down(g[-1])]
    out["midpoints"] = [(a * b) ** 0.5 for a, b in zip(g, g[1:])]
    out["shifted-same-length"] = [a ** 0.7 * b ** 0.3 for a, b in zip(g, g[1:])] + [g[-1]]
    out["foreign-7"] = G.geometric(7, g[0])
    out["single-xmin"] = [g[0]]
    out["single-one"] = [g[-1]]
    if g[0] < SMALL_X:
        t = list(g)
        t[0] = min(2.0 * g[0], (g[0] * g[1]) ** 0.5)
        out["near-nodes:first-node-small-x"] = t
        t = list(g)
        for i in range(n - 1):
            if g[i] < SMALL_X:
                t[i] = min(2.0 * g[i], (g[i] * g[i + 1]) ** 0.5)
        if t != out["near-nodes:first-node-small-x"]:
            out["near-nodes:all-small-x"] = t
    # same length as the nodes and next to them, by a RELATIVE amount far above rounding but small: a matrix that is
    # the identity there misses every non-constant polynomial by (relative shift) x slope
    for name, rel, idx in (
        ("near-nodes-rel:all-1e-9", 1e-9, range(n - 1)),
        ("near-nodes-rel:all-3e-6", 3e-6, range(n - 1)),
        ("near-nodes-rel:one-3e-6", 3e-6, [min(n // 2, n - 2)]),
        ("near-nodes-rel:all-1e-4", 1e-4, range(n - 1)),
    ):
        t = list(g)
        for i in idx:
            t[i] = g[i] * (1.0 + rel)
        if all(a < b for a, b in zip(t, t[1:])) and t != list(g):
            out[name] = t
    return out


def evaluate(case):
    if case["kind"] == "reject":
        return _evaluate_reject(case)
    from eko import interpolation as I

    is_log, shape, xmin, n = case["log"], case["shape"], case["xmin"], case["n"]
    g = G.make(shape, n, xmin)
    res = Result()
    ref = G.PolyRef(g, is_log)
    pts = eval_points(g, case.get("dense", False))
    node_idx = {x: i for i, x in enumerate(g)}
    tgrids = target_grids(g)
    info = {"max_err_over_tol": 0.0, "max_abs_err_wellcond": 0.0, "max_tol": 0.0, "checks": 0, "illcond_points": 0, "loose_points": 0}
    where0 = f"log={is_log} shape={shape} xmin={xmin} n={n}"
    Qmax = min(6, n - 1)
    Q_nodes_all = ref.monomials(g, Qmax)
    Q_pts_all = ref.monomials(pts, Qmax)
    Q_t_all = {name: ref.monomials(t, Qmax) for name, t in tgrids.items()}
    degs = []
    for d in DEGREES:
        if n <= d:
            continue
        for mode_N in case.get("mode_N", [False]):
            sig = f"log={is_log}"
            where = where0 + f" degree={d} mode_N={mode_N}"
            try:
                with warnings.catch_warnings():
                    warnings.simplefilter("ignore")
                    disp = I.InterpolatorDispatcher(I.XGrid(list(g), log=is_log), d, mode_N=mode_N)
                    P = np.array([[bf.evaluate_x(x) for bf in disp] for x in pts], dtype=float)
            except Exception as e:  # noqa
                res.fail(f"InterpolatorDispatcher/valid-grid-raises/{sig}", f"{type(e).__name__}: {e} {where}")
                continue
            degs.append(d)
            cnd = G.MonomialCond(g, is_log, d)
            tol = np.array([_tol(cnd(x)) for x in pts])
            info["max_tol"] = max(info["max_tol"], float(tol.max()))
            info["illcond_points"] += int((tol > 1e-3).sum())
            info["loose_points"] += int((tol > 1e-6).sum())
            if not np.all(np.isfinite(P)):
                res.fail(f"basis/non-finite/{sig}", where)
                continue
            # ---- Kronecker at the nodes
            for ip, x in enumerate(pts):
                if x in node_idx:
                    want = np.zeros(n)
                    want[node_idx[x]] = 1.0
                    dev = np.abs(P[ip] - want)
                    j = int(dev.argmax())
                    _note(info, dev[j], tol[ip])
                    if dev[j] > tol[ip]:
                        res.fail(
                            f"basis/kronecker/{sig}",
                            f"{where}: p_{j}(x_{node_idx[x]}={x!r}) = {P[ip, j]!r}, expected {want[j]} (tol {tol[ip]:.2e})",
                        )
                        break
            # ---- polynomial reproduction (k = 0: partition of unity)
            got = P @ Q_nodes_all[:, : d + 1]
            dev = np.abs(got - Q_pts_all[:, : d + 1])
            for k in range(d + 1):
                r = dev[:, k] / tol
                ip = int(r.argmax())
                _note(info, dev[ip, k], tol[ip])
                if r[ip] > 1.0:
                    name = "partition-of-unity" if k == 0 else "polynomial"
                    res.fail(
                        f"basis/{name}/{sig}",
                        f"{where}: sum_j t(x_j)^{k} p_j(x) at x={pts[ip]!r} = {got[ip, k]!r}, exact {Q_pts_all[ip, k]!r} "
                        f"(tol {tol[ip]:.2e})",
                    )
            # ---- re-interpolation matrices
            for name, t in tgrids.items():
                # one signature per defect class: targets that differ from the nodes only at very small x / all others
                fam = "near-nodes-rel" if name.startswith("near-nodes-rel") else "near-nodes" if name.startswith("near-nodes") else "target-grid"
                try:
                    with warnings.catch_warnings():
                        warnings.simplefilter("ignore")
                        R = np.asarray(disp.get_interpolation(np.array(t)), dtype=float)
                except Exception as e:  # noqa
                    res.fail(f"get_interpolation/{fam}/raises/{sig}", f"{type(e).__name__}: {e} {where} target={name}")
                    continue
                if R.shape != (len(t), n):
                    res.fail(f"get_interpolation/{fam}/shape/{sig}", f"{where} target={name}: shape {R.shape}")
                    continue
                ttol = np.array([_tol(cnd(x)) for x in t])
                got = R @ Q_nodes_all[:, : d + 1]
                dev = np.abs(got - Q_t_all[name][:, : d + 1])
                r = dev / ttol[:, None]
                ip, k = np.unravel_index(int(r.argmax()), r.shape)
                _note(info, dev[ip, k], ttol[ip])
                if r[ip, k] > 1.0:
                    # the documented-wrong behaviour gets its own signature: the identity is handed back for a
                    # target grid that is not the node set (any other failure of this family keeps the plain one)
                    # (targets up to a relative 1e-5 from the nodes; the same answer farther away is another signature)
                    ident = fam == "near-nodes-rel" and list(t) != list(g) and np.array_equal(R, np.eye(n))
                    far = max(abs(a / b - 1.0) for a, b in zip(t, g)) > 1e-5 if ident else False
                    res.fail(
                        f"get_interpolation/{fam}/{('identity-returned/rel-' + ('above' if far else 'below') + '-1e-5/') if ident else ''}{sig}",
                        f"{where} target={name}: (R @ t(nodes)^{k})[{ip}] = {got[ip, k]!r} but t^{k} at target point "
                        f"{t[ip]!r} is {Q_t_all[name][ip, k]!r} (node {g[min(ip, n - 1)]!r}; tol {ttol[ip]:.2e})",
                    )
    res.info = info
    res.nontrivial = bool(degs)
    res.outcome = f"degrees={len(degs)},small-x-targets={int(g[0] < SMALL_X)},illcond={int(info['illcond_points'] > 0)}"
    return res


def _note(info, dev, tol):
    """measured maxima over the checks that PASS (a failing check is reported on its own)."""
    info["checks"] += 1
    r = float(dev) / float(tol)
    if r > 1.0:
        return
    if r > info["max_err_over_tol"]:
        info["max_err_over_tol"] = r
    if tol < 1e-10 and float(dev) > info["max_abs_err_wellcond"]:
        info["max_abs_err_wellcond"] = float(dev)


# ------------------------------------------------------------------------------------------------
# rejections
# ------------------------------------------------------------------------------------------------
def reject_cases():
    cases = []
    base = {2: [0.1, 1.0], 3: [1e-3, 0.1, 1.0], 5: [1e-5, 1e-3, 0.1, 0.5, 1.0], 12: G.geometric(12, 1e-7)}
    for log in (True, False):
        for n, g in base.items():
            # repeated point at the start / in the middle / at the end
            for pos in sorted({0, n // 2, n - 1}):
                gg = list(g)
                gg.insert(pos, gg[pos])
                for d in (1, 2):
                    cases.append({"kind": "reject", "why": "repeated", "log": log, "grid": gg, "degree": d, "pos": pos})
            # too few points for the degree: len(grid) <= degree
            for d in DEGREES + [7, 12, 40]:
                if n <= d:
                    cases.append({"kind": "reject", "why": "too-few", "log": log, "grid": list(g), "degree": d})
            # degree below one
            for d in (0, -1, -3):
                cases.append({"kind": "reject", "why": "degree<1", "log": log, "grid": list(g), "degree": d})
        for gg in ([], [1.0], [0.5]):
            cases.append({"kind": "reject", "why": "too-few", "log": log, "grid": gg, "degree": 1})
        # controls: the border that must be accepted (n = degree + 1)
        for n, g in base.items():
            if n - 1 <= 6:
                cases.append({"kind": "reject", "why": "control-accept", "log": log, "grid": list(g), "degree": n - 1})
    return cases


def _evaluate_reject(case):
    from eko import interpolation as I

    res = Result()
    why, g, d, log = case["why"], case["grid"], case["degree"], case["log"]
    outcomes = []
    for via in ("xgrid", "sequence"):
        if via == "sequence" and not log:
            continue  # a bare sequence is always a log grid
        try:
            arg = I.XGrid(list(g), log=log) if via == "xgrid" else list(g)
            I.InterpolatorDispatcher(arg, d, mode_N=False)
            raised = None
        except Exception as e:  # noqa
            raised = type(e).__name__
        outcomes.append(f"{via}:{raised}")
        if why == "control-accept":
            if raised is not None:
                res.fail(f"InterpolatorDispatcher/valid-grid-raises/log={log}", f"grid={g} degree={d} via={via}: {raised}")
        elif raised is None:
            res.fail(
                f"InterpolatorDispatcher/not-rejected/{why}/log={log}",
                f"grid={g} degree={d} via={via}: constructed without an error",
            )
    res.outcome = f"{why}:{'|'.join(sorted(set(o.split(':')[1] for o in outcomes)))}"
    res.info = {"outcomes": outcomes}
    return res


def run(ctx):
    thorough = ctx.thorough()
    sizes = SIZES_T if thorough else SIZES_Q
    xmins = XMIN_T if thorough else XMIN_Q
    cases = []
    seen = set()
    for log in (True, False):
        for shape in SHAPES:
            for xmin in xmins:
                for n in sizes:
                    g = G.make(shape, n, xmin)
                    if g is None:
                        continue
                    key = (log, tuple(g))
                    if key in seen:  # e.g. every family gives the same 2-point grid
                        continue
                    seen.add(key)
                    c = {"kind": "basis", "log": log, "shape": shape, "xmin": xmin, "n": n}
                    if thorough:
                        c["dense"] = True
                        c["mode_N"] = [False, True]
                    elif n == 8 and xmin == 1e-5:
                        # quick: the dispatcher as the library builds it by default (mode_N=True) for one size per (mode, family)
                        c["mode_N"] = [False, True]
                    cases.append(c)
    nbasis = len(cases)
    cases += reject_cases()
    results = ctx.run_cases(cases, evaluate)
    nchecks = sum((r[1][3] or {}).get("checks", 0) for r in results)
    nloose = sum((r[1][3] or {}).get("loose_points", 0) for r in results)
    nill = sum((r[1][3] or {}).get("illcond_points", 0) for r in results)
    ctx.extra.update(points_with_tol_above_1e_6=int(nloose), points_with_tol_above_1e_3=int(nill))
    ctx.rule = (
        f"complete product of mode {{log, linear}} x 5 grid families (geometric, linear, log-lin, Lambert, "
        f"irregular) x x_min in {xmins} x size in {sizes} (duplicates removed: {nbasis} grids), each with every "
        "degree 1..6 below the size; per (grid, degree) all nodes, nodes +-1 ulp, arithmetic/geometric cell "
        "midpoints (thorough: quarter points, and both mode_N settings; quick: both mode_N settings for size 8, x_min 1e-5) "
        "and both ends, all monomials up to the "
        "degree, 11-13 target grids (incl. same-length grids next to the nodes by a relative 1e-9 / 3e-6 / 1e-4, all nodes or one node); plus the enumerated rejection cases (repeated point at start/middle/end, "
        "size <= degree, degree in {0,-1,-3}, empty and single-point grids, accepted border size = degree+1); "
        f"{nchecks} individual identity checks; non-trivial = at least one degree admissible"
    )
    ctx.assumptions += [
        "valid grid = strictly increasing floats ending at exactly 1.0 (all of eko's own generators do)",
        "'exactly' = within 2e-13 + 64*eps*cond(x), cond = monomial-basis condition number of the local Lagrange "
        "polynomials maximised over all admissible blocks (measured worst ratio error/(eps*cond) = 4.2)",
        "identities are decided at the lattice points only; polynomial space decided through its monomial basis",
        "'rejected' = any exception from XGrid(...) / InterpolatorDispatcher(...)",
        "'very small x' = below 1e-7 (the bound named by C42); such targets exist only for x_min < 1e-7",
        "'any target grid' includes same-length grids next to the nodes (relative 1e-9, 3e-6, 1e-4; signatures "
        "get_interpolation/near-nodes-rel/...): they are held to the same tolerance as every other target; an identity "
        "matrix handed back for such a grid is reported as .../identity-returned/rel-{below,above}-1e-5/log=...; "
        "shifts between 1 ulp and ~1e-12 change a polynomial by less than the tolerance floor and cannot be judged",
    ]
